#!/bin/sh
# MANIFEST.setup_cmd: offline, idempotent.
cd "$(dirname "$0")" || exit 1
export PIP_NO_INDEX=1 PYTHONDONTWRITEBYTECODE=1
if [ ! -d .deps/icontract ]; then
  /venv/bin/python -m pip install --quiet --no-index --find-links /opt/veriftools/wheels --target .deps icontract deal >/dev/null 2>&1 || echo "setup: icontract/deal install failed (checks fall back to plain monitors)"
fi
mkdir -p evidence replay
/venv/bin/python -B -m vf.selftest_models || exit 1
echo "setup ok"
