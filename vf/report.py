"""E7: verdicts, evidence, replay files, known findings."""
import collections
import hashlib
import json
import os
import random
import time

VF_ROOT = os.path.dirname(os.path.dirname(os.path.abspath(__file__)))
EVIDENCE_DIR = os.environ.get("VF_EVIDENCE_DIR") or os.path.join(VF_ROOT, "evidence")
REPLAY_DIR = os.environ.get("VF_REPLAY_DIR") or os.path.join(VF_ROOT, "replay")
KNOWN_FILE = os.path.join(VF_ROOT, "known_findings.json")

MAX_DISTINCT = 400000  # cap on remembered digests per process


def jsonable(x, depth=0):
    if depth > 8:
        return repr(x)[:200]
    if isinstance(x, (bytes, bytearray)):
        b = bytes(x)
        if len(b) > 48:
            return "hex:%s..(%d bytes, sha256 %s)" % (
                b[:24].hex(), len(b), hashlib.sha256(b).hexdigest()[:12])
        return "hex:" + b.hex()
    if isinstance(x, (str, int, float, bool)) or x is None:
        if isinstance(x, str) and len(x) > 400:
            return x[:400] + "..(%d chars)" % len(x)
        if isinstance(x, int) and abs(x) > 2 ** 62:
            return str(x)
        return x
    if isinstance(x, dict):
        return {str(jsonable(k, depth + 1)): jsonable(v, depth + 1) for k, v in list(x.items())[:200]}
    if isinstance(x, (list, tuple, set, frozenset)):
        xs = list(x)
        if isinstance(x, (set, frozenset)):
            try:
                xs = sorted(xs)
            except TypeError:
                xs = sorted(xs, key=repr)
        return [jsonable(v, depth + 1) for v in xs[:200]]
    return repr(x)[:300]


def digest(*parts):
    h = hashlib.blake2b(digest_size=8)
    for p in parts:
        if not isinstance(p, (bytes, bytearray)):
            p = repr(p).encode("utf-8", "backslashreplace")
        h.update(len(p).to_bytes(4, "big"))
        h.update(p)
    return h.digest()


def load_known():
    try:
        with open(KNOWN_FILE) as f:
            doc = json.load(f)
    except FileNotFoundError:
        return {}
    out = {}
    for e in doc.get("findings", []):
        out[(e["property"], e["key"])] = e
    return out


class Inconclusive(Exception):
    pass


class WatchdogTimeout(BaseException):
    """Raised inside a case by the wall-clock watchdog (SIGALRM)."""


class _Watchdog(object):
    def __init__(self, ck, seconds, what):
        self.ck, self.seconds, self.what = ck, seconds, what

    def _fire(self, signum, frame):
        raise WatchdogTimeout(self.what)

    def __enter__(self):
        import signal
        self._old = signal.signal(signal.SIGALRM, self._fire)
        signal.setitimer(signal.ITIMER_REAL, self.seconds)
        return self

    def __exit__(self, et, ev, tb):
        import signal
        signal.setitimer(signal.ITIMER_REAL, 0)
        signal.signal(signal.SIGALRM, self._old)
        if et is WatchdogTimeout:
            # wall-clock deadlines never decide: a case that did not finish is inconclusive
            self.ck.inconclusive_because("wall-clock watchdog (%ds) fired in: %s" % (self.seconds, self.what))
            self.ck.observe("watchdog-fired")
            return True
        return False


class Check(object):
    """Context handed to every check's run(ck)."""

    def __init__(self, pid, tier, seed, shard=0, nshards=1, level="exploration",
                 replay=None, budget_s=None):
        self.pid = pid
        self.tier = tier
        self.seed = seed
        self.shard = shard
        self.nshards = nshards
        self.level = level
        self.replay = replay
        self.t0 = time.time()
        self.budget_s = budget_s
        self.evaluations = 0
        self.classes = collections.Counter()
        self.reach = collections.Counter()
        self.monitor_evals = collections.Counter()
        self.observations = collections.Counter()
        self.dont_care = collections.Counter()
        self.distinct = set()
        self.samples = []
        self.max_samples = 6
        self.violations = {}   # key -> dict(what, witness, count)
        self.inconclusive = []
        self.rule = ""
        self.assumptions = []
        self.exhaustive = None
        self.extra = {}
        self.required_reach = []   # names that must be > 0 else inconclusive
        self.required_monitors = []
        self._case_no = 0

    # --- randomness
    def rng(self, *salt):
        return random.Random("%s/%s/%s/%s" % (self.pid, self.seed, self.shard, "/".join(map(str, salt))))

    def mine(self, index):
        """Shard membership of case `index`."""
        return index % self.nshards == self.shard

    def time_left(self):
        if self.budget_s is None:
            return 1e9
        return self.budget_s - (time.time() - self.t0)

    def out_of_time(self):
        return self.time_left() <= 0 or bool(self.observations.get("watchdog-fired"))

    def more(self, min_cases=0, hard_factor=4.0):
        """Loop condition for time-budgeted workloads: keep going until the budget is used,
        but (on a loaded machine) never stop before `min_cases` cases unless `hard_factor`
        times the budget has passed."""
        if self.observations.get("watchdog-fired"):
            return False
        if self.time_left() > 0:
            return True
        if self.evaluations < min_cases and self.budget_s is not None \
                and (time.time() - self.t0) < hard_factor * self.budget_s:
            return True
        return False

    def watchdog(self, seconds=180, what="case"):
        """with ck.watchdog(120, "case 17"): ...  -- generous wall-clock guard around one case."""
        return _Watchdog(self, seconds, what)

    # --- recording
    def case(self, cls="case", key=None, nontrivial=True, sample=None):
        self.evaluations += 1
        self.classes[cls] += 1
        if nontrivial and key is not None and len(self.distinct) < MAX_DISTINCT:
            self.distinct.add(digest(cls, key) if not isinstance(key, bytes) or len(key) != 8 else key)
        if sample is not None:
            n = self.classes[cls]
            if len(self.samples) < self.max_samples and n <= 2:
                self.samples.append({"class": cls, "case": jsonable(sample)})

    def hit(self, name, n=1):
        self.reach[name] += n

    def mon(self, name, n=1):
        self.monitor_evals[name] += n

    def observe(self, name, n=1):
        self.observations[name] += n

    def skip(self, name, n=1):
        self.dont_care[name] += n

    def violation(self, key, what, witness=None):
        v = self.violations.get(key)
        if v is None:
            self.violations[key] = {"key": key, "what": what, "count": 1,
                                    "witness": jsonable(witness)}
        else:
            v["count"] += 1

    def inconclusive_because(self, why):
        if why not in self.inconclusive:
            self.inconclusive.append(why)

    def require_reach(self, *names):
        self.required_reach.extend(names)

    def require_monitor(self, *names):
        self.required_monitors.extend(names)

    # --- shard transport
    def dump(self):
        return {
            "evaluations": self.evaluations,
            "classes": dict(self.classes), "reach": dict(self.reach),
            "monitor_evals": dict(self.monitor_evals),
            "observations": dict(self.observations),
            "dont_care": dict(self.dont_care),
            "distinct": [d.hex() for d in self.distinct],
            "samples": self.samples, "violations": self.violations,
            "inconclusive": self.inconclusive, "rule": self.rule,
            "assumptions": self.assumptions, "exhaustive": self.exhaustive,
            "extra": jsonable(self.extra),
            "required_reach": self.required_reach,
            "required_monitors": self.required_monitors,
        }

    def merge(self, d):
        self.evaluations += d["evaluations"]
        for name in ("classes", "reach", "monitor_evals", "observations", "dont_care"):
            getattr(self, name).update(d[name])
        for h in d["distinct"]:
            if len(self.distinct) < 4 * MAX_DISTINCT:
                self.distinct.add(bytes.fromhex(h))
        for s in d["samples"]:
            if len(self.samples) < self.max_samples:
                self.samples.append(s)
        for k, v in d["violations"].items():
            if k in self.violations:
                self.violations[k]["count"] += v["count"]
            else:
                self.violations[k] = v
        for w in d["inconclusive"]:
            self.inconclusive_because(w)
        self.rule = self.rule or d["rule"]
        for a in d["assumptions"]:
            if a not in self.assumptions:
                self.assumptions.append(a)
        if d["exhaustive"] is not None:
            self.exhaustive = d["exhaustive"] if self.exhaustive is None else (self.exhaustive and d["exhaustive"])
        for k, v in (d.get("extra") or {}).items():
            if isinstance(v, (int, float)) and isinstance(self.extra.get(k), (int, float)):
                self.extra[k] += v
            else:
                self.extra.setdefault(k, v)
        for n in d["required_reach"]:
            if n not in self.required_reach:
                self.required_reach.append(n)
        for n in d["required_monitors"]:
            if n not in self.required_monitors:
                self.required_monitors.append(n)

    # --- finishing
    def finish(self):
        """Write evidence, print verdict lines, return the exit code."""
        known = load_known()
        for n in self.required_reach:
            if self.reach.get(n, 0) == 0:
                self.inconclusive_because("mechanism never reached: " + n)
        for n in self.required_monitors:
            if self.monitor_evals.get(n, 0) == 0:
                self.inconclusive_because("monitor never evaluated: " + n)
        if self.evaluations == 0:
            self.inconclusive_because("no case executed")

        new, listed = [], []
        for k, v in sorted(self.violations.items()):
            e = known.get((self.pid, k))
            if e is not None and e.get("status") == "known":
                listed.append((k, v, e))
            else:
                new.append((k, v))

        wall = time.time() - self.t0
        cov = {
            "evaluations": int(self.evaluations),
            "distinct_nontrivial": len(self.distinct),
            "rule": self.rule or "see DESIGN.md",
            "samples": self.samples[: self.max_samples] or [{"note": "no sample recorded"}],
            "case_classes": dict(self.classes),
            "mechanism_reach": dict(self.reach),
            "monitor_evaluations": dict(self.monitor_evals),
            "observations": dict(self.observations),
            "dont_care": dict(self.dont_care),
            "known_findings_seen": {k: v["count"] for k, v, _ in listed},
            "new_violation_keys": [k for k, _ in new],
            "inconclusive": self.inconclusive,
            "shards": self.nshards,
        }
        if self.exhaustive is not None:
            cov["exhaustive"] = bool(self.exhaustive)
        cov.update(jsonable(self.extra))
        ev = {
            "property_id": self.pid, "tier": self.tier, "seed": int(self.seed),
            "level": self.level, "coverage": cov,
            "assumptions": self.assumptions,
            "wall_s": round(wall, 3), "violations": len(new),
        }
        os.makedirs(EVIDENCE_DIR, exist_ok=True)
        tmp = os.path.join(EVIDENCE_DIR, ".%s.%d.tmp" % (self.pid, os.getpid()))
        with open(tmp, "w") as f:
            json.dump(ev, f, indent=1, sort_keys=True)
            f.write("\n")
        os.replace(tmp, os.path.join(EVIDENCE_DIR, self.pid + ".json"))

        for k, v, e in listed:
            print("KNOWN-FINDING: property=%s %s: %s (seen %d times this run)"
                  % (self.pid, k, e.get("what", v["what"]), v["count"]))
        code = 0
        if new:
            os.makedirs(REPLAY_DIR, exist_ok=True)
            for k, v in new:
                path = os.path.join(REPLAY_DIR, "%s-%s-%s.json" % (
                    self.pid, self.seed, "".join(c if c.isalnum() or c in "-_" else "_" for c in k)))
                with open(path, "w") as f:
                    json.dump({"property": self.pid, "key": k, "tier": self.tier,
                               "seed": self.seed, "what": v["what"],
                               "count": v["count"], "witness": v["witness"]}, f, indent=1)
                print("VIOLATION property=%s replay=%s" % (self.pid, path))
                print("  key=%s count=%d: %s" % (k, v["count"], v["what"]))
            code = 1
        elif self.inconclusive:
            for w in self.inconclusive:
                print("INCONCLUSIVE property=%s %s" % (self.pid, w))
            code = 2
        print("%s %s seed=%d: %d evaluations, %d distinct, %d known-finding keys, %d new violation keys, %.1fs"
              % (self.pid, self.tier, self.seed, self.evaluations, len(self.distinct),
                 len(listed), len(new), wall))
        return code
