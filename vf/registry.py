"""Per-property metadata used to generate MANIFEST.json (tools/gen_manifest.py)."""

# id -> dict(level, text, note, technique, ref)
P = {}


def reg(pid, level, technique, text, note, ref=None):
    P[pid] = dict(level=level, technique=technique, text=text, note=note,
                  ref=ref or ("DESIGN.md §5 " + pid))


reg("C07", "exploration",
    "runtime oracle on the real share_placement(): exhaustive enumeration of small layouts + seeded random layouts, judged by an independent Kuhn matching",
    "Executes the real share_placement on every layout with <=4 servers x <=5 shares (thorough, complete; quick samples it) and on random layouts up to 20x30; an independent augmenting-path matching decides completeness, read-only respect and optimal spread. Exhaustive on the small bound, sampled beyond it.",
    "Trusts the 15-line Kuhn matching model (self-tested) and that inputs are shaped as PeerSelector produces them (rw/ro disjoint, >=1 rw).")
reg("C08", "exploration",
    "runtime differential oracle: servers_of_happiness() vs independent Kuhn maximum matching over enumerated and random relations, re-run under permuted insertion orders and element types",
    "Every relation on up to 4x4 (thorough) share/server grids plus random relations up to 30x30, each evaluated in several dict/set insertion orders and with bytes/object server ids.",
    "Trusts the matching model; PYTHONHASHSEED fixed so order permutations are the harness's own.")
