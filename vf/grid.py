"""E2: in-process grid of real components, wired through the scheduler.

Servers are real StorageServer + FoolscapStorageServer objects on temp dirs;
`Wire` is our RemoteReference: callRemote() posts a request event to the
scheduler, delivery runs the real remote_* method, the result is posted back as
a response event.  Clients are the real allmydata.client._Client with the same
networking overrides the repository's own no-network test client uses.
"""
import hashlib
import os
import shutil
import tempfile

from vf import env
from vf.sched import Sched

from twisted.internet import defer
from twisted.python.failure import Failure
from twisted.internet.error import ConnectionLost
from twisted.application import service
from zope.interface import implementer
from foolscap.api import Referenceable, RemoteException, DeadReferenceError
from foolscap.ipb import IRemoteReference

from allmydata.interfaces import IStorageBroker, IServer
from allmydata.client import _Client, read_config
from allmydata.storage.server import StorageServer, FoolscapStorageServer
from allmydata.storage_client import _StorageServer
from allmydata.util import fileutil, idlib, hashutil, base32
from allmydata.util.hashutil import permute_server_hash


# The two crawlers of every StorageServer compute the 1024 two-letter prefixes with
# si_b2a() at construction (8 ms per server).  si_b2a is a pure function: memoise the
# name the crawler module uses (values are still computed by the code under test).
import functools as _functools
import allmydata.storage.crawler as _crawler
if not hasattr(_crawler.si_b2a, "cache_info"):
    _crawler.si_b2a = _functools.lru_cache(maxsize=8192)(_crawler.si_b2a)


class InjectedError(Exception):
    pass


def _copy(x):
    """What serialization would do to plain containers (caller cannot alias)."""
    if isinstance(x, list):
        return [_copy(i) for i in x]
    if isinstance(x, tuple):
        return tuple(_copy(i) for i in x)
    if isinstance(x, dict):
        return {k: _copy(v) for k, v in x.items()}
    if isinstance(x, set):
        return set(x)
    return x


def _digest(x):
    h = hashlib.blake2b(digest_size=6)
    h.update(repr(x).encode("utf-8", "backslashreplace")[:4096])
    return h.hexdigest()


class SimpleStats(object):
    def __init__(self):
        self.counters = {}
        self.stats_producers = []

    def count(self, name, delta=1):
        self.counters[name] = self.counters.get(name, 0) + delta

    def register_producer(self, p):
        self.stats_producers.append(p)

    def get_stats(self):
        return {"counters": self.counters, "stats": {}}


class Fault(object):
    """One rule of a server's fault plan.

    method: wire method name or None (any); nth: fire on the nth matching call
    (1-based) or None (every); action: 'raise' | 'hang' | 'delay' | 'disconnect'
    | 'lose-response' | 'raise-after' (run the method, then answer with an error)
    | 'hold' (run the method, keep the answer back until VServer.release_held());
    delay: virtual seconds for 'delay'; when: optional predicate over the call's
    positional arguments (only calls it accepts are counted)."""

    def __init__(self, action, method=None, nth=None, delay=0.0, target=None, after_nth=None, delay_step=0.0,
                 when=None):
        self.when = when
        self.action = action
        self.method = method
        self.nth = nth
        self.after_nth = after_nth  # fire on every matching call after the nth
        self.delay = delay
        self.delay_step = delay_step  # each further firing answers this much later (staggered answers)
        self.target = target        # None | 'root' | 'bucket'
        self.seen = 0
        self.fired = 0

    def matches(self, methname, is_root, args=()):
        if self.method is not None and self.method != methname:
            return False
        if self.when is not None and not self.when(args):
            return False
        if self.target == "root" and not is_root:
            return False
        if self.target == "bucket" and is_root:
            return False
        self.seen += 1
        if self.after_nth is not None:
            return self.seen > self.after_nth
        return self.nth is None or self.seen == self.nth

    def current_delay(self):
        return self.delay + self.delay_step * max(0, self.fired - 1)

    def describe(self):
        return {"action": self.action, "method": self.method, "nth": self.nth,
                "after_nth": self.after_nth, "delay": self.delay, "target": self.target}


class CanaryProxy(object):
    """Server-side view of a client Referenceable (the upload canary)."""

    def __init__(self, vserver):
        self.vserver = vserver

    def notifyOnDisconnect(self, f, *a, **kw):
        m = object()
        self.vserver.server_side_disconnect[m] = (f, a, kw)
        return m

    def dontNotifyOnDisconnect(self, m):
        self.vserver.server_side_disconnect.pop(m, None)


@implementer(IRemoteReference)
class Wire(object):
    def __init__(self, vserver, original, is_root=False):
        self.vserver = vserver
        self.original = original
        self.is_root = is_root
        if is_root:
            self.version = original.remote_get_version()

    def __repr__(self):
        return "<Wire %s %s>" % (self.vserver.name, type(self.original).__name__)

    # -- IRemoteReference
    def notifyOnDisconnect(self, f, *a, **kw):
        m = object()
        self.vserver.client_side_disconnect[m] = (f, a, kw)
        return m

    def dontNotifyOnDisconnect(self, m):
        self.vserver.client_side_disconnect.pop(m, None)

    def callRemoteOnly(self, methname, *args, **kwargs):
        d = self.callRemote(methname, *args, **kwargs)
        d.addErrback(lambda f: None)
        return None

    def getPeer(self):
        return None

    def getRemoteTubID(self):
        return self.vserver.name

    def callRemote(self, methname, *args, **kwargs):
        vs = self.vserver
        grid = vs.grid
        sched = grid.sched
        if not vs.connected:
            return defer.fail(Failure(DeadReferenceError("connection to %s lost" % vs.name)))
        args = tuple(self._wrap_arg(_copy(a)) for a in args)
        kwargs = {k: self._wrap_arg(_copy(v)) for k, v in kwargs.items()}
        d = defer.Deferred()
        vs.calls[methname] = vs.calls.get(methname, 0) + 1
        callno = grid.next_callno()
        cnt = vs.calls[methname]
        label = "%s>%s#%d" % (vs.name, methname, cnt)
        rec = {"n": callno, "server": vs.name, "method": methname, "args": args, "kwargs": kwargs,
               "t_call": sched.reactor.seconds(), "state": "sent", "result": None, "obj": self.original}
        if grid.keep_log:
            grid.calls.append(rec)
        vs.inflight[callno] = d

        def respond(res, delay=0.0):
            def deliver_rsp():
                if vs.inflight.pop(callno, None) is None:
                    return  # already failed by a disconnect
                rec["state"] = "answered"
                rec["t_rsp"] = sched.reactor.seconds()
                if isinstance(res, Failure):
                    d.errback(res)
                else:
                    d.callback(res)
            sched.post(vs.name, "rsp", "%s<%s#%d" % (vs.name, methname, cnt), deliver_rsp,
                       delay=delay)

        def deliver_req():
            if not vs.connected:
                return  # request lost with the connection; caller was already failed
            rec["state"] = "delivered"
            rec["t_srv"] = sched.reactor.seconds()
            action, fault = vs.pick_fault(methname, self.is_root, args)
            if action == "raise":
                rec["result"] = "injected-raise"
                return respond(Failure(RemoteException(Failure(InjectedError("injected failure in %s" % methname)))),
                               delay=fault.current_delay())
            if action == "hang":
                rec["result"] = "injected-hang"
                vs.hung.append((callno, methname))
                return
            if action == "disconnect":
                rec["result"] = "injected-disconnect"
                vs.disconnect()
                return
            if grid.pre_delivery is not None:
                grid.pre_delivery(vs, methname, args, rec)
            try:
                meth = getattr(self.original, "remote_" + methname)
                res = meth(*args, **kwargs)
            except Exception:
                f = Failure()
                rec["result"] = "raise:" + f.type.__name__
                rec["exc"] = f
                if grid.post_delivery is not None:
                    grid.post_delivery(vs, methname, args, rec)
                return respond(Failure(RemoteException(f)), delay=fault.current_delay() if action == "delay" else 0.0)
            if isinstance(res, defer.Deferred):
                box = []
                res.addBoth(box.append)
                if not box:
                    raise RuntimeError("asynchronous remote method not supported: " + methname)
                res = box[0]
                if isinstance(res, Failure):
                    rec["result"] = "raise:" + res.type.__name__
                    return respond(Failure(RemoteException(res)))
            rec["result"] = res
            if grid.post_delivery is not None:
                grid.post_delivery(vs, methname, args, rec)
            if action == "lose-response":
                vs.hung.append((callno, methname))
                return
            if action == "raise-after":
                return respond(Failure(RemoteException(Failure(InjectedError("injected failure after %s" % methname)))))
            if grid.mutate_response is not None:
                res = grid.mutate_response(vs, methname, args, res, self.original)
            if action == "hold":
                rec["result"] = "held"
                wrapped = self._wrap_result(_copy(res))
                vs.held.append((callno, methname, lambda: respond(wrapped)))
                return
            respond(self._wrap_result(_copy(res)), delay=fault.current_delay() if action == "delay" else 0.0)

        sched.post(vs.name, "req", label, deliver_req)
        return d

    def _wrap_arg(self, a):
        if isinstance(a, Referenceable):
            return CanaryProxy(self.vserver)
        return a

    def _wrap_result(self, res):
        if isinstance(res, Referenceable):
            return Wire(self.vserver, res)
        if isinstance(res, dict):
            return {k: self._wrap_result(v) for k, v in res.items()}
        if isinstance(res, tuple):
            return tuple(self._wrap_result(v) for v in res)
        if isinstance(res, list):
            return [self._wrap_result(v) for v in res]
        return res


@implementer(IServer)
class VIServer(object):
    """Client-side handle of one server (what the storage broker hands out)."""

    def __init__(self, vserver):
        self.vserver = vserver
        self.serverid = vserver.serverid
        self.permitted = True

    def __repr__(self):
        return "<VIServer %s>" % self.vserver.name

    def __copy__(self):
        return self

    def __deepcopy__(self, memo):
        return self

    def __hash__(self):
        return hash(self.serverid)

    def __eq__(self, other):
        return isinstance(other, VIServer) and other.serverid == self.serverid

    def __lt__(self, other):
        return self.serverid < other.serverid

    def upload_permitted(self):
        return self.permitted

    def get_serverid(self):
        return self.serverid

    def get_permutation_seed(self):
        return self.serverid

    # three different values, as on a real grid (tubid vs. pubkey-derived ids), so that code
    # which confuses the seeds becomes observable
    def get_lease_seed(self):
        return hashutil.tagged_hash(b"vf-lease-seed", self.serverid)[:20]

    def get_foolscap_write_enabler_seed(self):
        return hashutil.tagged_hash(b"vf-we-seed", self.serverid)[:20]

    def get_name(self):
        return idlib.shortnodeid_b2a(self.serverid).encode("utf-8")

    def get_longname(self):
        return idlib.nodeid_b2a(self.serverid)

    def get_nickname(self):
        return self.vserver.name

    def get_rref(self):
        return self.vserver.wire

    def get_storage_server(self):
        return _StorageServer(lambda: self.vserver.wire)

    def get_version(self):
        return self.vserver.wire.version

    def is_connected(self):
        return self.vserver.connected

    def get_available_space(self):
        v = self.get_version()
        return v.get(b"http://allmydata.org/tahoe/protocols/storage/v1", {}).get(b"maximum-immutable-share-size")

    def start_connecting(self, trigger_cb):
        raise NotImplementedError


class VServer(object):
    def __init__(self, grid, index, readonly=False, reserved_space=0):
        self.grid = grid
        self.index = index
        self.name = "s%02d" % index
        self.serverid = hashutil.tagged_hash(b"vf-serverid", b"%d" % index)[:20]
        self.basedir = os.path.join(grid.basedir, "servers", self.name)
        self.storedir = os.path.join(self.basedir, "storage")
        fileutil.make_dirs(self.storedir)
        self.readonly = readonly
        self.reserved_space = reserved_space
        self.faults = []
        self.calls = {}
        self.hung = []
        self.held = []
        self.inflight = {}
        self.client_side_disconnect = {}
        self.server_side_disconnect = {}
        self.connected = True
        self.zombie = False   # listed by the broker although every call fails with DeadReferenceError
        self.hidden = False
        self.start()
        self.iserver = VIServer(self)

    def start(self):
        """(Re)start the storage server process on the same directory."""
        self.ss = StorageServer(self.storedir, self.serverid, stats_provider=SimpleStats(),
                                readonly_storage=self.readonly, reserved_space=self.reserved_space,
                                clock=env.reactor)
        self.fss = FoolscapStorageServer(self.ss)
        self.wire = Wire(self, self.fss, is_root=True)
        self.connected = True

    def set_available_space(self, nbytes):
        """Pin what the storage server believes is free on its disk (before reserved space is
        subtracted elsewhere): affects allocate_buckets and the advertised maximum share size."""
        self.ss.get_available_space = lambda: nbytes
        self.wire.version = self.fss.remote_get_version()

    def sharedir(self, si):
        from allmydata.storage.server import storage_index_to_dir
        return os.path.join(self.storedir, "shares", storage_index_to_dir(si))

    def shares_of(self, si):
        """{shnum: path} of share files on disk for storage index si."""
        d = self.sharedir(si)
        out = {}
        if os.path.isdir(d):
            for fn in os.listdir(d):
                if fn.isdigit():
                    out[int(fn)] = os.path.join(d, fn)
        return out

    def all_share_files(self):
        out = []
        root = os.path.join(self.storedir, "shares")
        for dp, dn, fns in os.walk(root):
            for fn in fns:
                out.append(os.path.join(dp, fn))
        return sorted(out)

    def incoming_files(self):
        return [p for p in self.all_share_files() if "/incoming/" in p]

    def release_held(self, order=None):
        """Let the answers kept back by 'hold' faults go out now (all become deliverable at this instant)."""
        held, self.held = self.held, []
        if order is not None:
            held = [held[i] for i in order]
        for (_, _, go) in held:
            go()
        return len(held)

    def pick_fault(self, methname, is_root, args=()):
        for f in self.faults:
            if f.matches(methname, is_root, args):
                f.fired += 1
                return f.action, f
        return None, None

    def add_fault(self, *a, **kw):
        f = Fault(*a, **kw)
        self.faults.append(f)
        return f

    def disconnect(self):
        """Connection lost: pending calls fail, both sides' disconnect callbacks fire."""
        if not self.connected:
            return
        self.connected = False
        sched = self.grid.sched
        sched.net = [m for m in sched.net if m.chan != self.name]
        inflight, self.inflight = self.inflight, {}
        for callno in sorted(inflight):
            d = inflight[callno]
            env.evq.append(d.errback, (Failure(ConnectionLost("injected disconnect")),), {})
        cbs, self.server_side_disconnect = self.server_side_disconnect, {}
        for (f, a, kw) in cbs.values():
            try:
                f(*a, **kw)
            except Exception:
                pass
        cbs, self.client_side_disconnect = self.client_side_disconnect, {}
        for (f, a, kw) in cbs.values():
            env.evq.append(f, a, kw)


@implementer(IStorageBroker)
class VBroker(object):
    def __init__(self, grid):
        self.grid = grid
        self.client = None

    def get_servers_for_psi(self, peer_selection_index, for_upload=True):
        def _permuted(server):
            return permute_server_hash(peer_selection_index, server.get_permutation_seed())
        servers = self.get_connected_servers()
        if for_upload:
            servers = [s for s in servers if s.upload_permitted()]
        return sorted(servers, key=_permuted)

    def get_connected_servers(self):
        return [vs.iserver for vs in self.grid.servers if (vs.connected or vs.zombie) and not vs.hidden]

    def get_nickname_for_serverid(self, serverid):
        return None

    def when_connected_enough(self, threshold):
        return defer.Deferred()

    def get_all_serverids(self):
        return frozenset(vs.serverid for vs in self.grid.servers)

    def get_known_servers(self):
        return [vs.iserver for vs in self.grid.servers]

    def get_server_for_id(self, serverid):
        for vs in self.grid.servers:
            if vs.serverid == serverid:
                return vs.iserver
        return None

    def get_stub_server(self, serverid):
        return self.get_server_for_id(serverid)


class VClient(_Client):
    """The real client node with the networking overrides the repository's own
    _NoNetworkClient uses."""

    def init_connections(self):
        pass

    def create_main_tub(self):
        pass

    def init_introducer_client(self):
        pass

    def create_log_tub(self):
        pass

    def setup_logging(self):
        pass

    def startService(self):
        service.MultiService.startService(self)

    def stopService(self):
        return service.MultiService.stopService(self)

    def init_helper(self):
        pass

    def init_key_gen(self):
        pass

    def init_storage(self):
        pass

    def init_stub_client(self):
        pass


class KeyPool(object):
    """RSA key pairs are expensive (30 ms); generate lazily, hand out in order."""

    def __init__(self):
        self.keys = []
        self.i = 0

    def next(self):
        from allmydata.crypto import rsa
        if self.i >= len(self.keys):
            self.keys.append(rsa.create_signing_keypair(2048))
        k = self.keys[self.i]
        self.i += 1
        return k

    def rewind(self):
        self.i = 0


KEYPOOL = KeyPool()


class _PoolKeyGen(object):
    """Stand-in for client.KeyGenerator that serves from the pool (the keys are
    real RSA-2048 keys produced by the repository's own rsa module)."""

    def __init__(self, pool, fresh=True):
        self.pool = pool
        self.fresh = fresh

    def generate(self):
        from allmydata.crypto import rsa
        if self.fresh:
            priv, pub = rsa.create_signing_keypair(2048)
            return defer.succeed((pub, priv))
        priv, pub = self.pool.next()
        return defer.succeed((pub, priv))


class VGrid(object):
    def __init__(self, nservers=5, seed=0, profile="per-server-fifo", eager_timers=0.0,
                 choices=None, keep_log=True, readonly=(), reserved=None, reuse_keys=True,
                 eager_horizon=2.0):
        self.basedir = tempfile.mkdtemp(prefix="vf-grid-")
        self.sched = Sched(seed=seed, profile=profile, eager_timers=eager_timers, choices=choices,
                           eager_horizon=eager_horizon)
        self.keep_log = keep_log
        self.calls = []
        self._callno = 0
        self.pre_delivery = None      # fn(vserver, methname, args, rec) just before the server method runs
        self.post_delivery = None     # fn(vserver, methname, args, rec) just after
        self.mutate_response = None   # fn(vserver, methname, args, result, obj) -> result
        self.servers = []
        self.clients = []
        self.reuse_keys = reuse_keys
        for i in range(nservers):
            self.add_server(readonly=(i in readonly), reserved_space=(reserved or {}).get(i, 0))

    def next_callno(self):
        self._callno += 1
        return self._callno

    def add_server(self, readonly=False, reserved_space=0):
        vs = VServer(self, len(self.servers), readonly=readonly, reserved_space=reserved_space)
        self.servers.append(vs)
        return vs

    def make_client(self, k=3, happy=1, n=10, max_segment_size=None, mutable_format=None,
                    convergence=None):
        i = len(self.clients)
        clientdir = os.path.join(self.basedir, "clients", "c%d" % i)
        fileutil.make_dirs(os.path.join(clientdir, "private"), 0o700)
        with open(os.path.join(clientdir, "tahoe.cfg"), "w") as f:
            f.write("[node]\nnickname = client-%d\n[client]\n" % i)
            f.write("shares.needed = %d\nshares.happy = %d\nshares.total = %d\n" % (k, happy, n))
            if max_segment_size is not None:
                f.write("shares._max_immutable_segment_size_for_testing = %d\n" % max_segment_size)
            if mutable_format:
                f.write("mutable.format = %s\n" % mutable_format)
            f.write("[storage]\nenabled = false\n")
        if convergence is not None:
            with open(os.path.join(clientdir, "private", "convergence"), "wb") as f:
                f.write(base32.b2a(convergence) + b"\n")
        config = read_config(clientdir, "client.port")
        broker = VBroker(self)
        c = VClient(config, main_tub=None, i2p_provider=None, tor_provider=None,
                    introducer_clients=[], storage_farm_broker=broker)
        broker.client = c
        c.nodeid = hashutil.tagged_hash(b"vf-clientid", b"%d" % i)[:20]
        c.short_nodeid = base32.b2a(c.nodeid)[:8]
        if self.reuse_keys:
            kg = _PoolKeyGen(KEYPOOL, fresh=False)
            c._key_generator = kg
            c.nodemaker.key_generator = kg
        c.startService()
        self.clients.append(c)
        return c

    # -- convenience
    def wait(self, d, **kw):
        return self.sched.wait(d, **kw)

    def find_shares(self, si):
        """[(vserver, shnum, path)] of all share files for storage index si."""
        out = []
        for vs in self.servers:
            for shnum, p in sorted(vs.shares_of(si).items()):
                out.append((vs, shnum, p))
        return out

    def close(self):
        for c in self.clients:
            try:
                c.stopService()
            except Exception:
                pass
        self.sched.reset()
        shutil.rmtree(self.basedir, ignore_errors=True)
