"""C31 HTTP and direct storage access agree."""
META = {
    "level": "exploration",
    "technique": "differential histories: the same seeded operation history through the real HTTP client/server stack on server A and through direct StorageServer calls on twin server B (same virtual clock, node id and secrets), results and disk compared after every operation",
    "text": "Twin real StorageServers on two temp dirs share the virtual clock. Server A is reached only through the real HTTPServer over treq's StubTreq by the real StorageClientImmutables / StorageClientMutables / StorageClientGeneral and the _HTTPStorageServer adapter (both layers are used); server B is called directly (allocate_buckets / BucketWriter.write,close,abort / BucketReader.read / add_lease / advise_corrupt_share / slot_testv_and_readv_and_writev / slot_readv / enumerate_mutable_shares). Seeded histories of 40..70 operations: immutable allocation of several shares, writes in random chunking (sequential, out of order, duplicate-identical, overlapping-identical, conflicting, beyond the end, > 64 KiB), completion, abort, upload timeout, range reads around every boundary (0, size-1, size, size+1, 64 KiB +-1, far past the end, zero length), whole-share GET without Range, share listing, lease add/renew at moving times, corruption advisories (ASCII, Unicode, long), read-test-write with matching / failing test vectors, several write vectors, new_length none/0/smaller/larger, right and wrong write enabler, slot reads of all / some / missing shares. After every operation: outcome class and value of both paths equal, the 'finished' flag and required ranges equal to an independent written-mask model, every file below shares/ (final and incoming) byte-identical on both servers, advisories equal up to their wall-clock file name, allocated_size() equal.",
    "note": "Trusts StubTreq, the 10-line written-mask model, os.walk/file comparison, and the alignment of both operations inside the same virtual second (asserted). Does not issue zero-length writes, zero-size allocations (RangeMap shim), writes to closed writers, or aborts after completion (API misuse whose result differs by protocol design).",
}
LEVEL = "exploration"
BUDGET = {"quick": 40, "thorough": 240}
SHARDS = {"quick": 1, "thorough": 8}

import math
import os
import shutil
import tempfile

from vf import env  # noqa  (first)

SMALL_SIZES = [1, 2, 3, 10, 57, 100, 255, 256, 257, 1000]
BIG_SIZES = [65535, 65536, 65537, 70001, 131072, 131077, 200003]
K64 = 65536


# ------------------------------------------------------------------ clock

def tick_to(frac):
    """advance the virtual clock to the next instant whose fractional part is frac"""
    now = env.reactor.seconds()
    target = math.floor(now) + frac
    if target <= now + 1e-6:
        target += 1.0
    env.reactor.advance(target - now)


# ------------------------------------------------------------- normalisation

HTTP_CLASSES = {401: "bad-secret", 404: "not-found", 409: "conflict", 405: "not-allowed",
                416: "bad-range", 400: "bad-request", 413: "too-large", 500: "server-error"}


def classify_http_failure(f):
    """outcome class of a failure coming out of the HTTP client stack"""
    from twisted.internet.defer import FirstError
    from foolscap.api import RemoteException
    from allmydata.storage.http_client import ClientException
    v = f.value
    if isinstance(v, FirstError):
        v = v.subFailure.value
    code = None
    if isinstance(v, ClientException):
        code = v.code
    elif isinstance(v, RemoteException):
        inner = v.failure
        if isinstance(inner, tuple) and inner and isinstance(inner[0], int):
            code = inner[0]
        elif isinstance(inner, str) and "nauthorized" in inner:
            code = 401
    if code is not None:
        return HTTP_CLASSES.get(code, "http-%s" % code)
    return "client-" + type(v).__name__


def classify_direct_exception(e):
    from allmydata.interfaces import ConflictingWriteError, DataTooLargeError, BadWriteEnablerError
    if isinstance(e, ConflictingWriteError):
        return "conflict"
    if isinstance(e, DataTooLargeError):
        return "too-large"
    if isinstance(e, BadWriteEnablerError):
        return "bad-secret"
    if isinstance(e, KeyError):
        return "not-found"
    return "direct-" + type(e).__name__


# outcome classes that mean the same thing on both paths although the carrier differs
EQUIVALENT = {("server-error", "too-large")}      # HTTP answers 500 to a write beyond the allocated size


def ranges_of(rm):
    return [(a, b) for a, b, _v in rm.ranges()]


# ------------------------------------------------------------------ disk

def disk_state(storedir):
    from vf.checks._storage import snapshot_dir
    shares = snapshot_dir(os.path.join(storedir, "shares"))
    adv = snapshot_dir(os.path.join(storedir, "corruption-advisories"))
    advn = sorted((name.split("--", 1)[-1], content) for name, content in adv.items())
    return shares, advn


def classify_disk_difference(sa, sb):
    """(key, description) of the first difference between two shares/ snapshots"""
    from vf.checks._storage import ImmutableRaw, MutableRaw
    fa, fb = set(sa), set(sb)
    if fa != fb:
        only_a, only_b = sorted(fa - fb), sorted(fb - fa)
        inc = any(p.startswith("incoming") for p in only_a + only_b)
        return ("incoming-file-set-differs" if inc else "share-file-set-differs",
                "only over HTTP: %r; only direct: %r" % (only_a[:4], only_b[:4]))
    for p in sorted(fa):
        if sa[p] == sb[p]:
            continue
        a, b = sa[p], sb[p]
        if p.startswith("incoming"):
            return ("incoming-share-bytes-differ", "%s: %d vs %d bytes, first difference at %d"
                    % (p, len(a), len(b), next((i for i in range(min(len(a), len(b))) if a[i] != b[i]), min(len(a), len(b)))))
        try:
            if a[:5] == b"Tahoe" or b[:5] == b"Tahoe":
                ra, rb = MutableRaw(a), MutableRaw(b)
                if ra.data != rb.data:
                    return ("mutable-share-data-differs", "%s: data %d vs %d bytes" % (p, len(ra.data), len(rb.data)))
                if ra.write_enabler != rb.write_enabler:
                    return ("mutable-write-enabler-differs", p)
                la = [(l["expiry"], l["renew"]) for l in ra.leases]
                lb = [(l["expiry"], l["renew"]) for l in rb.leases]
                if la != lb:
                    return ("mutable-leases-differ", "%s: %r vs %r" % (p, [x[0] for x in la], [x[0] for x in lb]))
                return ("mutable-container-differs", p)
            ra, rb = ImmutableRaw(a), ImmutableRaw(b)
            if ra.data != rb.data:
                return ("immutable-share-data-differs", "%s: data %d vs %d bytes" % (p, len(ra.data), len(rb.data)))
            la = [(l["expiry"], l["renew"]) for l in ra.leases]
            lb = [(l["expiry"], l["renew"]) for l in rb.leases]
            if la != lb:
                return ("immutable-leases-differ", "%s: %r vs %r" % (p, [x[0] for x in la], [x[0] for x in lb]))
            return ("immutable-header-differs", p)
        except Exception as e:  # unparsable: still a difference
            return ("share-file-bytes-differ", "%s (%s)" % (p, type(e).__name__))
    return None


# ------------------------------------------------------------------ case

class Diverged(Exception):
    pass


class Share(object):
    """generator-side record of one immutable share being uploaded on both servers"""

    def __init__(self, si, n, size, data, mode):
        self.si, self.n, self.size, self.data, self.mode = si, n, size, data, mode
        self.mask = bytearray(size)
        self.written = []          # [(offset, length)] of accepted writes
        self.state = "open"        # open | done | gone
        self.a_secret = None       # client mode: upload secret
        self.a_writer = None       # adapter mode: writer reference
        self.b_writer = None
        self.last = 0.0            # virtual time of the last event that (re)started the upload timeout

    def complete(self):
        return self.mask.find(0) == -1

    def holes(self):
        out, i = [], self.mask.find(0)
        while i != -1:
            j = self.mask.find(1, i)
            if j == -1:
                j = self.size
            out.append((i, j))
            i = self.mask.find(0, j) if j < self.size else -1
        return out


def run(ck):
    ck.rule = ("case = fresh twin servers + seeded history of 40..70 ops over 2..3 immutable storage indexes x shares 0..4 "
               "(sizes boundary-biased 1..1000, sometimes 64 KiB+-1..200 kB) and 2 mutable slots x shares 0..3; "
               "distinct = (case seed, op index, op kind, arguments digest); non-trivial = the op reached the server on "
               "both paths (not a generator no-op)")
    ncases = 90 if ck.tier == "quick" else 100000
    for ci in range(ncases):
        if not ck.mine(ci):
            continue
        if ck.out_of_time():
            break
        rng = ck.rng("case", ci)
        with ck.watchdog(150, "case %d" % ci):
            one_case(ck, ci, rng)
    for m in ("result-agreement", "disk-agreement", "finished-flag-vs-model", "required-ranges-vs-model",
              "allocated-size-agreement", "advisories-agreement"):
        ck.require_monitor(m)
    ck.require_reach("upload-completed-by-out-of-order-chunks", "conflicting-write-rejected-both",
                     "identical-overlap-accepted-both", "read-past-end-short-both", "read-at-end-empty-both",
                     "rtw-testv-failed-both", "rtw-wrong-enabler-rejected-both", "rtw-share-deleted-both",
                     "lease-renewed-both", "abort-both", "chunk-loop-over-64k", "whole-share-get",
                     "not-found-both", "upload-timeout-both", "read-loop-over-64k",
                     "large-duplicate-write", "large-write-conflict-in-later-block", "large-shifted-overlap-write",
                     "rtw-via-adapter", "rtw-via-client",
                     "slot-readv-with-missing-shares-both", "slot-readv-missing-before-existing-both",
                     "advisory-written-both:non-ascii:immutable", "advisory-written-both:non-ascii:mutable",
                     "advisory-written-both:ascii:immutable", "advisory-written-both:ascii:mutable",
                     "rtw-test-must-be-new-on-existing-refused-both", "rtw-test-must-be-new-on-absent-passed-both",
                     "rtw-test-size-exceeds-specimen-refused-both", "rtw-test-clipped-tail-passed-both",
                     "rtw-test-size-below-specimen-refused-both")
    ck.exhaustive = False


def one_case(ck, ci, rng):
    from vf.http import HttpStorage, auth_value, b32si
    from vf.checks import _storage as S
    from allmydata.storage.http_client import ClientException

    nodeid = rng.randbytes(20)
    tmpb = tempfile.mkdtemp(prefix="vf-")
    A = HttpStorage(swissnum=b"c31-" + rng.randbytes(6).hex().encode(), nodeid=nodeid)
    try:
        B = S.make_server(tmpb, nodeid=nodeid)
        ist = A.istorage
        big_case = (ci % 8 == 3) or rng.random() < (0.03 if ck.tier == "quick" else 0.15)
        imm_sis = [rng.randbytes(16) for _ in range(rng.choice([2, 3]))]
        if rng.random() < 0.3:
            imm_sis[1] = imm_sis[0][:2] + imm_sis[1][2:]      # shared prefix directory
        imm_size = {}
        for si in imm_sis:
            imm_size[si] = rng.choice(BIG_SIZES) if (big_case and rng.random() < 0.6) else rng.choice(SMALL_SIZES)
        mut_sis = [rng.randbytes(16) for _ in range(2)]
        mut_we = {si: rng.randbytes(32) for si in mut_sis}
        leases = [(rng.randbytes(32), rng.randbytes(32)) for _ in range(3)]
        shares = {}          # (si, n) -> Share (latest upload attempt)
        oplog = []
        GOODAUTH = [("Authorization", auth_value(A.swissnum))]

        last_op_time = [env.reactor.seconds()]

        def avoid_timeout_boundary():
            """The statement says nothing about the very instant an upload times out (server B's timer is a few
            virtual ms ahead of A's): never operate within 0.6 s of an open upload's 30-minute deadline."""
            for _ in range(10):
                now = env.reactor.seconds()
                fl = math.floor(now)
                t_next = fl + 0.1 if now - fl < 0.1 - 1e-6 else fl + 1.1
                if not any(s.state == "open" and abs(t_next - (s.last + 1800.0)) < 0.6 for s in shares.values()):
                    return
                env.reactor.advance(1.0)
                A.settle(1)
                ck.skip("upload-timeout-boundary-instant")

        # ---------------------------------------------------------- plumbing
        def runA(d, max_steps=4000):
            st, v = A.drive(d, max_steps=max_steps)
            if st == "steps":
                return ("hang", None)
            if st == "err":
                return ("err", classify_http_failure(v))
            return ("ok", v)

        def runB(fn):
            try:
                return ("ok", fn())
            except Exception as e:
                return ("err", classify_direct_exception(e))

        def same_outcome(ra, rb):
            if ra[0] != rb[0]:
                return False
            if ra[0] == "err":
                return ra[1] == rb[1] or (ra[1], rb[1]) in EQUIVALENT
            return ra[1] == rb[1]

        def witness(op, ra, rb, **kw):
            w = {"case": ci, "seed": ck.seed, "op": op, "http": ra, "direct": rb, "history_tail": oplog[-6:]}
            w.update(kw)
            return w

        def step(kind, desc, fa, fb, norm_a=lambda v: v, norm_b=lambda v: v, key=None, known=None,
                 nontrivial=True, readonly=False):
            """Run one op on B (direct) then A (HTTP) inside the same virtual second; compare."""
            tick_to(0.1)
            t0 = env.reactor.seconds()
            last_op_time[0] = t0
            rb = runB(fb)
            ra = runA(fa())
            if env.reactor.seconds() - t0 > 0.35:
                ck.inconclusive_because("an HTTP operation took more than 0.35 virtual seconds (%s)" % kind)
            if ra[0] == "hang":
                ck.inconclusive_because("HTTP operation did not finish within the step bound: %s" % kind)
                raise Diverged()
            if ra[0] == "ok":
                ra = ("ok", norm_a(ra[1]))
            if rb[0] == "ok":
                rb = ("ok", norm_b(rb[1]))
            tick_to(0.5)
            A.settle(1)
            oplog.append(desc)
            ck.mon("result-agreement")
            agree = same_outcome(ra, rb)
            if ra[0] == "err" and rb[0] == "err" and ra[1] != rb[1] and agree:
                ck.observe("equivalent-error-carriers:%s/%s" % (ra[1], rb[1]))
            k = None
            if not agree:
                k = known(ra, rb) if known else None
                ck.violation(k or key or ("result-differs:" + kind),
                             "%s: over HTTP %s, direct %s" % (desc, short(ra), short(rb)), witness(desc, ra, rb))
            ck.case(kind, key=(ci, len(oplog), desc), nontrivial=nontrivial,
                    sample={"op": desc, "http": short(ra), "direct": short(rb)})
            if not agree and not (k and readonly):
                raise Diverged()      # (an analysed divergence of a read-only op leaves both servers in step)
            compare_state(kind, desc, ra, rb)
            return ra, rb

        def short(r):
            s = repr(r)
            return s if len(s) < 160 else s[:160] + "..."

        def compare_state(kind, desc, ra=None, rb=None):
            sa, adva = disk_state(A.storedir)
            sb, advb = disk_state(B.storedir)
            ck.mon("disk-agreement")
            if sa != sb:
                key, what = classify_disk_difference(sa, sb)
                if kind == "write" and rb is not None and rb[0] == "err" and "len>64k" in desc:
                    key = "rejected-large-write-partially-applied-over-http"
                ck.violation(key, "after %s the share directories differ: %s" % (desc, what),
                             witness(desc, ra, rb, difference=what))
                raise Diverged()
            ck.mon("advisories-agreement")
            if adva != advb:
                ck.violation("corruption-advisories-differ",
                             "after %s: %d advisories over HTTP, %d direct" % (desc, len(adva), len(advb)),
                             witness(desc, ra, rb, http=adva[-2:], direct=advb[-2:]))
                raise Diverged()
            ck.mon("allocated-size-agreement")
            if A.ss.allocated_size() != B.allocated_size():
                ck.violation("allocated-size-differs", "after %s: allocated_size %d over HTTP, %d direct"
                             % (desc, A.ss.allocated_size(), B.allocated_size()), witness(desc, ra, rb))
                raise Diverged()

        # ---------------------------------------------------------- operations
        def op_alloc(si=None, nums=None, mode=None):
            si = si or rng.choice(imm_sis)
            size = imm_size[si]
            nums = nums or set(rng.sample(range(5), rng.randint(1, 3)))
            renew, cancel = rng.choice(leases)
            mode = mode or rng.choice(["client", "adapter"])
            secret = rng.randbytes(rng.choice([16, 20, 32]))
            hold = {}

            def fa():
                if mode == "client":
                    return A.imm.create(si, nums, size, secret, renew, cancel)
                return ist.allocate_buckets(si, renew, cancel, nums, size, None)

            def na(v):
                if mode == "client":
                    hold["a"] = {n: None for n in v.allocated}
                    return (sorted(v.already_have), sorted(v.allocated))
                hold["a"] = dict(v[1])
                return (sorted(v[0]), sorted(v[1]))

            def fb():
                return B.allocate_buckets(si, renew, cancel, nums, size)

            def nb(v):
                hold["b"] = dict(v[1])
                return (sorted(v[0]), sorted(v[1]))
            desc = "allocate si%d shares=%s size=%d via %s" % (imm_sis.index(si), sorted(nums), size, mode)
            ra, rb = step("allocate", desc, fa, fb, na, nb)
            if ra[0] == "ok":
                for n in ra[1][1]:
                    sh = Share(si, n, size, rng.randbytes(size), mode)
                    sh.a_secret = secret
                    sh.a_writer = hold["a"].get(n)
                    sh.b_writer = hold["b"][n]
                    sh.last = last_op_time[0]
                    shares[(si, n)] = sh
                if ra[1][0]:
                    ck.hit("allocate-reports-existing-shares")

        def open_shares():
            out = []
            for s in shares.values():
                if s.state != "open":
                    continue
                if getattr(s.b_writer, "closed", False):      # timed out in the meantime (on both, else the disk differs)
                    s.state = "gone"
                    ck.hit("upload-timeout-both")
                else:
                    out.append(s)
            return out

        def do_write(sh, off, data, tag):
            ln = len(data)
            desc = "write si%d/%d [%d,%d) %s%s via %s" % (imm_sis.index(sh.si), sh.n, off, off + ln, tag,
                                                        " len>64k" if ln > K64 else "", sh.mode)
            # independent model of this write
            if off + ln > sh.size:
                expect = "too-large"
            elif any(sh.mask[i] and sh.data[i] != data[i - off] for i in range(off, off + ln)):
                expect = "conflict"
            else:
                expect = "ok"

            def fa():
                if sh.mode == "client":
                    return A.imm.write_share_chunk(sh.si, sh.n, sh.a_secret, off, data)
                return sh.a_writer.callRemote("write", off, data)

            def na(v):
                if sh.mode == "client":
                    return (bool(v.finished), ranges_of(v.required))
                return "written"

            def fb():
                fin = sh.b_writer.write(off, data)
                req = ranges_of(sh.b_writer.required_ranges())
                if fin:
                    sh.b_writer.close()      # what the HTTP server does on completion / a Foolscap client after its last write
                return (bool(fin), req)

            def nb(v):
                return v if sh.mode == "client" else "written"
            ra, rb = step("write", desc, fa, fb, na, nb)
            sh.last = last_op_time[0]       # every write attempt that reaches the writer restarts its timeout
            if rb[0] == "ok":
                overl = any(sh.mask[off:off + ln])
                sh.mask[off:off + ln] = b"\x01" * ln
                sh.written.append((off, ln))
                if overl:
                    ck.hit("identical-overlap-accepted-both")
                if ln > K64:
                    ck.hit("chunk-loop-over-64k")
            elif rb[1] == "conflict":
                ck.hit("conflicting-write-rejected-both")
            elif rb[1] == "too-large":
                ck.hit("too-large-write-rejected-both")
            if (rb[0] == "ok") != (expect == "ok"):
                ck.observe("write-model-and-direct-disagree")      # C22's business; not judged here
            # completion detection against the written-mask model
            done = sh.complete()
            if rb[0] == "ok" and sh.mode == "client":
                ck.mon("finished-flag-vs-model")
                if ra[1][0] != done:
                    ck.violation("finished-flag-wrong", "%s: HTTP client reports finished=%r, written mask says %r"
                                 % (desc, ra[1][0], done), witness(desc, ra, rb, written=sh.written[-8:]))
                    raise Diverged()
                ck.mon("required-ranges-vs-model")
                if ra[1][1] != sh.holes():
                    ck.violation("required-ranges-wrong", "%s: HTTP client reports required=%r, holes are %r"
                                 % (desc, ra[1][1][:6], sh.holes()[:6]), witness(desc, ra, rb))
                    raise Diverged()
            if rb[0] == "ok" and sh.mode == "adapter":
                ck.mon("finished-flag-vs-model")
                st, _v = A.drive(sh.a_writer.callRemote("close"), max_steps=6)
                if (st == "ok") != done:
                    ck.violation("finished-flag-wrong", "%s: adapter's close() %s although the written mask says complete=%r"
                                 % (desc, "fired" if st == "ok" else "did not fire", done), witness(desc, ra, rb))
                    raise Diverged()
            if rb[0] == "ok" and done:
                sh.state = "done"
                if len(sh.written) > 2 and any(sh.written[i][0] > sh.written[i + 1][0] for i in range(len(sh.written) - 1)):
                    ck.hit("upload-completed-by-out-of-order-chunks")
                ck.hit("upload-completed")
            return ra, rb

        def op_large_directed():
            """Directed: PATCH bodies of several 64 KiB blocks that overlap data already written (the server walks
            such a body block by block, twice: conflict pre-check, then write)."""
            si = rng.randbytes(16)
            imm_sis.append(si)
            imm_size[si] = rng.choice([200003, 262144, 262145, 300000])
            size = imm_size[si]
            n = rng.randrange(5)
            op_alloc(si, {n}, rng.choice(["client", "client", "adapter"]))
            sh = shares.get((si, n))
            if sh is None or sh.state != "open":
                return
            a = rng.randint(1, 40000)
            L = rng.randint(2 * K64 + 1, min(size - a - 5000, 3 * K64 + 5000))      # 3 or 4 blocks
            do_write(sh, a, sh.data[a:a + L], "fresh")
            # (1) the very same body again (idempotent retry)
            ra, rb = do_write(sh, a, sh.data[a:a + L], "duplicate")
            if ra[0] == "ok" and rb[0] == "ok":
                ck.hit("large-duplicate-write")
            # (2) shifted so that it partly overlaps identical data: fresh head, then fresh tail
            b = rng.randint(0, a - 1)
            ra, rb = do_write(sh, b, sh.data[b:b + K64 + rng.randint(1, K64)], "overlap-identical")
            if ra[0] == "ok" and rb[0] == "ok":
                ck.hit("large-shifted-overlap-write")
            c = a + L - rng.randint(K64 + 1, 2 * K64)
            e = min(size, a + L + rng.randint(1, 3000))
            if e < size or rng.random() < 0.5:      # (keep the share open most of the time)
                e = min(e, size - 1)
            ra, rb = do_write(sh, c, sh.data[c:e], "overlap-identical")
            if ra[0] == "ok" and rb[0] == "ok":
                ck.hit("large-shifted-overlap-write")
            # (3) a body whose only conflicting byte lies in its 2nd or 3rd 64 KiB block
            if sh.state == "open":
                # (from 0: the first block holds bytes never written before, so a pre-check that misses the later
                #  conflict leaves them on disk; from b / a: everything before the conflict is identical data)
                start = rng.choice([0, 0, 0, b, a, a + rng.randint(1, 1000)])
                blk = rng.choice([1, 2])
                pos = start + blk * K64 + rng.randrange(K64)
                pos = min(pos, a + L - 1)
                if pos - start >= K64 and sh.mask[pos]:
                    end = min(size, max(pos + 1, start + (blk + 1) * K64 - rng.randrange(0, 3000)))
                    buf = bytearray(sh.data[start:end])
                    buf[pos - start] ^= 0x5a
                    ra, rb = do_write(sh, start, bytes(buf), "conflicting-in-block-%d" % (blk + 1))
                    if ra == ("err", "conflict") and rb == ("err", "conflict"):
                        ck.hit("large-write-conflict-in-later-block")
                    # the rejected body must have left nothing behind: an identical rewrite still agrees
                    do_write(sh, start, sh.data[start:end], "overlap-identical")

        def op_write():
            cands = open_shares()
            if not cands:
                return op_alloc()
            sh = rng.choice(cands)
            r = rng.random()
            holes = sh.holes()
            maxlen = sh.size if sh.size <= 1000 else rng.choice([100, 4096, K64 - 1, K64, K64 + 1, 100000])
            if r < 0.55 and holes:                      # fresh bytes: part of a hole (random chunking, any order)
                a, b = rng.choice(holes)
                off = rng.randint(a, b - 1) if rng.random() < 0.5 else a
                ln = rng.randint(1, min(b - off, maxlen))
                return do_write(sh, off, sh.data[off:off + ln], "fresh")
            if r < 0.70 and sh.written:                 # exact duplicate of an earlier chunk
                off, ln = rng.choice(sh.written)
                return do_write(sh, off, sh.data[off:off + ln], "duplicate")
            if r < 0.85:                                # overlapping identical data across written/unwritten parts
                off = rng.randrange(sh.size)
                ln = rng.randint(1, min(sh.size - off, maxlen))
                return do_write(sh, off, sh.data[off:off + ln], "overlap-identical")
            if r < 0.94 and any(sh.mask):               # conflicting: one written byte differs
                written = [i for i in range(sh.size) if sh.mask[i]]
                pos = rng.choice(written)
                off = max(0, pos - rng.randint(0, 20))
                ln = min(sh.size - off, (pos - off) + 1 + rng.randint(0, 20))
                if sh.size > K64 and rng.random() < 0.5:     # first 64 KiB fine, conflict later (server writes in 64 KiB pieces)
                    later = [i for i in written if i >= K64]
                    early_hole = [h for h in holes if h[0] == 0]
                    if later and early_hole:
                        pos = later[0]
                        off, ln = 0, min(sh.size, pos + 10)
                buf = bytearray(sh.data[off:off + ln])
                buf[pos - off] ^= 0x41
                return do_write(sh, off, bytes(buf), "conflicting")
            # beyond the allocated size (<= 64 KiB so that neither path writes anything first)
            ln = rng.randint(1, 40)
            off = rng.randint(max(0, sh.size - ln + 1), sh.size)
            return do_write(sh, off, rng.randbytes(ln), "beyond-end")

        def op_finish():
            cands = open_shares()
            if not cands:
                return op_alloc()
            sh = rng.choice(cands)
            order = sh.holes()
            rng.shuffle(order)
            for a, b in order:
                pieces = []
                i = a
                while i < b:
                    j = min(b, i + rng.choice([1, 7, 64, 1000, K64, K64 + 1, 10 ** 6]))
                    pieces.append((i, j))
                    i = j
                rng.shuffle(pieces)
                for i, j in pieces[:40]:
                    avoid_timeout_boundary()
                    if sh in open_shares():
                        do_write(sh, i, sh.data[i:j], "fresh")

        def op_abort():
            cands = open_shares()
            if not cands:
                return
            sh = rng.choice(cands)

            def fa():
                if sh.mode == "client":
                    return A.imm.abort_upload(sh.si, sh.n, sh.a_secret)
                return sh.a_writer.callRemote("abort")
            step("abort", "abort si%d/%d via %s" % (imm_sis.index(sh.si), sh.n, sh.mode), fa, sh.b_writer.abort)
            sh.state = "gone"
            ck.hit("abort-both")

        def pick_read_range(size):
            off = rng.choice([0, 0, 1, max(0, size - 1), size, size + 1, size // 2, rng.randint(0, size + 5),
                              K64 - 1, K64, K64 + 1, size + 1000])
            ln = rng.choice([1, 2, size, size + 1, max(1, size - off), max(1, size - off + 1), rng.randint(1, size + 10),
                             K64, K64 + 1, 2 ** 40])
            if size > K64 and rng.random() < 0.5:      # make the servers' 64 KiB producer loops turn more than once
                off = rng.choice([0, 1, K64 - 1, K64, size - K64 - 1])
                ln = rng.choice([size, K64 + 1, size - off, 2 * K64, 2 ** 40])
            if rng.random() < 0.04:
                ln = 0
            return off, ln

        def zero_len_known(ra, rb):
            if ra == ("err", "client-ValueError"):
                return "zero-length-read-fails-over-http"
            return None

        def op_read():
            done = [s for s in shares.values() if s.state == "done"]
            if done and rng.random() < 0.8:
                sh = rng.choice(done)
                si, n = sh.si, sh.n
            else:
                si = rng.choice(imm_sis)
                n = rng.randrange(5)
            size = imm_size[si]
            off, ln = pick_read_range(size)
            if ln == 0 and not ((si, n) in shares and shares[(si, n)].state == "done"):
                ln = 1          # zero-length read of a share that does not exist: left open, not generated
            via = rng.choice(["client", "adapter"])

            def fa():
                if via == "client":
                    return A.imm.read_share_chunk(si, n, off, ln)

                async def go():
                    rd = await ist.get_buckets(si)
                    if n not in rd:
                        raise ClientException(404)
                    return await rd[n].callRemote("read", off, ln)
                return go()

            def fb():
                return B.get_buckets(si)[n].read(off, ln)
            ra, rb = step("read", "read si%d/%d off=%d len=%d via %s" % (imm_sis.index(si), n, off, ln, via), fa, fb,
                          known=zero_len_known if ln == 0 else None, readonly=True)
            if rb[0] == "ok" and ra[0] == "ok":
                if off < size < off + ln:
                    ck.hit("read-past-end-short-both")
                if off >= size:
                    ck.hit("read-at-end-empty-both")
                if len(rb[1]) > K64:
                    ck.hit("read-loop-over-64k")
            else:
                ck.hit("not-found-both")

        def op_read_whole():
            done = [s for s in shares.values() if s.state == "done"]
            mutable = rng.random() < 0.3
            if mutable:
                si, n = rng.choice(mut_sis), rng.randrange(4)
                path = "/storage/v1/mutable/%s/%d" % (b32si(si), n)
            elif done:
                sh = rng.choice(done)
                si, n = sh.si, sh.n
                path = "/storage/v1/immutable/%s/%d" % (b32si(si), n)
            else:
                return

            def fa():
                async def go():
                    r = A.raw("GET", path, GOODAUTH)      # synchronous inside: drives itself
                    if r.status != "ok":
                        raise RuntimeError("no response")
                    if r.code != 200:
                        raise ClientException(r.code)
                    return r.body
                return go()

            def fb():
                if mutable:
                    return B.slot_readv(si, [n], [(0, 2 ** 40)])[n][0]
                return B.get_buckets(si)[n].read(0, 2 ** 40)
            ra, rb = step("read-whole", "GET whole %s share %d (no Range header)" % ("mutable" if mutable else "immutable", n),
                          fa, fb)
            if rb[0] == "ok":
                ck.hit("whole-share-get")

        def op_list():
            si = rng.choice(imm_sis + [rng.randbytes(16)])
            via = rng.choice(["client", "adapter"])

            def fa():
                if via == "client":
                    return A.imm.list_shares(si)
                return ist.get_buckets(si)
            step("list", "list immutable shares via %s" % via, fa, lambda: B.get_buckets(si),
                 lambda v: sorted(v), lambda v: sorted(v))

        def op_lease():
            r = rng.random()
            si = rng.choice(imm_sis) if r < 0.5 else rng.choice(mut_sis) if r < 0.9 else rng.randbytes(16)
            renew, cancel = rng.choice(leases) if rng.random() < 0.7 else (rng.randbytes(32), rng.randbytes(32))
            before = disk_state(B.storedir)[0]
            step("add-lease", "add_lease %s" % ("imm" if si in imm_sis else "mut" if si in mut_sis else "unknown"),
                 lambda: ist.add_lease(si, renew, cancel), lambda: B.add_lease(si, renew, cancel))
            after = disk_state(B.storedir)[0]
            if before != after and {k: len(v or b"") for k, v in before.items()} == {k: len(v or b"") for k, v in after.items()}:
                ck.hit("lease-renewed-both")
            elif before != after:
                ck.hit("lease-added-both")

        def op_advise(final=False):
            mutable = rng.random() < 0.5
            si = rng.choice(mut_sis if mutable else imm_sis)
            n = rng.randrange(5)
            if rng.random() < 0.75:          # mostly shares that exist, so that an advisory is really written
                if mutable:
                    have = [(m, k) for m in mut_sis for k in B.enumerate_mutable_shares(m)]
                else:
                    have = [(x.si, x.n) for x in shares.values() if x.state == "done"]
                if have:
                    si, n = rng.choice(have)
            reason = rng.choice([b"hash mismatch in block 3", "Prüfsumme falsch ☃".encode("utf-8"),
                                 "блок 7: неверный хеш".encode("utf-8"), b"x" * 5000, b"line1\nline2", b"a"])
            known = None
            if final:
                kind = rng.choice(["empty", "non-utf8"])
                reason = b"" if kind == "empty" else b"bad \xff\xfe bytes"

                def known(ra, rb, kind=kind):
                    if kind == "empty" and ra == ("err", "bad-request") and rb[0] == "ok":
                        return "empty-corruption-reason-rejected-over-http"
                    if kind == "non-utf8" and ra[0] == "ok" and rb == ("err", "direct-UnicodeDecodeError"):
                        return "non-utf8-corruption-reason-fails-direct-only"
                    return None
            typ = b"mutable" if mutable else b"immutable"
            nadv = len(disk_state(B.storedir)[1])
            step("advise", "advise_corrupt_share %s share %d reason=%d bytes" % (typ.decode(), n, len(reason)),
                 lambda: ist.advise_corrupt_share(typ, si, n, reason),
                 lambda: B.advise_corrupt_share(typ, si, n, reason), known=known)
            if len(disk_state(B.storedir)[1]) > nadv:
                ck.hit("advisory-written-both:" + ("non-ascii" if any(c > 127 for c in reason) else "ascii")
                       + (":mutable" if mutable else ":immutable"))

        def mut_current(si):
            return {n: v[0] for n, v in B.slot_readv(si, [], [(0, 2 ** 30)]).items()}

        def op_rtw():
            si = rng.choice(mut_sis)
            cur = mut_current(si)
            wrong_we = bool(cur) and rng.random() < 0.1
            we = rng.randbytes(32) if wrong_we else mut_we[si]
            renew, cancel = rng.choice(leases)
            big = rng.random() < 0.05
            twv_a, twv_b = {}, {}
            testv_ok = True
            test_kinds = set()
            all_should_pass = rng.random() < 0.5
            deletes = False
            via = rng.choice(["adapter", "client"])
            for n in rng.sample(range(4), rng.randint(0, 4)):
                data = cur.get(n, b"")
                testv = []
                for _ in range(rng.choice([0, 0, 1, 1, 2])):
                    kind = rng.choice(["exact", "exact", "exact", "must-be-new", "must-be-new", "short-prefix", "short-prefix",
                                       "clipped-tail", "long-specimen"])
                    if all_should_pass:      # every test of this request holds: one mis-marshalled vector flips the result
                        kind = rng.choice(["exact", "exact", "clipped-tail"] + ([] if data else ["must-be-new"]))
                    if kind == "exact":
                        off = rng.randint(0, len(data) + 3)
                        ln = rng.choice([0, 1, 2, 3, 5, 8, 12])
                        spec = data[off:off + ln]
                        if rng.random() < 0.2 and not all_should_pass:
                            spec = spec[:-1] + b"!" if spec else b"?"
                    elif kind == "must-be-new":          # what mutable/layout.py sends for a share it believes new
                        off, ln, spec = 0, 1, b""
                        test_kinds.add("must-be-new-on-" + ("existing" if data else "absent"))
                    elif kind == "short-prefix":         # size N, specimen = a shorter (correct / incorrect) prefix
                        ln = rng.randint(2, 12)
                        off = rng.randint(0, max(0, len(data) - ln))
                        k = rng.randint(0, ln - 1)
                        spec = data[off:off + k]
                        if spec and rng.random() < 0.3:
                            spec = spec[:-1] + bytes([spec[-1] ^ 1])
                        if len(data[off:off + ln]) > len(spec):
                            test_kinds.add("size-exceeds-specimen")
                    elif kind == "clipped-tail":         # span reaches past the end; specimen = the correctly clipped tail
                        off = max(0, len(data) - rng.randint(0, 6))
                        ln = len(data) - off + rng.randint(1, 20)
                        spec = data[off:]
                        test_kinds.add("clipped-tail")
                    else:                                # size < len(specimen): right bytes followed by more
                        ln = rng.randint(0, 8)
                        off = rng.randint(0, max(0, len(data) - ln))
                        spec = data[off:off + ln] + rng.randbytes(rng.randint(1, 4))
                        test_kinds.add("size-below-specimen")
                    testv_ok = testv_ok and (data[off:off + ln] == spec)
                    testv.append((off, ln, spec))
                datav = []
                for _ in range(rng.choice([0, 1, 1, 2, 3])):
                    off = rng.choice([0, len(data), rng.randint(0, len(data) + 30)])
                    w = rng.randbytes(70000 if big else rng.choice([0, 1, 5, 40, 200]))
                    datav.append((off, w))
                nl = rng.choice([None, None, None, None, 0, rng.randint(0, len(data) + 1), max(1, len(data) - rng.randint(1, 30)),
                                 len(data) + rng.randint(1, 50)])      # (shrinking leaves a container larger than the data)
                if nl == 0:
                    deletes = True
                twv_a[n] = (testv, datav, nl)
                twv_b[n] = ([(o, l, b"eq", s) for o, l, s in testv], datav, nl)
            readv = [(rng.randint(0, 50), rng.choice([0, 1, 10, 1000])) for _ in range(rng.randint(0, 3))]

            def norm(v):
                return (bool(v[0]), {int(k): [bytes(x) for x in vs] for k, vs in v[1].items()})
            def fa():
                if via == "adapter":
                    return ist.slot_testv_and_readv_and_writev(si, (we, renew, cancel), twv_a, readv)
                from allmydata.storage.http_client import TestVector, WriteVector, ReadVector, TestWriteVectors

                async def go():
                    r = await A.mut.read_test_write_chunks(
                        si, we, renew, cancel,
                        {n: TestWriteVectors(test_vectors=[TestVector(offset=o, size=l, specimen=sp) for o, l, sp in tv],
                                             write_vectors=[WriteVector(offset=o, data=d) for o, d in dv],
                                             new_length=nl)
                         for n, (tv, dv, nl) in twv_a.items()},
                        [ReadVector(offset=o, size=l) for o, l in readv])
                    return (r.success, r.reads)
                return go()
            ra, rb = step("rtw", "read-test-write via %s shares=%s tests=%s new_length=%s wrong_we=%s readv=%s"
                          % (via, sorted(twv_a), [[(o, l, len(sp)) for o, l, sp in twv_a[n][0]] for n in sorted(twv_a)],
                             [twv_a[n][2] for n in sorted(twv_a)], wrong_we, readv),
                          fa,
                          lambda: B.slot_testv_and_readv_and_writev(si, (we, renew, cancel), twv_b, readv),
                          norm, norm)
            if rb[0] == "ok" and rb[1][0] != testv_ok:
                ck.observe("rtw-eq-test-model-and-direct-disagree")      # C24's business; not judged here
            if rb[0] == "ok":
                ck.hit("rtw-via-" + via)
                for k in test_kinds:
                    ck.hit("rtw-test-%s-%s-both" % (k, "passed" if rb[1][0] else "refused"))
            if rb[0] == "err" and rb[1] == "bad-secret":
                ck.hit("rtw-wrong-enabler-rejected-both")
            elif rb[0] == "ok":
                if not rb[1][0]:
                    ck.hit("rtw-testv-failed-both")
                else:
                    ck.hit("rtw-written-both")
                    if deletes and len(mut_current(si)) < len(cur):
                        ck.hit("rtw-share-deleted-both")

        def op_readv():
            si = rng.choice(mut_sis + [rng.randbytes(16)])
            cur = mut_current(si) if si in mut_sis else {}
            r = rng.random()
            missing = False
            missing_before_existing = False
            if r < 0.35:
                which = []
            elif r < 0.75 or not cur:
                which = sorted(rng.sample(sorted(cur), rng.randint(1, len(cur)))) if cur else []
            else:       # present and absent share numbers in any order (a missing one before / between / after existing ones)
                present = rng.sample(sorted(cur), rng.randint(1, len(cur)))
                gone = rng.sample([n for n in range(0, 9) if n not in cur], rng.randint(1, 2))
                which = present + gone
                rng.shuffle(which)
                missing = True
                first_gone = min(which.index(g) for g in gone)
                if any(which.index(p) > first_gone for p in present):
                    missing_before_existing = True
            readv = []
            for _ in range(rng.randint(1, 3)):
                L = len(next(iter(cur.values()))) if cur else 10
                off, ln = pick_read_range(L)
                readv.append((off, ln))
            if missing:      # zero-length read of a share that does not exist: left open, not generated
                readv = [(o, l or 1) for o, l in readv]
            zero = any(l == 0 for _o, l in readv)

            def known(ra, rb):
                if missing and ra == ("err", "not-found") and rb[0] == "ok":
                    return "slot-readv-of-missing-share-fails-over-http"
                if zero and ra == ("err", "client-ValueError"):
                    return "zero-length-read-fails-over-http"
                return None

            def norm(v):
                return {int(k): [bytes(x) for x in vs] for k, vs in v.items()}
            ra, rb = step("readv", "slot_readv shares=%s readv=%s" % (which, readv),
                          lambda: ist.slot_readv(si, which, readv), lambda: B.slot_readv(si, which, readv), norm, norm,
                          known=known if (missing or zero) else None, readonly=True)
            if ra[0] == "ok" and rb[0] == "ok" and ra[1] == rb[1]:
                if missing:
                    ck.hit("slot-readv-with-missing-shares-both")
                if missing_before_existing:
                    ck.hit("slot-readv-missing-before-existing-both")

        def op_mut_chunk():
            si = rng.choice(mut_sis)
            cur = mut_current(si)
            n = rng.choice(sorted(cur)) if (cur and rng.random() < 0.8) else rng.randrange(5)
            off, ln = pick_read_range(len(cur.get(n, b"0123456789")))
            if ln == 0:
                ln = 1
            ra, rb = step("mutable-chunk", "mutable read_share_chunk share %d off=%d len=%d" % (n, off, ln),
                          lambda: A.mut.read_share_chunk(si, n, off, ln),
                          lambda: B.slot_readv(si, [n], [(off, ln)])[n][0])
            if rb[0] == "err":
                ck.hit("not-found-both")

        def op_mut_list():
            si = rng.choice(mut_sis + [rng.randbytes(16)])
            step("mutable-list", "list mutable shares", lambda: A.mut.list_shares(si),
                 lambda: B.enumerate_mutable_shares(si), lambda v: sorted(v), lambda v: sorted(v))

        def op_version():
            def norm(v):
                v1 = v[b"http://allmydata.org/tahoe/protocols/storage/v1"]
                return (sorted(v1), v1[b"maximum-mutable-share-size"], v[b"application-version"],
                        sorted(k for k in v1 if v1[k] is True))
            step("version", "get_version", lambda: ist.get_version(), lambda: B.get_version(), norm, norm)

        def op_time():
            dt = rng.choice([1, 30, 100, 3600, 86400, 86400 * 20, 1700, 1795, 1805, 1900])
            had_open = [s for s in open_shares()]
            tick_to(0.1)
            env.reactor.advance(dt)
            tick_to(0.5)
            A.settle(2)
            oplog.append("advance %ds" % dt)
            compare_state("time", "advance %ds" % dt)
            open_shares()
            ck.case("time", key=(ci, len(oplog), dt), nontrivial=bool(had_open))

        OPS = [(op_alloc, 10), (op_write, 26), (op_finish, 6), (op_abort, 3), (op_read, 14), (op_read_whole, 4),
               (op_list, 4), (op_lease, 7), (op_advise, 4), (op_rtw, 14), (op_readv, 8), (op_mut_chunk, 7),
               (op_mut_list, 4), (op_time, 5), (op_version, 1)]
        fns = [f for f, _w in OPS]
        wts = [w for _f, w in OPS]
        nops = rng.randint(40, 70)
        if big_case:
            wts[fns.index(op_finish)] = 14
        try:
            op_alloc()
            if ci % 5 == 2 or (ck.tier == "thorough" and ci % 5 == 4):
                op_large_directed()
            for _ in range(nops):
                if ck.out_of_time():
                    break
                avoid_timeout_boundary()
                rng.choices(fns, wts)[0]()
            if rng.random() < 0.35:
                op_advise(final=True)      # divergence classes that change the disk: last op of a case only
        except Diverged:
            ck.observe("case-ended-at-first-divergence")
    finally:
        A.close()
        shutil.rmtree(tmpb, ignore_errors=True)


# MUST_CATCH (selftest/breaks_c31.py, 32 planted breaks + seeded/C31-1..6, C24-3, C24-6, all caught):
#   adapter slot_readv stops collecting at the first missing share number (= seeded/C31-6) -- permuted
#     present/absent share lists
#   read-test-write test vectors: size taken from len(specimen) on the server (= seeded/C24-3: the 'share must be
#     new' test (0, 1, b"") matches any existing share) or in the adapter -- size > / < len(specimen) families
#   multi-block PATCH pre-check: running offset lost (= seeded/C31-1, identical re-send > 64 KiB gets 409); only the
#     first block pre-checked (conflict in a later block partially applied) -- directed large-write family
#   range reads: client Range header +1 / -1; server read past end -> 416; read at end -> 416; _ReadRangeProducer
#     not advancing (reads > 64 KiB); _ReadAllProducer stopping after 64 KiB
#   chunked writes: server Content-Range start +1; server drops last byte; client Content-Range stop -1; server
#     write loop offset not advanced (> 64 KiB); allocated-size +1
#   completion: server closes when the last byte (not every byte) is written; client finished never / guessed;
#     required ranges omit the first hole
#   listing: immutable list drops lowest share; mutable list drops highest
#   leases / advisories: renew and cancel secret swapped; advisory reason ASCII-only
#   read-test-write: new-length dropped (server) / 0 -> None (client); test-vector size ignored; only first write
#     vector; read-vector size +1; adapter always reports success; adapter slot_readv first vector only;
#     mutable range read length capped
# Findings on the originally pinned tree (all fixed in /repo since), keys:
#   zero-length-read-fails-over-http, slot-readv-of-missing-share-fails-over-http,
#   empty-corruption-reason-rejected-over-http, non-utf8-corruption-reason-fails-direct-only,
#   rejected-large-write-partially-applied-over-http
