"""C37 Spans / DataSpans behave exactly like a set of ints / a partial map offset->byte."""
META = {
    "level": 'exploration',
    "technique": 'step-by-step differential of the real Spans and DataSpans against a Python set / dict model over seeded, boundary-biased operation histories, with structural invariants checked on the public iteration after every operation',
    "text": 'Executes the real allmydata.util.spans.Spans and DataSpans under seeded histories of up to 200 mixed operations (add, remove, +, -, +=, -=, &, in, len, bool, iter, each, dump, constructors; DataSpans add/remove/get/pop/len/bool/dump/get_chunks/get_spans/copy) over offsets 0..300 (operands biased to existing span boundaries +-1) and around 2^40; after every operation the full abstract state (set of ints / dict offset->byte, later writes win), every return value, and the structure of the exposed span list (sorted, disjoint, adjacent spans merged, no empty span) are compared with the model. Violating histories are shrunk greedily to a minimal witness. Sampled, not exhaustive.',
    "note": 'Trusts the 40-line set/dict model in this module. Zero-length and negative arguments are forbidden by the API (assert) and are counted as dont_care, not judged.',
}
LEVEL = "exploration"
BUDGET = {"quick": 40, "thorough": 240}
SHARDS = {"quick": 1, "thorough": 8}

from vf import env  # noqa  MUST be first

BIG = 1 << 40


# ------------------------------------------------------------------ model helpers
def runs_of(ints):
    """sorted ints -> canonical [(start, length)] maximal runs"""
    out = []
    for x in sorted(ints):
        if out and out[-1][0] + out[-1][1] == x:
            out[-1][1] += 1
        else:
            out.append([x, 1])
    return [(a, b) for a, b in out]


def span_set(spanlist):
    s = set()
    for (a, l) in spanlist:
        s.update(range(a, a + l))
    return s


def structure_problem(pairs):
    """pairs: [(start, length)] as exposed by the object.  Returns kind or None."""
    prev_end = None
    prev_start = None
    for (a, l) in pairs:
        if l <= 0:
            return "empty-span"
        if prev_start is not None and a < prev_start:
            return "unsorted"
        if prev_end is not None:
            if a < prev_end:
                return "overlapping"
            if a == prev_end:
                return "adjacent-unmerged"
        prev_start, prev_end = a, a + l
    return None


class Bad(Exception):
    def __init__(self, key, what):
        Exception.__init__(self, key, what)
        self.key, self.what = key, what


# ------------------------------------------------------------------ Spans history runner
def check_spans_state(S, model, op, counters):
    counters["spans-state"] += 1
    try:
        pairs = list(S)
    except Exception as e:
        raise Bad("spans-iter-raises", "iter() raised %s: %s" % (type(e).__name__, e))
    pairs = [tuple(p) for p in pairs]
    sp = structure_problem(pairs)
    if sp:
        raise Bad("spans-structure-%s" % sp,
                  "after %s the exposed span list %r is %s" % (op, pairs[:12], sp))
    got = span_set(pairs) if sum(l for _, l in pairs) < 200000 else None
    if got is None or got != model:
        diff = sorted((got or set()) ^ model)[:8]
        raise Bad("spans-%s-mismatch" % op,
                  "after %s Spans holds %r, model %r (differs at %r)" % (op, pairs[:12], runs_of(model)[:12], diff))
    if S.len() != len(model):
        raise Bad("spans-len-mismatch", "len() %r != %d" % (S.len(), len(model)))
    if bool(S) != bool(model):
        raise Bad("spans-bool-mismatch", "bool() %r != %r" % (bool(S), bool(model)))


def run_spans_history(ops, spansmod, counters, full_every=1):
    """Replay `ops` on a fresh real Spans and a set model.  Raises Bad at the first divergence.
    op formats: ('new', spanlist) ('new1', start, length) ('add', s, l) ('remove', s, l)
    ('plus'|'minus'|'and'|'iadd'|'isub', spanlist) ('in', s, l) ('each',) ('dump',) ('copy',)"""
    Spans = spansmod.Spans
    S = Spans()
    M = set()
    for n, op in enumerate(ops):
        name = op[0]
        try:
            if name == "new":
                S = Spans(list(op[1]))
                M = span_set(op[1])
            elif name == "new1":
                S = Spans(op[1], op[2])
                M = set(range(op[1], op[1] + op[2]))
            elif name == "add":
                r = S.add(op[1], op[2])
                M |= set(range(op[1], op[1] + op[2]))
                if r is not S:
                    raise Bad("spans-add-return", "add() must return self")
            elif name == "remove":
                r = S.remove(op[1], op[2])
                M -= set(range(op[1], op[1] + op[2]))
                if r is not S:
                    raise Bad("spans-remove-return", "remove() must return self")
            elif name in ("plus", "minus", "and"):
                O = Spans(list(op[1]))
                OM = span_set(op[1])
                R = {"plus": lambda: S + O, "minus": lambda: S - O, "and": lambda: S & O}[name]()
                RM = {"plus": M | OM, "minus": M - OM, "and": M & OM}[name]
                # operands untouched
                check_spans_state(O, OM, name + "-operand", counters)
                check_spans_state(S, M, name + "-operand", counters)
                if R is S and name != "and":
                    raise Bad("spans-%s-aliases-operand" % name, "binary %s returned its left operand" % name)
                S, M = R, RM       # continue the history on the result
            elif name in ("iadd", "isub"):
                O = Spans(list(op[1]))
                OM = span_set(op[1])
                if name == "iadd":
                    S += O
                    M = M | OM
                else:
                    S -= O
                    M = M - OM
                check_spans_state(O, OM, name + "-operand", counters)
            elif name == "in":
                want = all(x in M for x in range(op[1], op[1] + op[2]))
                got = (op[1], op[2]) in S
                counters["spans-in"] += 1
                counters["spans-in-true" if want else "spans-in-false"] += 1
                if bool(got) != want:
                    raise Bad("spans-contains-mismatch",
                              "(%d,%d) in Spans%r -> %r, model %r" % (op[1], op[2], list(S)[:12], got, want))
            elif name == "each":
                got = list(S.each())
                if got != sorted(M):
                    raise Bad("spans-each-mismatch", "each() yields %r.. model %r.." % (got[:10], sorted(M)[:10]))
            elif name == "dump":
                want = "len=%d: %s" % (len(M), ",".join("[%d-%d]" % (a, a + l - 1) for a, l in runs_of(M)))
                got = S.dump()
                if got != want:
                    raise Bad("spans-dump-mismatch", "dump() %r != %r" % (got, want))
            elif name == "copy":
                S2 = Spans(S)
                check_spans_state(S2, M, "copy", counters)
                if S2 is S:
                    raise Bad("spans-copy-aliases", "Spans(other) returned the same object")
                probe = (max(M) + 5) if M else 3
                S2.add(probe, 2)                       # must not write through to S
                check_spans_state(S, M, "copy-source", counters)
                if not (n % 2):
                    S = S2
                    M = M | {probe, probe + 1}
            else:
                raise RuntimeError("unknown op %r" % (op,))
        except Bad:
            raise
        except Exception as e:
            raise Bad("spans-%s-raises" % name, "%s raised %s: %s" % (op if len(repr(op)) < 120 else name, type(e).__name__, e))
        if n % full_every == 0 or n == len(ops) - 1:
            check_spans_state(S, M, name, counters)
    return S, M


# ------------------------------------------------------------------ DataSpans history runner
def check_ds_state(D, model, op, counters):
    counters["dataspans-state"] += 1
    try:
        chunks = list(D.get_chunks())
    except Exception as e:
        raise Bad("dataspans-get_chunks-raises", "%s: %s" % (type(e).__name__, e))
    pairs = [(a, len(d)) for a, d in chunks]
    sp = structure_problem(pairs)
    if sp:
        raise Bad("dataspans-structure-%s" % sp,
                  "after %s the chunk list %r is %s" % (op, [(a, bytes(d)) for a, d in chunks][:10], sp))
    got = {}
    for a, d in chunks:
        if not isinstance(d, (bytes, bytearray)):
            raise Bad("dataspans-chunk-type", "chunk data is %s" % type(d).__name__)
        for j in range(len(d)):
            got[a + j] = d[j]
    if got != model:
        ks = sorted(set(got) | set(model))
        diff = [(k, got.get(k), model.get(k)) for k in ks if got.get(k) != model.get(k)][:6]
        raise Bad("dataspans-%s-mismatch" % op,
                  "after %s contents differ from the model at (offset, got, want) %r; chunks %r"
                  % (op, diff, [(a, bytes(d)) for a, d in chunks][:8]))
    if D.len() != len(model):
        raise Bad("dataspans-len-mismatch", "len() %r != %d" % (D.len(), len(model)))
    if bool(D) != bool(model):
        raise Bad("dataspans-bool-mismatch", "bool() %r != %r" % (bool(D), bool(model)))


def model_get(M, start, length):
    try:
        return bytes(M[i] for i in range(start, start + length))
    except KeyError:
        return None


def run_ds_history(ops, spansmod, counters, full_every=1):
    """ops: ('add', start, bytes) ('remove', s, l) ('get', s, l) ('pop', s, l) ('get_spans',)
    ('dump',) ('copy',) ('_dump',) ('invariants',)"""
    DataSpans = spansmod.DataSpans
    D = DataSpans()
    M = {}
    for n, op in enumerate(ops):
        name = op[0]
        try:
            if name == "add":
                D.add(op[1], op[2])
                for j, b in enumerate(op[2]):
                    M[op[1] + j] = b
            elif name == "remove":
                D.remove(op[1], op[2])
                for i in range(op[1], op[1] + op[2]):
                    M.pop(i, None)
            elif name in ("get", "pop"):
                want = model_get(M, op[1], op[2])
                got = D.get(op[1], op[2]) if name == "get" else D.pop(op[1], op[2])
                counters["dataspans-" + name] += 1
                counters["dataspans-%s-%s" % (name, "hit" if want is not None else "miss")] += 1
                if (got is None) != (want is None) or (got is not None and bytes(got) != want):
                    raise Bad("dataspans-%s-wrong-bytes" % name,
                              "%s(%d,%d) -> %r, model %r; chunks %r" % (name, op[1], op[2], got, want,
                                                                        [(a, bytes(d)) for a, d in D.get_chunks()][:8]))
                if name == "pop" and want is not None:
                    for i in range(op[1], op[1] + op[2]):
                        del M[i]
            elif name == "get_spans":
                sp = D.get_spans()
                if not isinstance(sp, spansmod.Spans):
                    raise Bad("dataspans-get_spans-type", "get_spans() returned %s" % type(sp).__name__)
                check_spans_state(sp, set(M), "get_spans", counters)
            elif name == "dump":
                want = "len=%d: %s" % (len(M), ",".join("[%d-%d]" % (a, a + l - 1) for a, l in runs_of(M)))
                got = D.dump()
                if got != want:
                    raise Bad("dataspans-dump-mismatch", "dump() %r != %r" % (got, want))
            elif name == "_dump":
                got = list(D._dump())
                if got != sorted(M):
                    raise Bad("dataspans-_dump-mismatch", "_dump() %r.. != %r.." % (got[:10], sorted(M)[:10]))
            elif name == "invariants":
                D.assert_invariants()
            elif name == "copy":
                D2 = DataSpans(D)
                check_ds_state(D2, M, "copy", counters)
                probe = (max(M) + 7) if M else 2
                D2.add(probe, b"\xee")          # must not write through to D
                check_ds_state(D, M, "copy-source", counters)
                if n % 2:
                    D = D2
                    M = dict(M)
                    M[probe] = 0xee
            else:
                raise RuntimeError("unknown op %r" % (op,))
        except Bad:
            raise
        except Exception as e:
            raise Bad("dataspans-%s-raises" % name, "%r raised %s: %s" % (op, type(e).__name__, e))
        if n % full_every == 0 or n == len(ops) - 1:
            check_ds_state(D, M, name, counters)
    return D, M


# ------------------------------------------------------------------ generators
def _boundaries(pairs):
    out = []
    for a, l in pairs:
        out.extend((a, a + l))
    return out


def gen_range(rng, pairs, lo, hi, maxlen):
    """(start, length>=1) biased to boundaries of existing spans +-1/+-2."""
    b = _boundaries(pairs)
    r = rng.random()
    if b and r < 0.55:
        start = rng.choice(b) + rng.choice((-2, -1, -1, 0, 0, 0, 1, 1, 2))
        if rng.random() < 0.5 and len(b) > 1:
            end = rng.choice(b) + rng.choice((-1, 0, 0, 1))
            if end > start:
                return max(lo, start), max(1, end - max(lo, start))
        return max(lo, start), rng.choice((1, 1, 2, 3, rng.randint(1, maxlen)))
    if r < 0.65:
        return lo + rng.choice((0, 1)), rng.choice((1, 2, hi - lo, hi - lo + 1))
    start = rng.randint(lo, hi)
    return start, rng.choice((1, 1, 2, rng.randint(1, maxlen), rng.randint(1, 12)))


def gen_spanlist(rng, pairs, lo, hi, maxlen):
    n = rng.choice((0, 1, 1, 2, 3, 5, 8))
    return [gen_range(rng, pairs, lo, hi, maxlen) for _ in range(n)]


def gen_spans_ops(rng, length, big):
    """Generate ops while tracking a shadow model so that operands can be boundary-biased."""
    ops = []
    M = set()
    lo, hi = (BIG - 150, BIG + 150) if big else (0, 300)
    maxlen = 60
    weights = [("add", 30), ("remove", 22), ("plus", 6), ("minus", 7), ("and", 9), ("iadd", 4), ("isub", 4),
               ("in", 14), ("each", 2), ("dump", 2), ("copy", 2), ("new", 1), ("new1", 1)]
    names = [w[0] for w in weights]
    ws = [w[1] for w in weights]
    for n in range(length):
        pairs = runs_of(M)
        name = rng.choices(names, ws)[0]
        if name in ("add", "remove", "in", "new1"):
            s, l = gen_range(rng, pairs, lo, hi, maxlen)
            op = (name, s, l)
            if name == "add":
                M |= set(range(s, s + l))
            elif name == "remove":
                M -= set(range(s, s + l))
            elif name == "new1":
                M = set(range(s, s + l))
        elif name in ("plus", "minus", "and", "iadd", "isub", "new"):
            sl = gen_spanlist(rng, pairs, lo, hi, maxlen)
            if name == "and" and rng.random() < 0.3 and pairs:
                # an operand sharing exact boundaries with self
                sl = [(a + rng.choice((0, 0, 1)), max(1, l - rng.choice((0, 0, 1, 2)))) for a, l in rng.sample(pairs, min(len(pairs), 3))]
            op = (name, tuple(sl))
            OM = span_set(sl)
            if name in ("plus", "iadd"):
                M = M | OM
            elif name in ("minus", "isub"):
                M = M - OM
            elif name == "and":
                M = M & OM
            else:
                M = OM
        else:
            op = (name,)
            if name == "copy":
                probe = (max(M) + 5) if M else 3
                if not (n % 2):
                    M = M | {probe, probe + 1}
        ops.append(op)
    return ops


def gen_ds_ops(rng, length, big):
    ops = []
    M = {}
    lo, hi = (BIG - 150, BIG + 150) if big else (0, 300)
    weights = [("add", 34), ("remove", 18), ("get", 18), ("pop", 14), ("get_spans", 4), ("dump", 2),
               ("_dump", 2), ("copy", 3), ("invariants", 2)]
    names = [w[0] for w in weights]
    ws = [w[1] for w in weights]
    for n in range(length):
        pairs = runs_of(M)
        name = rng.choices(names, ws)[0]
        if name == "add":
            s, l = gen_range(rng, pairs, lo, hi, 40)
            data = bytes(rng.randrange(256) for _ in range(l))
            op = (name, s, data)
            for j, b in enumerate(data):
                M[s + j] = b
        elif name in ("remove", "get", "pop"):
            if name != "remove" and pairs and rng.random() < 0.5:
                # a range inside (or exactly) one existing chunk: the "hit" paths
                a, l = rng.choice(pairs)
                x = rng.randint(a, a + l - 1)
                y = rng.randint(x + 1, a + l)
                if rng.random() < 0.3:
                    x, y = a, a + l
                s, l = x, y - x
            else:
                s, l = gen_range(rng, pairs, lo, hi, 40)
            op = (name, s, l)
            if name == "remove" or (name == "pop" and all(i in M for i in range(s, s + l))):
                for i in range(s, s + l):
                    M.pop(i, None)
        else:
            op = (name,)
            if name == "copy" and n % 2:
                M[(max(M) + 7) if M else 2] = 0xee
        ops.append(op)
    return ops


# ------------------------------------------------------------------ shrinking
def first_bad(runner, ops, spansmod):
    import collections
    try:
        runner(ops, spansmod, collections.Counter())
    except Bad as b:
        return b
    return None


def shrink(runner, ops, spansmod, key, budget=4000):
    """Greedy one-at-a-time deletion + operand simplification keeping the same violation key."""
    ops = list(ops)
    # cut after the failing op first
    for cut in range(1, len(ops) + 1):
        b = first_bad(runner, ops[:cut], spansmod)
        budget -= 1
        if b is not None and b.key == key:
            ops = ops[:cut]
            break
    changed = True
    while changed and budget > 0:
        changed = False
        i = len(ops) - 1
        while i >= 0 and budget > 0:
            cand = ops[:i] + ops[i + 1:]
            budget -= 1
            b = first_bad(runner, cand, spansmod)
            if b is not None and b.key == key:
                ops = cand
                changed = True
            i -= 1
    return ops


# ------------------------------------------------------------------ run
def run(ck):
    import collections
    from allmydata.util import spans as spansmod
    ck.rule = ("a case is one seeded history of 20..200 operations replayed on fresh real Spans / DataSpans objects next to "
               "a set / dict model; operands are drawn from 0..300 (or 2^40+-150) with a bias to existing span boundaries "
               "+-1; distinct = distinct operation list; non-trivial = history contains at least 5 mutating operations. "
               "Plus fixed directed micro-histories (adjacent merge, bridge, split, exact removal, boundary intersection) "
               "and pure-function tables for overlap()/adjacent().")
    counters = collections.Counter()

    def report(kind, runner, ops, b):
        small = shrink(runner, ops, spansmod, b.key)
        b2 = first_bad(runner, small, spansmod) or b
        ck.violation(b2.key, b2.what, {"class": kind, "minimal_history": [list(o) for o in small],
                                       "original_length": len(ops)})

    def one(kind, runner, ops, nontrivial=True):
        try:
            runner(ops, spansmod, counters)
        except Bad as b:
            report(kind, runner, ops, b)
        ck.mon("differential-step", len(ops))
        ck.case(kind, key=repr(ops), nontrivial=nontrivial,
                sample={"ops": [list(o) for o in ops[:6]], "length": len(ops)})

    # ---- pure helpers overlap()/adjacent(): complete table on a small grid
    for s0 in range(0, 7):
        for l0 in range(1, 5):
            for s1 in range(0, 7):
                for l1 in range(1, 5):
                    a = set(range(s0, s0 + l0)); b = set(range(s1, s1 + l1))
                    inter = sorted(a & b)
                    want = (inter[0], len(inter)) if inter else None
                    got = spansmod.overlap(s0, l0, s1, l1)
                    ck.mon("overlap-table")
                    if (got is None) != (want is None) or (got is not None and tuple(got) != want):
                        ck.violation("overlap-helper-mismatch", "overlap(%d,%d,%d,%d) -> %r, want %r" % (s0, l0, s1, l1, got, want),
                                     {"args": [s0, l0, s1, l1]})
                    wadj = (s0 + l0 == s1) or (s1 + l1 == s0)
                    if bool(spansmod.adjacent(s0, l0, s1, l1)) != wadj:
                        ck.violation("adjacent-helper-mismatch", "adjacent(%d,%d,%d,%d) -> %r, want %r"
                                     % (s0, l0, s1, l1, spansmod.adjacent(s0, l0, s1, l1), wadj), {"args": [s0, l0, s1, l1]})
    ck.case("helper-table", key="overlap-adjacent-7x4", nontrivial=True)

    # ---- directed micro-histories (all ranges a,b over a tiny universe: complete for 2..3 op histories)
    U = 9
    ranges = [(s, l) for s in range(U) for l in range(1, U - s + 1)]
    idx = 0
    for r0 in ranges:
        for r1 in ranges:
            idx += 1
            if not ck.mine(idx):
                continue
            for verb in ("add", "remove"):
                one("spans-micro", run_spans_history,
                    [("add", 1, 2), ("add", 5, 2), (verb,) + r0, ("in",) + r1, ("and", (r1,)), ("dump",)], nontrivial=True)
            one("dataspans-micro", run_ds_history,
                [("add", 1, b"ab"), ("add", 5, b"cd"), ("add", r0[0], bytes(range(65, 65 + r0[1]))),
                 ("get",) + r1, ("pop",) + r1, ("get",) + r1, ("remove",) + r0, ("get_spans",)], nontrivial=True)
    ck.extra["micro_universe"] = {"offsets": U, "ranges": len(ranges), "pairs": len(ranges) ** 2}

    # ---- every 3-operation history over a tiny universe (complete), each followed by full-state comparison
    U3 = {"quick": (5, 4), "thorough": (6, 5)}[ck.tier]
    rs = [(s, l) for s in range(U3[0]) for l in range(1, U3[0] - s + 1)]
    sops = [(v,) + r for v in ("add", "remove") for r in rs]
    rd = [(s, l) for s in range(U3[1]) for l in range(1, U3[1] - s + 1)]
    complete3 = True
    idx = 0
    for o0 in sops:
        if ck.out_of_time():
            complete3 = False
            break
        for o1 in sops:
            idx += 1
            if not ck.mine(idx):
                continue
            for o2 in sops:
                one("spans-exh3", run_spans_history, [o0, o1, o2, ("and", ((1, 2),))], nontrivial=True)
    dops = []
    for r in rd:
        dops.append(("add",) + r)
        dops.append(("remove",) + r)
        dops.append(("pop",) + r)
    for o0 in dops:
        if ck.out_of_time():
            complete3 = False
            break
        for o1 in dops:
            idx += 1
            if not ck.mine(idx):
                continue
            for o2 in dops:
                seq = []
                for j, o in enumerate((o0, o1, o2)):
                    seq.append(("add", o[1], bytes([0x41 + 16 * j + t for t in range(o[2])])) if o[0] == "add" else o)
                seq.append(("get", 0, U3[1]))
                one("dataspans-exh3", run_ds_history, seq, nontrivial=True)
    ck.extra["exh3"] = {"spans_universe": U3[0], "spans_ops": len(sops), "dataspans_universe": U3[1],
                        "dataspans_ops": len(dops), "complete": complete3}

    # ---- seeded long histories
    nhist = {"quick": 2000, "thorough": 6000}[ck.tier]
    rng = ck.rng("hist")
    for i in range(nhist):
        if ck.out_of_time():
            ck.observe("stopped-early-on-budget")
            break
        length = rng.choice((20, 40, 80, 120, 200, 200))
        big = (i % 7 == 6)
        ops = gen_spans_ops(rng, length, big)
        one("spans-history-big" if big else "spans-history", run_spans_history, ops,
            nontrivial=sum(1 for o in ops if o[0] in ("add", "remove", "plus", "minus", "and", "iadd", "isub")) >= 5)
        ops = gen_ds_ops(rng, length, big)
        one("dataspans-history-big" if big else "dataspans-history", run_ds_history, ops,
            nontrivial=sum(1 for o in ops if o[0] in ("add", "remove", "pop")) >= 5)

    # zero-length / negative arguments: API forbids (assert) -> generated, counted, not judged
    for args in ((5, 0), (0, 0)):
        try:
            spansmod.Spans().add(*args)
            ck.skip("zero-length-add-accepted")
        except AssertionError:
            ck.skip("zero-length-add-asserts")
        except Exception:
            ck.skip("zero-length-add-other-exception")

    for k, v in counters.items():
        ck.hit(k, v)
    ck.require_monitor("differential-step", "overlap-table")
    ck.require_reach("spans-state", "dataspans-state", "spans-in-true", "spans-in-false",
                     "dataspans-get-hit", "dataspans-get-miss", "dataspans-pop-hit", "dataspans-pop-miss")
    ck.exhaustive = False


# MUST_CATCH -- planted in a scratch copy (VF_REPO); quick tier, seed 0; all caught (witnesses shrunk to 1..3 ops):
#  adjacent(): start0+length0+1 == start1 (off-by-one merge)               -> adjacent-helper-mismatch, spans-add-mismatch, dataspans-structure-adjacent-unmerged
#  DataSpans.pop does not remove                                           -> dataspans-pop-mismatch
#  Spans.__and__ bounds one element short                                  -> spans-and-mismatch
#  DataSpans.add case B keeps the old bytes (later write does not win)     -> dataspans-add-mismatch
#  Spans.remove right-side trim off by one                                 -> spans-remove-mismatch (+ minus/isub/and)
#  DataSpans.add merge step disabled                                       -> dataspans-structure-adjacent-unmerged, dataspans-add-raises
#  DataSpans.get accepts a span one byte short                             -> dataspans-get-wrong-bytes, dataspans-pop-wrong-bytes
#  Spans.__contains__ accepts a partial overlap                            -> spans-contains-mismatch
#  DataSpans.remove middle split keeps the wrong right-hand bytes          -> dataspans-remove-mismatch, dataspans-pop-mismatch
#  Spans.add ignores the end of the last overlapped span                   -> spans-add-mismatch (+ operator variants)
