"""C22 immutable share storage semantics (visibility, exact reads, conflicts, abort/timeout/disconnect)."""
META = {
    "level": "exploration",
    "technique": "history + executable model: seeded operation histories on the real StorageServer/BucketWriter/BucketReader compared with a bucket model after every operation",
    "text": "Drives the real allmydata.storage.server.StorageServer (direct API and FoolscapStorageServer wrappers with a broker-like canary) on a temp dir under the virtual clock with seeded histories of allocate/write/close/abort/timeout/disconnect/read/list over 1..3 storage indexes x 4 share numbers. A third leg goes through the real HTTPServer (vf.http.HttpStorage over the same server): at most one upload per history of 64 KiB+1..200 000-byte shares whose PATCH bodies exceed 64 KiB (applied by the server in 64 KiB pieces), with earlier data inside or beyond the first 64 KiB of the body, identical or conflicting, then completed or aborted. Writes are fresh, out-of-order, duplicate-identical, overlapping-identical, conflicting, beyond the allocated size. After every operation the return value/exception and the observable state (get_buckets, get_shares, directory listings of shares/ and incoming/, allocated_size(), raw incoming file parsed independently) are compared with a zero-initialised-array + written-mask + visible-flag model.",
    "note": "Trusts the 60-line bucket model, the RangeMap shim (no zero-length writes / zero-size allocations are issued), the independent share-file parser in _storage.py, and assumes the upload timeout is 30 min of inactivity (judged only outside a +-1 s band).",
}
LEVEL = "exploration"
BUDGET = {"quick": 40, "thorough": 240}
SHARDS = {"quick": 1, "thorough": 8}

import os
from vf import env  # noqa
from vf.checks import _storage as S

SIZES = [1, 2, 3, 7, 8, 9, 31, 32, 33, 100, 257, 1000]
TIMEOUT = 30 * 60


class Bucket(object):
    def __init__(self, si, shnum, size, writer, via, canary, now):
        self.si, self.shnum, self.size = si, shnum, size
        self.data = bytearray(size)
        self.mask = bytearray(size)
        self.state = "open"          # open | final | dead
        self.writer, self.via, self.canary = writer, via, canary
        self.last_any = now          # last write attempt (accepted or not)
        self.nwrites = 0

    def complete(self):
        return all(self.mask)


def run(ck):
    from allmydata.storage.server import FoolscapStorageServer
    from allmydata.storage.immutable import (BucketWriter, FoolscapBucketWriter,
                                             BucketReader, FoolscapBucketReader)
    from allmydata.interfaces import ConflictingWriteError, DataTooLargeError

    ck.rule = ("one case = one fresh server + a seeded history of 40..120 ops over 1..3 storage indexes "
               "(sometimes sharing a prefix dir) x share numbers 0..3; distinct = distinct op history; "
               "non-trivial = history has an overlapping write, a close and an abort/timeout/disconnect")
    ncases = 120 if ck.tier == "quick" else 6000
    ck.assumptions.append("upload inactivity timeout is 30 min (BucketWriter); judged only when >1 s away from it")

    for ci in range(ncases):
        if not ck.mine(ci):
            continue
        if ck.out_of_time():
            break
        rng = ck.rng("case", ci)
        case = S.Case(rng)
        try:
            _one_case(ck, rng, case, FoolscapStorageServer, BucketWriter, FoolscapBucketWriter,
                      BucketReader, FoolscapBucketReader, ConflictingWriteError, DataTooLargeError)
        finally:
            case.close()
    for m in ("visibility", "read-bytes", "write-outcome", "stored-bytes", "abort-leaves-nothing", "ledger"):
        ck.require_monitor(m)
    for r in ("write-conflict-rejected", "write-too-large-rejected", "write-identical-overlap-accepted",
              "write-out-of-order", "close-incomplete", "abort", "timeout-fired", "disconnect-killed-writer",
              "second-allocate-while-incoming", "second-allocate-after-complete", "read-past-end",
              "realloc-after-abort", "foolscap-path", "conflict-and-too-large", "http-path",
              "http-big-conflict-first64k", "http-big-conflict-beyond64k", "http-big-identical-overlap-first64k",
              "http-big-identical-overlap-beyond64k", "http-conflict-rejected", "http-upload-completed", "http-abort"):
        ck.require_reach(r)
    ck.exhaustive = False


def _one_case(ck, rng, case, FoolscapStorageServer, BucketWriter, FoolscapBucketWriter,
              BucketReader, FoolscapBucketReader, ConflictingWriteError, DataTooLargeError):
    ss = case.ss
    fss = FoolscapStorageServer(ss)
    nsi = rng.choice([1, 1, 2, 3])
    prefix = S.rand_bytes(rng, 2) if rng.random() < .5 else None
    sis = [S.rand_si(rng, prefix) for _ in range(nsi)]
    model = {}           # (si, shnum) -> Bucket in state open/final
    graveyard = []       # dead buckets whose writer objects may be poked again
    canaries = [S.Canary(), S.Canary()]
    history = []
    flags = set()
    nops = rng.randint(40, 120)
    bad = [False]

    def now():
        return env.reactor.seconds()

    def viol(key, what, **w):
        bad[0] = True
        w["history_tail"] = history[-12:]
        w["nops_so_far"] = len(history)
        ck.violation(key, what, w)

    def invariants(after):
        total_open = 0
        for si in sis:
            finals = sorted(sh for (s, sh), b in model.items() if s == si and b.state == "final")
            opens = sorted(sh for (s, sh), b in model.items() if s == si and b.state == "open")
            total_open += sum(model[(si, sh)].size for sh in opens)
            got_b = sorted(ss.get_buckets(si).keys())
            got_s = sorted(sh for sh, _fn in ss.get_shares(si))
            got_d = case.listing(case.sharedir, si)
            got_i = case.listing(case.incomingdir, si)
            ck.mon("visibility", 3)
            for name, got in (("get_buckets", got_b), ("get_shares", got_s), ("shares/ listing", got_d)):
                extra = [sh for sh in got if sh not in finals]
                missing = [sh for sh in finals if sh not in got]
                if extra:
                    if any(sh in opens for sh in extra):
                        viol("visible-before-close", "%s shows share(s) %r whose upload has not completed (after %s)"
                             % (name, extra, after), si=si, got=got, closed=finals, uploading=opens)
                    else:
                        viol("abort-leaves-share", "%s shows share(s) %r that were aborted/never uploaded (after %s)"
                             % (name, extra, after), si=si, got=got, closed=finals)
                if missing:
                    viol("closed-share-not-visible", "%s lacks completed share(s) %r (after %s)" % (name, missing, after),
                         si=si, got=got, closed=finals)
            ck.mon("abort-leaves-nothing")
            if got_i != opens:
                left = [sh for sh in got_i if sh not in opens]
                if left:
                    viol("abort-leaves-share", "incoming/ still holds share(s) %r with no upload in progress (after %s)"
                         % (left, after), si=si, incoming=got_i, uploading=opens)
                else:
                    viol("incoming-file-missing", "upload in progress but incoming file(s) absent: %r (after %s)"
                         % ([sh for sh in opens if sh not in got_i], after), si=si, incoming=got_i, uploading=opens)
        ck.mon("ledger")
        a = ss.allocated_size()
        if a != total_open:
            viol("reservation-ledger", "allocated_size()=%d but open uploads reserve %d (after %s)" % (a, total_open, after))

    def kill(b, why):
        b.state = "dead"
        del model[(b.si, b.shnum)]
        graveyard.append(b)
        flags.add(why)

    def do_allocate():
        si = rng.choice(sis)
        k = rng.randint(1, 4)
        sharenums = set(rng.sample(range(4), k))
        size = rng.choice(SIZES)
        via = rng.choice(["direct", "foolscap", "foolscap"])
        rs, cs = S.rand_bytes(rng, 32), S.rand_bytes(rng, 32)
        exp_already = {sh for (s, sh), b in model.items() if s == si and b.state == "final"}
        exp_writers = {sh for sh in sharenums if (si, sh) not in model}
        if any((si, sh) in model and model[(si, sh)].state == "open" for sh in sharenums):
            ck.hit("second-allocate-while-incoming")
        if any((si, sh) in model and model[(si, sh)].state == "final" for sh in sharenums):
            ck.hit("second-allocate-after-complete")
        if any(g.si == si and g.shnum in exp_writers for g in graveyard):
            ck.hit("realloc-after-abort")
        history.append(("allocate", sis.index(si), sorted(sharenums), size, via))
        canary = None
        if via == "direct":
            already, writers = ss.allocate_buckets(si, rs, cs, sharenums, size)
        else:
            ck.hit("foolscap-path")
            canary = rng.choice(canaries)
            already, writers = fss.remote_allocate_buckets(si, rs, cs, sharenums, size, canary)
        ck.mon("visibility")
        openset = {sh for (s, sh), b in model.items() if s == si and b.state == "open"}
        if set(already) & openset:
            viol("visible-before-close", "allocate_buckets reports incomplete share(s) %r as already present"
                 % (sorted(set(already) & openset),), si=si)
        elif set(already) != exp_already:
            viol("alreadygot-mismatch", "allocate_buckets alreadygot=%r, completed shares are %r"
                 % (sorted(already), sorted(exp_already)), si=si)
        if set(writers) != exp_writers:
            # granting policy is not part of the statement: record, adopt what the server did
            ck.observe("allocate-grant-differs-from-model")
            if set(writers) - exp_writers:
                bad[0] = True       # cannot continue this history meaningfully
                return
        for sh, w in writers.items():
            if via == "foolscap" and not isinstance(w, FoolscapBucketWriter):
                viol("wrong-writer-type", "remote_allocate_buckets returned %r" % (type(w).__name__,))
            model[(si, sh)] = Bucket(si, sh, size, w, via, canary, now())

    def pick(state):
        c = [b for b in model.values() if b.state == state]
        c.sort(key=lambda b: (sis.index(b.si), b.shnum))
        return rng.choice(c) if c else None

    def gen_write(b):
        """(offset, data, kind)"""
        size = b.size
        masked = [i for i in range(size) if b.mask[i]]
        kinds = ["fresh", "fresh", "random"]
        if masked:
            kinds += ["identical", "identical", "conflict", "conflict", "dup"]
        kinds += ["toolarge"]
        if masked:
            kinds += ["conflict+toolarge"]
        kind = rng.choice(kinds)
        if kind == "dup" and b.nwrites:
            # replay an earlier accepted write exactly
            off, ln = b.last_write
            return off, bytes(b.data[off:off + ln]), "identical"
        if kind in ("fresh", "random", "dup"):
            off = rng.randint(0, size - 1)
            if kind == "fresh":
                holes = [i for i in range(size) if not b.mask[i]]
                if holes:
                    off = rng.choice(holes)
            ln = rng.randint(1, max(1, min(size - off, rng.choice([1, 2, 5, 40, size]))))
            data = bytearray(S.rand_bytes(rng, ln))
            for i in range(ln):           # keep it consistent with what is there
                if b.mask[off + i]:
                    data[i] = b.data[off + i]
            return off, bytes(data), "consistent"
        if kind in ("identical", "conflict"):
            pivot = rng.choice(masked)
            off = rng.randint(max(0, pivot - 6), pivot)
            end = rng.randint(pivot + 1, min(size, pivot + 7))
            data = bytearray(S.rand_bytes(rng, end - off))
            for i in range(off, end):
                if b.mask[i]:
                    data[i - off] = b.data[i]
            if kind == "conflict":
                # flip exactly one already-written byte: first, last or a middle one of the overlap
                ov = [i for i in range(off, end) if b.mask[i]]
                j = rng.choice([ov[0], ov[-1], rng.choice(ov)])
                data[j - off] ^= rng.choice([1, 0x80, 0xff])
            return off, bytes(data), kind
        # beyond the allocated size
        if kind == "toolarge":
            off = rng.choice([size, size - 1, rng.randint(0, size), size + 5])
            off = max(0, off)
            ln = max(1, size - off + rng.choice([1, 1, 2, 50]))
            data = bytearray(S.rand_bytes(rng, ln))
            for i in range(ln):
                if off + i < size and b.mask[off + i]:
                    data[i] = b.data[off + i]
            return off, bytes(data), kind
        pivot = rng.choice(masked)
        off = rng.randint(max(0, pivot - 3), pivot)
        ln = size - off + rng.choice([1, 3])
        data = bytearray(S.rand_bytes(rng, ln))
        for i in range(ln):
            if off + i < size and b.mask[off + i]:
                data[i] = b.data[off + i]
        data[pivot - off] ^= 0x55
        return off, bytes(data), kind

    def do_write():
        b = pick("open")
        if b is None:
            return do_allocate()
        off, data, kind = gen_write(b)
        end = off + len(data)
        too_large = end > b.size
        conflict = any(b.mask[i] and data[i - off] != b.data[i] for i in range(off, min(end, b.size)))
        overlap = any(b.mask[i] for i in range(off, min(end, b.size)))
        history.append(("write", sis.index(b.si), b.shnum, off, len(data), kind))
        path = case.incoming_path(b.si, b.shnum)
        with open(path, "rb") as f:
            pre = f.read()
        b.last_any = now()
        exc = None
        ret = None
        try:
            if b.via == "direct":
                ret = b.writer.write(off, data)
            else:
                ret = b.writer.remote_write(off, data)
        except (ConflictingWriteError, DataTooLargeError) as e:
            exc = e
        with open(path, "rb") as f:
            post = f.read()
        ck.mon("write-outcome")
        if conflict or too_large:
            if conflict and too_large:
                ck.hit("conflict-and-too-large")
            if exc is None:
                if conflict:
                    viol("conflict-accepted", "write [%d,%d) differing from already written bytes was accepted"
                         % (off, end), size=b.size, written=_ranges(b.mask), data=data,
                         stored=bytes(b.data[off:min(end, b.size)]))
                else:
                    viol("too-large-accepted", "write [%d,%d) beyond allocated size %d was accepted" % (off, end, b.size))
            else:
                ok_types = ()
                if conflict:
                    ok_types += (ConflictingWriteError,)
                    ck.hit("write-conflict-rejected")
                if too_large:
                    ok_types += (DataTooLargeError,)
                    ck.hit("write-too-large-rejected")
                if not isinstance(exc, ok_types):
                    viol("wrong-rejection-error", "write rejected with %s, expected %s"
                         % (type(exc).__name__, "/".join(t.__name__ for t in ok_types)))
            ck.mon("stored-bytes")
            if post != pre:
                viol("rejected-write-changed-data", "incoming share file changed although the write [%d,%d) was rejected"
                     % (off, end), size=b.size, kind=kind, first_diff=_first_diff(pre, post))
            return
        # must be accepted
        if exc is not None:
            viol("consistent-write-rejected", "write [%d,%d) agreeing with all already written bytes raised %s: %s"
                 % (off, end, type(exc).__name__, exc), size=b.size, written=_ranges(b.mask), kind=kind)
            return
        if overlap:
            ck.hit("write-identical-overlap-accepted")
        if any(b.mask[i] for i in range(end, b.size)) and not all(b.mask[:off]):
            ck.hit("write-out-of-order")
            flags.add("ooo")
        if overlap:
            flags.add("overlap")
        b.data[off:end] = data
        for i in range(off, end):
            b.mask[i] = 1
        b.nwrites += 1
        b.last_write = (off, len(data))
        if b.via == "direct":
            if bool(ret) != b.complete():
                viol("write-finished-flag", "write() returned %r but upload complete=%r" % (ret, b.complete()),
                     size=b.size, written=_ranges(b.mask))
        ck.mon("stored-bytes")
        raw = S.ImmutableRaw(post)
        for i in range(b.size):
            if b.mask[i] and raw.data[i:i + 1] != bytes(b.data[i:i + 1]):
                viol("stored-bytes-differ", "incoming share byte %d is %r, written %r" % (
                    i, raw.data[i:i + 1], bytes(b.data[i:i + 1])), size=b.size, written=_ranges(b.mask))
                break

    def do_close():
        b = pick("open")
        if b is None:
            return do_allocate()
        history.append(("close", sis.index(b.si), b.shnum, "complete" if b.complete() else "incomplete"))
        if not b.complete():
            ck.hit("close-incomplete")
        if b.via == "direct":
            b.writer.close()
        else:
            b.writer.remote_close()
        b.state = "final"
        flags.add("close")

    def do_abort():
        r = rng.random()
        if r < .15 and graveyard:
            b = rng.choice(graveyard)          # abort an already dead writer again: no-op
            history.append(("abort-again", sis.index(b.si), b.shnum))
            (b.writer.abort if b.via == "direct" else b.writer.remote_abort)()
            return
        if r < .25:
            b = pick("final")                  # abort after close: no-op, share stays
            if b is not None:
                history.append(("abort-after-close", sis.index(b.si), b.shnum))
                (b.writer.abort if b.via == "direct" else b.writer.remote_abort)()
                return
        b = pick("open")
        if b is None:
            return do_allocate()
        history.append(("abort", sis.index(b.si), b.shnum))
        (b.writer.abort if b.via == "direct" else b.writer.remote_abort)()
        ck.hit("abort")
        kill(b, "abort")

    def do_advance():
        dt = rng.choice([1, 60, 900, 1700, 1795, 1799, 1801, 1805, 3600])
        history.append(("advance", dt))
        env.reactor.advance(dt)
        t = now()
        for b in sorted([b for b in model.values() if b.state == "open"],
                        key=lambda b: (sis.index(b.si), b.shnum)):
            idle = t - b.last_any
            alive = os.path.exists(case.incoming_path(b.si, b.shnum))
            if idle >= TIMEOUT + 1:
                ck.hit("timeout-fired")
                kill(b, "timeout")            # invariants() now demand: nothing left, reservation released
            elif idle <= TIMEOUT - 1:
                if not alive:
                    ck.observe("upload-gone-before-30min")
                    kill(b, "timeout")
            else:
                ck.skip("timeout-within-1s-of-threshold")
                if not alive:
                    kill(b, "timeout")

    def do_disconnect():
        cands = [c for c in canaries if any(b.canary is c and b.state == "open" for b in model.values())]
        if not cands:
            return do_allocate()
        c = rng.choice(cands)
        victims = sorted([b for b in model.values() if b.canary is c and b.state == "open"],
                         key=lambda b: (sis.index(b.si), b.shnum))
        history.append(("disconnect", canaries.index(c), [(sis.index(b.si), b.shnum) for b in victims]))
        c.disconnect()
        for b in victims:
            ck.hit("disconnect-killed-writer")
            kill(b, "disconnect")
        canaries[canaries.index(c)] = S.Canary()   # the client reconnects

    def do_read():
        b = pick("final")
        if b is None:
            return do_write()
        size = b.size
        off = rng.choice([0, 0, 1, size - 1, size, size + 1, size + 100, rng.randint(0, size)])
        off = max(0, off)
        ln = rng.choice([0, 1, 2, size, size + 1, max(0, size - off), max(0, size - off) + 1,
                         2 ** 31, rng.randint(0, size + 3)])
        history.append(("read", sis.index(b.si), b.shnum, off, ln))
        if rng.random() < .5:
            rd = ss.get_buckets(b.si)[b.shnum]
            got = rd.read(off, ln)
            if rd.get_length() != size:
                viol("share-length", "BucketReader.get_length()=%d, allocated size %d" % (rd.get_length(), size))
        else:
            rd = fss.remote_get_buckets(b.si)[b.shnum]
            got = rd.remote_read(off, ln)
        ck.mon("read-bytes")
        explen = max(0, min(ln, size - off))
        if off + ln > size:
            ck.hit("read-past-end")
        if len(got) != explen:
            viol("read-not-clipped", "read(%d,%d) on a share of allocated size %d returned %d bytes, expected %d"
                 % (off, ln, size, len(got), explen))
            return
        for i in range(explen):
            if b.mask[off + i]:
                if got[i] != b.data[off + i]:
                    viol("read-wrong-bytes", "read(%d,%d): byte %d is %#x, written %#x"
                         % (off, ln, off + i, got[i], b.data[off + i]), size=size, written=_ranges(b.mask))
                    return
            elif got[i] != 0:
                ck.observe("unwritten-byte-reads-nonzero")

    # ---- HTTP front end, bodies > 64 KiB (the server checks and applies such a PATCH in 64 KiB pieces)
    http = [None, 0]

    def do_http_big():
        if http[1] >= 1:
            return do_write()
        http[1] += 1
        from vf.http import HttpStorage
        from allmydata.storage.http_client import ClientException
        if http[0] is None:
            http[0] = HttpStorage(storage_server=ss, tmp=case.tmp)
        h = http[0]
        ck.hit("http-path")
        si = S.rand_si(rng)
        sh = rng.randrange(4)
        size = rng.choice([65537, 70000, 131072, 131073, 150000, 200000])
        upsec, rs, cs = S.rand_bytes(rng, 32), S.rand_bytes(rng, 32), S.rand_bytes(rng, 32)
        o = min(rng.choice([0, 1, rng.randint(0, size - 65537)]), size - 65537)
        L = rng.choice([65537, size - o, rng.randint(65537, size - o)])
        where = rng.choice(["first64k", "beyond64k"])
        lo, hi = (o, o + 65536) if where == "first64k" else (o + 65536, o + L)
        pa = rng.randint(lo, hi - 1)
        la = min(rng.choice([1, 10, 3000]), hi - pa)
        variant = rng.choice(["identical", "conflict"])
        history.append(("http-big", size, "body=[%d,%d)" % (o, o + L), "earlier=[%d,%d) %s" % (pa, pa + la, where), variant))
        open_before = ss.allocated_size()
        st, res = h.drive(h.imm.create(si, {sh}, size, upsec, rs, cs))
        if st != "ok" or set(res.allocated) != {sh}:
            viol("http-allocate-failed", "HTTP create of a fresh share: %s %r" % (st, res))
            return
        data, mask = bytearray(size), bytearray(size)
        inc, fin = case.incoming_path(si, sh), case.final_path(si, sh)

        def stored():
            with open(inc if os.path.exists(inc) else fin, "rb") as f:
                return f.read()

        def patch(off, body):
            """returns 'ok' | 'conflict' after judging it against the model"""
            end = off + len(body)
            conflict = any(bytes(body[max(a, off) - off:min(b, end) - off]) != bytes(data[max(a, off):min(b, end)])
                           for a, b in _runs(mask, 1) if a < end and off < b)
            pre = stored()
            st, res = h.drive(h.imm.write_share_chunk(si, sh, upsec, off, bytes(body)))
            post = stored()
            ck.mon("write-outcome")
            rejected = st == "err" and isinstance(res.value, ClientException) and res.value.code == 409
            if st != "ok" and not rejected:
                viol("http-write-failed", "PATCH [%d,%d): %s %r" % (off, end, st, getattr(res, "value", res)))
                return "stop"
            if conflict:
                if not rejected:
                    viol("http-conflict-accepted", "PATCH [%d,%d) (%d pieces of 64 KiB) differing from already written "
                         "bytes was accepted" % (off, end, -(-len(body) // 65536)), size=size, written=_ranges(mask))
                    return "stop"
                ck.hit("http-conflict-rejected")
                ck.mon("stored-bytes")
                if post != pre:
                    viol("http-rejected-write-changed-data", "PATCH [%d,%d) was rejected (409) but the share file changed, "
                         "first difference at file offset %d" % (off, end, _first_diff(pre, post)),
                         size=size, written=_ranges(mask))
                    return "stop"
                return "conflict"
            if rejected:
                viol("http-consistent-write-rejected", "PATCH [%d,%d) agreeing with all already written bytes got 409"
                     % (off, end), size=size, written=_ranges(mask))
                return "stop"
            data[off:end] = body
            mask[off:end] = b"\x01" * (end - off)
            if bool(res.finished) != all(mask):
                viol("http-finished-flag", "PATCH reported finished=%r, upload complete=%r" % (res.finished, all(mask)))
                return "stop"
            ck.mon("stored-bytes")
            raw = S.ImmutableRaw(post)
            if any(raw.data[a:b] != bytes(data[a:b]) for a, b in _runs(mask, 1)):
                viol("http-stored-bytes-differ", "share bytes on disk differ from what was written after PATCH [%d,%d)" % (off, end))
                return "stop"
            return "ok"

        if patch(pa, S.rand_bytes(rng, la)) != "ok":
            return
        body = bytearray(rng.randbytes(L))
        for a, b in _runs(mask, 1):
            a, b = max(a, o), min(b, o + L)
            if a < b:
                body[a - o:b - o] = data[a:b]
        if variant == "conflict":
            j = rng.randint(pa, pa + la - 1)
            body[j - o] ^= 0x5a
            ck.hit("http-big-conflict-" + where)
        else:
            ck.hit("http-big-identical-overlap-" + where)
        if patch(o, body) == "stop":
            return
        if rng.random() < .25 and not all(mask):
            st, res = h.drive(h.imm.abort_upload(si, sh, upsec))
            ck.hit("http-abort")
            ck.mon("abort-leaves-nothing")
            if os.path.exists(inc) or os.path.exists(fin):
                viol("abort-leaves-share", "HTTP abort left a share file behind")
                return
        else:
            while not all(mask):
                a, b = _runs(mask, 0)[0]
                # overlap the neighbours identically by a few bytes; may again be > 64 KiB
                a2, b2 = max(0, a - rng.choice([0, 3])), min(size, b + rng.choice([0, 3]))
                fill = bytearray(rng.randbytes(b2 - a2))
                fill[0:a - a2] = data[a2:a]
                fill[b - a2:b2 - a2] = data[b:b2]
                if patch(a2, fill) != "ok":
                    return
            ck.hit("http-upload-completed")
            ck.mon("visibility")
            if sh not in ss.get_buckets(si) or os.path.exists(inc):
                viol("closed-share-not-visible", "HTTP upload complete but the share is not in get_buckets / still incoming")
                return
            ck.mon("read-bytes")
            got = ss.get_buckets(si)[sh].read(0, size + 10)
            if got != bytes(data):
                viol("read-wrong-bytes", "share uploaded over HTTP reads back differently (len %d vs %d, first difference %d)"
                     % (len(got), size, _first_diff(got, bytes(data))))
                return
        ck.mon("ledger")
        if ss.allocated_size() != open_before:
            viol("reservation-ledger", "allocated_size()=%d after the HTTP upload ended, %d before it started"
                 % (ss.allocated_size(), open_before))

    ops = [(do_allocate, 14), (do_write, 42), (do_close, 9), (do_abort, 6), (do_advance, 5),
           (do_disconnect, 3), (do_read, 21), (do_http_big, 3)]
    table = [f for f, w in ops for _ in range(w)]
    do_allocate()
    invariants("allocate")
    for _ in range(nops):
        if bad[0]:
            break
        f = rng.choice(table)
        try:
            f()
        except Exception as e:  # the real code raised where the model expects success
            import traceback
            tb = traceback.extract_tb(e.__traceback__)[-1]
            viol("op-raises-%s-%s" % (history[-1][0] if history else "?", type(e).__name__),
                 "%s: %s at %s:%d" % (type(e).__name__, e, os.path.basename(tb.filename), tb.lineno))
            break
        if bad[0]:
            break
        invariants(history[-1][0] if history else "?")
    if http[0] is not None:
        http[0].close()
    nontrivial = "overlap" in flags and "close" in flags and bool(flags & {"abort", "timeout", "disconnect"})
    ck.case("history", key=tuple(history), nontrivial=nontrivial,
            sample={"storage_indexes": nsi, "ops": len(history), "first_ops": history[:8]})


def _runs(mask, val):
    """[(start, stop)] of maximal runs of byte value ``val`` (0/1) in a bytearray mask (C-speed scanning)."""
    out, i, n = [], 0, len(mask)
    me, other = bytes([val]), bytes([1 - val])
    while True:
        a = mask.find(me, i)
        if a < 0:
            return out
        b = mask.find(other, a)
        if b < 0:
            b = n
        out.append((a, b))
        i = b


def _ranges(mask):
    out, start = [], None
    for i, m in enumerate(mask):
        if m and start is None:
            start = i
        if not m and start is not None:
            out.append((start, i))
            start = None
    if start is not None:
        out.append((start, len(mask)))
    return out


def _first_diff(a, b):
    for i, (x, y) in enumerate(zip(a, b)):
        if x != y:
            return i
    return min(len(a), len(b))


# MUST_CATCH -- planted breaks run against scratch copies (VF_REPO=/var/tmp/...), quick tier, seed 0; all exit 1:
#  1. immutable.py BucketWriter.write: conflict check compares the wrong slice (data[:chunk_len])
#       -> consistent-write-rejected, wrong-rejection-error                                   CAUGHT
#  2. immutable.py BucketWriter.abort: self.ss.bucket_writer_closed(self, 0) dropped          CAUGHT (reservation-ledger)
#  3. server.py get_shares(): also lists incoming/ (visible before close)                     CAUGHT (visible-before-close)
#  4. immutable.py ShareFile.read_share_data: no clipping at the lease offset                 CAUGHT (read-not-clipped)
#  5. immutable.py BucketWriter.abort: os.remove(incominghome) dropped                        CAUGHT (abort-leaves-share)
#  6. immutable.py BucketWriter.write: data written before the conflict check                 CAUGHT (conflict-accepted, rejected-write-changed-data)
#  7. immutable.py _abort_due_to_timeout: does not abort                                      CAUGHT (abort-leaves-share, reservation-ledger)
#  8. immutable.py BucketWriter.disconnected: ignored                                         CAUGHT (abort-leaves-share, reservation-ledger)
#  9. immutable.py write_share_data: DataTooLargeError limit off by one                       CAUGHT (too-large-accepted)
# 10. immutable.py BucketWriter.close: rename to the final home dropped                       CAUGHT (op-raises-close-FileNotFoundError)
# 11. http_server.py write_share_data: conflict pre-check of a PATCH > 64 KiB uses the un-advanced offset for every
#     64 KiB piece (seeded C22-5)              CAUGHT (http-consistent-write-rejected, http-rejected-write-changed-data)
#     -- was caught by C31 only until the HTTP leg (do_http_big: vf.http.HttpStorage over the same server) was added.
