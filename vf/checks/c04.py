"""C04 random-access and concurrent immutable reads."""
META = {
    "level": "exploration",
    "technique": "runtime monitoring of 1-4 concurrent range reads on one real file node under seeded delivery schedules, with consumers that pause/resume/stop their producer (and stop each other); per-chunk prefix oracle + completion oracle against plaintext[offset:offset+size]; bounded enumeration of all ordered pairs of ranges over a 12-point boundary grid",
    "text": "Honest in-process grid, real Uploader and downloader. Files: literal (<=55 bytes, LiteralFileNode) and CHK with small segment sizes (2-9 segments, segment sizes both multiples and non-multiples of the 16-byte AES block). On ONE node object 1-4 reads are started (together or staggered by scheduler steps) with (offset,size) drawn around 0, 16*j+-1, segment boundaries +-1, EOF+-1, past EOF, size=None and size=0. Consumers pause after a random number of bytes and resume after a random number of scheduler steps, pause/stop at a step count outside write() (which reaches the per-node segment-request cancel path), stop inside write(), stop at registerProducer, or stop a sibling read from inside their own write(). Every chunk must extend a correct prefix of the requested slice, a success callback requires exact equality, a stopped CHK read must errback with DownloadStopped, no bytes may arrive after stopProducing/unregisterProducer, and every read that was not stopped must complete successfully whatever happened to its siblings. A further dimension is the segment size a FRESH node guesses before it has seen a share (production: min(size, 1 MiB); here DownloadNode.default_max_segment_size is set per case to values smaller than, equal to and larger than the real segment size, and restored): first reads on fresh nodes (a fresh client per cold round) at offsets > 0 whose guessed segment number names a real segment that starts inside the wanted range, or lies beyond the last segment. Part two enumerates, for a 3-segment file, every ordered pair of ranges (start<=end) over a 12-point boundary grid as two concurrent reads on one node (complete in the thorough tier, a seed-rotated residue class in the quick tier); every pair runs once on a fresh node with a guess from the rota {1 MiB, 16, S, S/2, 2S, S/3, S-k, 1} and once more on the same, now warm, node.",
    "note": "Ground truth is the uploaded plaintext. Trusts the in-process Wire, the virtual reactor/scheduler and the RangeMap shim. interfaces.py calls reads past EOF a caller error; the property statement defines them (clipped / empty), so they are judged by the statement. Writes that arrive while a push producer is paused are not judged (IPushProducer.pauseProducing is advisory). For LiteralFileNode the exception type of a stopped read is not judged (twisted FileSender raises a plain Exception).",
}
LEVEL = "exploration"
BUDGET = {"quick": 36, "thorough": 420}
SHARDS = {"quick": 1, "thorough": 12}

from vf import env  # noqa
from vf import imm

PROFILES = ["fifo", "per-server-fifo", "free"]
HORIZON = 900.0      # virtual seconds an undisturbed honest read may take before it is called lost
MAX_STEPS = 60000


# --------------------------------------------------------------------------- consumer
class Reader(imm.RecordingConsumer):
    """RecordingConsumer with a plan of flow-control actions.

    byte_plan: [(after_bytes, action, arg)] evaluated at registerProducer and after each write
    step_plan: [(after_steps, action, arg)] evaluated by the driver between scheduler steps
    actions: 'pause' (arg = scheduler steps until resume), 'stop', 'stop-sibling' (arg = Reader)"""

    def __init__(self, ck, label, offset, size, expected, byte_plan=(), step_plan=(), decode_plan=()):
        imm.RecordingConsumer.__init__(self, None)
        self.decode_plan = list(decode_plan)   # [(skip, action, arg)] fired at the skip+1-th step with a segment decode in flight
        self.ck = ck
        self.label = label
        self.offset, self.size = offset, size
        self.expected = expected
        self.byte_plan = sorted(byte_plan, key=lambda t: t[0])
        self.step_plan = sorted(step_plan, key=lambda t: t[0])
        self.box = []
        self.started = False
        self.raised = None
        self.steps_alive = 0
        self.bad = None                  # position of the first chunk that did not extend a correct prefix
        self.paused = False
        self.resume_in = 0
        self.stop_called = False
        self.stopped_by = None
        self.npauses = 0
        self.writes_after_stop = 0
        self.writes_while_paused = 0
        self.registered = 0

    # -- IConsumer
    def registerProducer(self, p, streaming):
        self.producer = p
        self.streaming = streaming
        self.registered += 1
        self._react()

    def write(self, data):
        if self.done:
            self.writes_after_unregister += 1
        if self.stop_called:
            self.writes_after_stop += 1
        if self.paused:
            self.writes_while_paused += 1
        pos = self.nbytes
        self.chunks.append(data)
        self.nbytes += len(data)
        self.ck.mon("prefix-oracle")
        if self.bad is None and self.expected[pos:pos + len(data)] != data:
            self.bad = pos
        self._react()

    # -- plan execution
    def _react(self):
        while self.byte_plan and self.nbytes >= self.byte_plan[0][0] and not self.stop_called:
            (_, action, arg) = self.byte_plan.pop(0)
            self._do(action, arg, inside=True)
        if self.streaming is False and self.producer is not None and not self.paused and not self.stop_called:
            self.producer.resumeProducing()       # pull producer: ask for the next chunk

    def _do(self, action, arg, inside):
        if action == "pause":
            if self.producer is None or self.paused or self.stop_called:
                return
            self.paused = True
            self.npauses += 1
            self.resume_in = arg
            self.ck.hit("pause-inside-write" if inside else "pause-between-events")
            if self.streaming:
                self.producer.pauseProducing()
            if arg == 0:
                self.resume()
        elif action == "stop":
            self.stop("self-inside-write" if inside else "self-between-events")
        elif action == "stop-sibling":
            if arg.producer is not None and not arg.stop_called and not arg.box:
                self.ck.hit("stop-sibling-from-write")
                arg.stop("sibling-inside-write")

    def stop(self, how):
        if self.producer is None or self.stop_called or self.box:
            return
        self.stop_called = True
        self.stopped_by = how
        self.paused = False
        self.ck.hit("stop:" + how)
        self.producer.stopProducing()

    def resume(self):
        if not self.paused:
            return
        self.paused = False
        if self.producer is not None and not self.stop_called:
            self.ck.hit("resume")
            self.producer.resumeProducing()

    def tick(self, stalled):
        """Called by the driver after every scheduler step."""
        if not self.started or self.box:
            return
        self.steps_alive += 1
        if self.paused:
            self.resume_in -= 1
            if self.resume_in <= 0 or stalled:
                self.resume()
        while self.step_plan and (self.steps_alive >= self.step_plan[0][0] or stalled) and not self.stop_called:
            (_, action, arg) = self.step_plan.pop(0)
            self._do(action, arg, inside=False)
        if self.decode_plan and not self.stop_called and (env.thread_jobs or stalled):
            # a zfec decode (defer_to_thread) is pending: a moment at which a real reactor can run our consumer
            (skip, action, arg) = self.decode_plan[0]
            if skip > 0 and not stalled:
                self.decode_plan[0] = (skip - 1, action, arg)
            else:
                self.decode_plan.pop(0)
                if env.thread_jobs:
                    self.ck.hit("flow-control-while-decode-in-flight")
                self._do(action, arg, inside=False)

    def idle_plan(self):
        return not self.paused and not self.step_plan and not self.decode_plan


# --------------------------------------------------------------------------- driving
def drive(g, readers, starts):
    """starts: [(trigger, reader, thunk)]; trigger = number of scheduler steps, or a Reader (start as soon as
    that reader has been stopped or has finished: "cancel, then ask again").  Returns 'done' | 'lost' | 'steps'."""
    reactor = g.sched.reactor
    t0 = reactor.seconds()
    steps = 0
    starts = list(starts)
    stalled = False
    while True:
        for ent in list(starts):
            (trig, r, thunk) = ent
            due = (steps >= trig) if isinstance(trig, int) else (trig.stop_called or bool(trig.box))
            if not (due or stalled):
                continue
            starts.remove(ent)
            r.started = True
            try:
                d = thunk()
                d.addBoth(r.box.append)
            except Exception as e:   # read() must return a Deferred
                r.raised = e
                r.box.append(None)
        if not starts and all(r.box for r in readers):
            return "done"
        kind = g.sched.step()
        steps += 1
        stalled = kind in (None, "tmr")
        for r in readers:
            r.tick(stalled)
        if stalled and not starts and all(r.idle_plan() for r in readers if not r.box):
            if kind is None or reactor.seconds() - t0 > HORIZON:
                return "lost"
        if steps > MAX_STEPS:
            return "steps"


def expected_slice(data, offset, size):
    if size is None:
        return data[offset:]
    return data[offset:offset + size]


def fdesc(res):
    try:
        return "%s: %s" % (res.type.__name__, str(res.value)[:200])
    except Exception:
        return repr(res)[:200]


def judge(ck, readers, outcome, kind, desc, DownloadStopped, bogus_guess=False):
    """All verdicts of one round of concurrent reads.  bogus_guess: the node was created with a segment-size guess
    smaller than the real one, i.e. it guessed more segments / a larger block hash tree than the file has (own
    mechanism class for share-exhaustion failures; the damage persists on the node after its first reads)."""
    any_stop = any(r.stop_called for r in readers)
    any_pause = any(r.npauses for r in readers)
    ctx = "/" + kind
    for r in readers:
        ck.mon("completion-oracle")
        w = dict(desc, read=(r.offset, r.size), label=r.label, got=r.nbytes, want=len(r.expected),
                 siblings=[(x.offset, x.size, x.label) for x in readers if x is not r], outcome=outcome)
        if r.bad is not None:
            ck.violation("wrong-bytes-delivered" + ctx,
                         "read(offset=%r,size=%r) of a %d-byte file: chunk at position %d of the requested range does "
                         "not extend plaintext[offset:offset+size] (%s)" % (r.offset, r.size, desc["size"], r.bad, r.label), w)
        if r.writes_after_unregister:
            ck.violation("bytes-after-unregisterProducer" + ctx, "consumer.write() called after unregisterProducer()", w)
        if r.writes_after_stop:
            ck.violation("bytes-after-stopProducing" + ctx,
                         "consumer.write() called after the consumer's stopProducing() (stopped %s)" % r.stopped_by, w)
        if r.writes_while_paused:
            ck.skip("write-while-push-producer-paused")
        if r.raised is not None:
            ck.violation("read-raised-synchronously" + ctx, "node.read() raised %s: %s" % (
                type(r.raised).__name__, str(r.raised)[:200]), w)
            continue
        if not r.box:
            how = ("sibling-stopped" if any_stop and not r.stop_called else
                   "after-own-stop" if r.stop_called else
                   "after-pause" if r.npauses else "sibling-paused" if any_pause else "undisturbed")
            ck.violation("read-never-completed/%s%s" % (how, ctx),
                         "the Deferred of read(offset=%r,size=%r) never fired on an honest grid (%s; %d of %d bytes "
                         "delivered)" % (r.offset, r.size, how, r.nbytes, len(r.expected)), w)
            continue
        res = r.box[0]
        from twisted.python.failure import Failure
        if r.stop_called:
            ck.hit("stopped-read-judged")
            if not isinstance(res, Failure):
                # stop inside the write of the very last chunk may race with normal completion only if the
                # producer already finished; Segmentation errbacks in every case where stopProducing ran first
                ck.violation("stopped-read-did-not-errback" + ctx,
                             "consumer called stopProducing() (%s) but the read Deferred fired with success" % r.stopped_by, w)
            elif kind == "chk" and not res.check(DownloadStopped):
                ck.violation("stopped-read-wrong-error" + ctx,
                             "stopped read failed with %s instead of DownloadStopped" % fdesc(res), w)
            elif kind == "lit" and not res.check(DownloadStopped):
                ck.skip("lit-stop-exception-type")
            if r.nbytes < len(r.expected):
                ck.hit("stopped-with-partial-prefix")
            continue
        if isinstance(res, Failure):
            how = "sibling-stopped" if any_stop else "sibling-paused-or-self-paused" if any_pause else "undisturbed"
            if bogus_guess and res.type.__name__ in ("NoSharesError", "NotEnoughSharesError"):
                how = "node-guessed-more-segments-than-real"
            ck.violation("read-failed-on-honest-grid/%s/%s%s" % (
                             how, "out-of-shares" if how.startswith("node-guessed") else res.type.__name__, ctx),
                         "read(offset=%r,size=%r) errbacked with %s (%s)" % (r.offset, r.size, fdesc(res), how), w)
            continue
        ck.hit("read-completed")
        if any_stop:
            ck.hit("completed-next-to-stopped-sibling")
        if r.npauses:
            ck.hit("completed-after-pause")
        if r.value() != r.expected and r.bad is None:
            ck.violation("success-with-wrong-length" + ctx,
                         "read(offset=%r,size=%r) of a %d-byte file fired success after %d bytes, expected %d" % (
                             r.offset, r.size, desc["size"], r.nbytes, len(r.expected)), w)
        if res is not r:
            ck.violation("read-result-is-not-the-consumer" + ctx, "Deferred fired with %r" % (res,), w)
        if not r.done and r.registered:
            ck.violation("producer-never-unregistered" + ctx, "read completed without unregisterProducer()", w)


# --------------------------------------------------------------------------- generators
def boundary_points(rng, size, seg):
    pts = {0, 1, 15, 16, 17, 31, 32, 33, size - 1, size, size + 1, size + seg, size - 16, size - 17, size // 2}
    nseg = (size + seg - 1) // seg if seg else 1
    for j in range(1, nseg + 1):
        pts |= {j * seg - 1, j * seg, j * seg + 1}
    for j in range(1, size // 16 + 2):
        if rng.random() < .3:
            pts |= {16 * j - 1, 16 * j, 16 * j + 1}
    return sorted(p for p in pts if p >= 0)


def gen_range(rng, size, seg, near=None):
    pts = boundary_points(rng, size, seg)
    r = rng.random()
    if near is not None and r < .45:
        # overlap a sibling: same segment / same start / same end
        (o2, s2) = near
        off = rng.choice([o2, max(0, o2 - 1), o2 + 1, (o2 // seg) * seg, min(size, (o2 // seg) * seg + rng.randrange(seg))])
    elif r < .85:
        off = rng.choice(pts)
    else:
        off = rng.randint(0, size + 2)
    r = rng.random()
    if r < .2:
        sz = None
    elif r < .27:
        sz = 0
    elif r < .8:
        end = rng.choice([p for p in pts if p >= off] or [off])
        sz = end - off
        if rng.random() < .3:
            sz = rng.choice([1, 15, 16, 17, seg - 1, seg, seg + 1, max(0, size - off - 1), max(0, size - off), size - off + 1 if size >= off else 1])
    else:
        sz = rng.randint(0, size + 10)
    return off, sz


def gen_plan(rng, explen, seg, kind, allow_stop=True):
    """(byte_plan, step_plan, decode_plan, label) for one reader; sibling stops are wired by the caller."""
    r = rng.random()
    thresholds = [0, 1, seg - 1, seg, seg + 1, max(0, explen - 1), explen, rng.randint(0, max(0, explen))]
    if r < .25:
        return [], [], [], "plain"
    if r < .50:
        bp = []
        for _ in range(rng.choice([1, 1, 2, 3])):
            bp.append((rng.choice(thresholds), "pause", rng.choice([0, 1, 2, 3, 5, 8, 13, 30, 80])))
        return bp, [], [], "pause-in-write"
    if r < .60:
        sp = [(rng.choice([0, 1, 2, 3, 5, 8, 13, 21, 40]), "pause", rng.choice([1, 2, 5, 13, 40]))]
        return [], sp, [], "pause-at-step"
    if r < .65:
        return [], [], [(rng.choice([0, 0, 1, 2]), "pause", rng.choice([1, 2, 5, 13]))], "pause-during-decode"
    if not allow_stop:
        return [], [], [], "plain"
    if r < .76:
        return [(rng.choice(thresholds), "stop", None)], [], [], "stop-in-write"
    if r < .86:
        return [], [(rng.choice([0, 1, 2, 3, 4, 5, 6, 8, 10, 13, 17, 21, 30, 45]), "stop", None)], [], "stop-at-step"
    if r < .94:
        return [], [], [(rng.choice([0, 0, 0, 1, 2, 3]), "stop", None)], "stop-during-decode"
    bp = [(rng.choice(thresholds), "pause", rng.choice([3, 10, 40]))]
    return bp, [(rng.choice([1, 3, 8, 20, 50]), "stop", None)], [], "pause-then-stop"


def gen_file(rng, tier):
    """(k, n, max_segsize, size) with 2..9 segments, or a literal size."""
    if rng.random() < .12:
        size = rng.choice([0, 1, 2, 15, 16, 17, 31, 32, 33, 54, 55, 55, rng.randint(0, 55)])
        return dict(k=3, n=5, segsize=64, size=size, nservers=rng.choice([0, 1, 3]), lit=True)
    n = rng.choice([1, 2, 3, 4, 5, 6])
    k = rng.randint(1, n)
    base = rng.choice([16, 17, 20, 24, 31, 32, 33, 40, 48, 50, 56, 64, 80, 100, 128])
    seg = max(k, ((base + k - 1) // k) * k)
    nseg = rng.choice([1, 2, 2, 3, 3, 3, 4, 5, 6, 9])
    tail = rng.choice([0, 1, 2, 15, 16, 17, seg - 1, seg // 2, rng.randrange(seg)])
    size = max(56, (nseg - 1) * seg + (tail if nseg > 1 else 0) + (seg if tail == 0 or nseg == 1 else 0))
    if size <= seg:      # a single-segment file: effective segsize becomes the rounded size
        seg = ((size + k - 1) // k) * k
    return dict(k=k, n=n, segsize=base, eff_seg=seg, size=size, nservers=rng.randint(max(1, n - 2), n + 2), lit=False)


# --------------------------------------------------------------------------- guessed segment size
class guessing(object):
    """Set the segment size a FRESH download node guesses before it has seen the share (production default 1 MiB,
    class attribute DownloadNode.default_max_segment_size) for the duration of a block; always restored."""

    def __init__(self, value):
        self.value = value

    def __enter__(self):
        from allmydata.immutable.downloader.node import DownloadNode
        self.cls = DownloadNode
        self.had = "default_max_segment_size" in DownloadNode.__dict__
        self.old = DownloadNode.__dict__.get("default_max_segment_size")
        if self.value is not None:
            DownloadNode.default_max_segment_size = self.value
        return self

    def __exit__(self, *a):
        if self.value is not None:
            if self.had:
                self.cls.default_max_segment_size = self.old
            else:
                del self.cls.default_max_segment_size
        return False


def guessed_effective(guess, size, k):
    """What a fresh node will believe the segment size is (independent arithmetic)."""
    g = min(size, guess if guess is not None else 1024 * 1024)
    return max(k, ((g + k - 1) // k) * k)


def guess_candidates(seg, k):
    return [None, None, seg, 16, max(1, seg // 2), max(1, seg // 3), seg - k, seg - 1, seg + k, 2 * seg, 1, k]


def note_cold_guess(ck, readers, guess_eff, seg, size):
    """Behavioural reach counters of cold reads whose first segment request is computed from a wrong guess."""
    for r in readers:
        e = len(r.expected)
        if not e or r.offset == 0:
            continue
        if guess_eff < seg:
            ck.hit("cold-read-with-guess-smaller-than-actual")
            start = (r.offset // guess_eff) * seg      # where the segment the guess names really starts
            if r.offset < start < r.offset + e:
                ck.hit("cold-read-guessed-segment-starts-inside-range")
            elif start >= size:
                ck.hit("cold-read-guessed-segment-beyond-last")
        elif guess_eff > seg:
            ck.hit("cold-read-with-guess-larger-than-actual")
        else:
            ck.hit("cold-read-with-exact-guess")


def straddling_range(rng, guess_eff, seg, size):
    """(offset,size) whose guessed segment number names a real segment that starts inside the range, or None."""
    nseg = (size + seg - 1) // seg
    cands = []
    for j in range(1, nseg):
        lo, hi = j * guess_eff, min((j + 1) * guess_eff, j * seg)     # offsets with off//guess == j and off < j*seg
        if lo < hi:
            cands.append((j, lo, hi))
    if not cands:
        return None
    (j, lo, hi) = rng.choice(cands)
    off = rng.choice([lo, hi - 1, rng.randrange(lo, hi)])
    end = rng.choice([j * seg + 1, j * seg + rng.randint(1, seg), size, size + 1, None])
    return off, (None if end is None else max(1, end - off))


# --------------------------------------------------------------------------- part 1: sampled
def sampled_case(ck, rng, i, DownloadStopped):
    from vf.grid import VGrid
    from allmydata.immutable.upload import Data
    from allmydata import uri
    p = gen_file(rng, ck.tier)
    profile = PROFILES[i % 3] if rng.random() < .8 else rng.choice(PROFILES)
    data = imm.gen_data(rng, p["size"])
    if data and len(set(data)) == 1 and rng.random() < .8:
        data = bytes((j * 131 + 7) % 251 for j in range(p["size"]))    # constant data hides offset errors
    g = VGrid(nservers=p["nservers"], seed=rng.getrandbits(32), profile=profile, keep_log=False,
              eager_timers=rng.choice([0.0, 0.0, 0.02]))
    try:
        c = g.make_client(k=p["k"], happy=1, n=p["n"], max_segment_size=p["segsize"])
        st, res = g.wait(c.upload(Data(data, convergence=rng.choice([None, b"", b"s"]))))
        if st != "ok":
            ck.observe("upload-failed")      # C01's business
            return
        cap = res.get_uri()
        u = uri.from_string(cap)
        kind = "lit" if isinstance(u, uri.LiteralFileURI) else "chk"
        if p["lit"] != (kind == "lit"):
            ck.observe("unexpected-cap-kind")    # C05's business
        seg = p.get("eff_seg") or 16
        desc = dict(k=p["k"], n=p["n"], max_segsize=p["segsize"], size=p["size"], nservers=p["nservers"],
                    profile=profile, kind=kind)
        if kind == "lit" and p["nservers"] and rng.random() < .5:
            for vs in g.servers:
                vs.disconnect()
        reader_client = c if rng.random() < .6 else g.make_client(k=rng.randint(1, 3), happy=1, n=rng.randint(3, 10))
        node = reader_client.create_node_from_uri(cap)
        # what a fresh node guesses for the segment size: production default (1 MiB), exact, smaller, larger
        guess = rng.choice(guess_candidates(seg, p["k"])) if kind == "chk" else None
        guess_eff = guessed_effective(guess, p["size"], p["k"]) if kind == "chk" else None
        desc["guessed_segsize"] = guess_eff
        cold = True
        if kind == "chk" and (p["size"] + seg - 1) // seg > 1:
            ck.hit("multi-segment-file")
        if seg % 16:
            ck.hit("segment-size-not-multiple-of-aes-block")
        nrounds = rng.choice([1, 2, 3, 4]) if kind == "chk" else rng.choice([2, 4, 6])
        for rnd in range(nrounds):
            if rnd and kind == "chk" and rng.random() < .6:
                # a fresh client has a fresh node: its first reads run on guesses again
                node = g.make_client(k=rng.randint(1, 3), happy=1, n=rng.randint(3, 10)).create_node_from_uri(cap)
                cold = True
            nreads = rng.choice([1, 2, 2, 3, 3, 4, 4])
            readers = []
            starts = []
            prev = None
            stagger = rng.choice([0, 0, 1, 3, 10, 30])
            for j in range(nreads):
                off, sz = gen_range(rng, p["size"], seg, near=prev)
                if cold and kind == "chk" and guess_eff < seg and rng.random() < .6:
                    off, sz = straddling_range(rng, guess_eff, seg, p["size"]) or (off, sz)
                prev = (off, sz if sz is not None else p["size"])
                exp = expected_slice(data, off, sz)
                bp, sp, dp, label = gen_plan(rng, len(exp), seg, kind)
                r = Reader(ck, label, off, sz, exp, bp, sp, dp)
                readers.append(r)
                starts.append((rng.randint(0, stagger * j) if stagger else 0, r,
                               (lambda r=r, off=off, sz=sz: node.read(r, off, sz))))
            # "cancel, then ask again": a further read of (nearly) the same range starts the moment a sibling is stopped
            stoppers = [r for r in readers if r.label.startswith("stop") or r.label == "pause-then-stop"]
            if stoppers and len(readers) < 4 and rng.random() < .6:
                a = rng.choice(stoppers)
                mode = rng.choice(["resume", "resume", "same", "near"])
                bp, sp, dp, label = gen_plan(rng, rng.choice([1, seg, 2 * seg]), seg, kind, allow_stop=False)
                r = Reader(ck, label + "+restart-after-sibling-stop", 0, None, b"", bp, sp, dp)

                def restart(r=r, a=a, mode=mode, near=gen_range(rng, p["size"], seg, near=(a.offset, 0))):
                    if mode == "resume":      # continue where the cancelled download was
                        off = a.offset + a.nbytes
                        sz = None if a.size is None else max(0, a.size - a.nbytes)
                    elif mode == "same":
                        off, sz = a.offset, a.size
                    else:
                        off, sz = near
                    r.offset, r.size, r.expected = off, sz, expected_slice(data, off, sz)
                    return node.read(r, off, sz)
                readers.append(r)
                starts.append((a, r, restart))
                nreads += 1
                ck.hit("read-started-when-sibling-stopped")
            # a reader that stops a sibling from inside its own write()
            if nreads >= 2 and rng.random() < .3:
                a, b = rng.sample(readers, 2)
                a.byte_plan.append((rng.choice([1, len(a.expected), rng.randint(0, max(1, len(a.expected)))]),
                                    "stop-sibling", b))
                a.byte_plan.sort(key=lambda t: t[0])
                a.label += "+stops-sibling"
            rng.shuffle(starts) if not stagger else None
            with guessing(guess):
                outcome = drive(g, readers, starts)
            g.sched.run(max_steps=3000, allow_time=False)     # flush late answers: nothing may reach a finished consumer
            if outcome == "steps":
                ck.observe("step-limit")
                ck.inconclusive_because("step limit reached in a round of reads")
            judge(ck, readers, outcome, kind, dict(desc, round=rnd, cold=cold), DownloadStopped,
                  bogus_guess=kind == "chk" and guess_eff < seg)
            if cold and kind == "chk":
                note_cold_guess(ck, readers, guess_eff, seg, p["size"])
            was_cold, cold = cold, False
            for r in readers:
                e = len(r.expected)
                cls = ("empty" if e == 0 else "whole" if e == p["size"] else "range")
                if r.offset >= p["size"]:
                    ck.hit("offset-at-or-past-eof")
                elif r.size is not None and r.offset + r.size > p["size"]:
                    ck.hit("size-clipped-at-eof")
                if r.size is None:
                    ck.hit("size-none")
                if r.size == 0:
                    ck.hit("size-zero")
                if r.offset % 16:
                    ck.hit("offset-inside-aes-block")
                if kind == "chk" and r.offset >= seg and was_cold:
                    ck.hit("cold-node-offset-beyond-first-segment")
                if kind == "chk" and e and (r.offset // seg) != ((r.offset + e - 1) // seg):
                    ck.hit("range-spans-segments")
                ck.case("%s-%s-%s" % (kind, cls, r.label.split("+")[0]),
                        key=(kind, p["k"], p["n"], seg, p["size"], r.offset, r.size, r.label, nreads, profile,
                             guess_eff if was_cold else "warm"),
                        nontrivial=e > 0 or r.offset >= p["size"],
                        sample=dict(desc, read=(r.offset, r.size), plan=r.label, concurrent=nreads))
            ck.hit("concurrency-%d" % nreads)
            ck.hit("profile:" + profile)
        ck.observe("eventual-exceptions", len(env.evq.exceptions))
    finally:
        g.close()


# --------------------------------------------------------------------------- part 2: bounded enumeration
GRID_FILES = [
    # (k, n, max_segsize -> effective S, size): three segments, S-1 or S a multiple of 16 in some, not in others
    dict(k=3, n=4, segsize=33, size=86),    # S=33: 32=S-1 is an AES boundary, tail 20
    dict(k=2, n=3, segsize=48, size=113),   # S=48: segment boundaries on AES boundaries, tail 17
    dict(k=1, n=2, segsize=21, size=58),    # S=21: nothing aligned, tail 16
    dict(k=4, n=5, segsize=40, size=120),   # S=40: tail is a full segment
]


def grid_points(S, size):
    return [0, 1, 16, 17, S - 1, S, S + 1, 2 * S - 1, 2 * S, size - 1, size, size + 1]


def enumerated_part(ck, deadline_frac, DownloadStopped):
    from vf.grid import VGrid
    from allmydata.immutable.upload import Data
    files = GRID_FILES if ck.tier == "thorough" else [GRID_FILES[ck.seed % len(GRID_FILES)]]
    modulus = 1 if ck.tier == "thorough" else 6
    total = done = 0
    complete = True
    for fi, p in enumerate(files):
        k, S, size = p["k"], p["segsize"], p["size"]
        assert S % k == 0 and (size + S - 1) // S == 3
        pts = grid_points(S, size)
        assert len(pts) == 12 and len(set(pts)) == 12 and pts == sorted(pts)
        ranges = [(a, b) for ia, a in enumerate(pts) for b in pts[ia:]]     # 78 ranges, start <= end
        pairs = [(ra, rb) for ra in ranges for rb in ranges]                # 6084 ordered pairs
        data = bytes((j * 89 + 13 + fi) % 256 for j in range(size))
        g = None
        idx = -1
        try:
            for (ra, rb) in pairs:
                idx += 1
                if idx % modulus != (ck.seed // len(GRID_FILES)) % modulus:
                    continue
                if not ck.mine(idx):
                    continue
                total += 1
                if ck.budget_s and ck.time_left() < deadline_frac * ck.budget_s:
                    complete = False
                    break
                if g is None or done % 400 == 0:
                    # fresh grid, fresh client, cold node every 400 pairs; delivery profile rotates
                    if g is not None:
                        g.close()
                    profile = PROFILES[(done // 400 + fi) % 3]
                    g = VGrid(nservers=3, seed=ck.rng("enum", fi, idx).getrandbits(32), profile=profile, keep_log=False)
                    c = g.make_client(k=k, happy=1, n=p["n"], max_segment_size=S)
                    st, res = g.wait(c.upload(Data(data, convergence=b"")))
                    if st != "ok":
                        ck.inconclusive_because("enumeration upload failed")
                        return
                    cap = res.get_uri()
                    old_client = None
                done += 1
                # the pair runs twice: on a FRESH node (fresh client) whose segment-size guess comes from a rota of
                # smaller / exact / larger / production-default values, then again on the same, now warm, node
                guesses = [None, 16, S, max(1, S // 2), 2 * S, max(1, S // 3), S - k, 1]
                guess = guesses[done % len(guesses)]
                guess_eff = guessed_effective(guess, size, k)
                if old_client is not None:
                    try:
                        old_client.stopService()      # keep the number of idle clients (and their timers) small
                    except Exception:
                        pass
                old_client = g.make_client(k=k, happy=1, n=p["n"], max_segment_size=S)
                node = old_client.create_node_from_uri(cap)
                for temp in ("cold", "warm"):
                    readers = []
                    starts = []
                    for (a, b) in (ra, rb):
                        sz = b - a
                        if b == size + 1 and (a + idx) % 2 == 0:
                            sz = None       # the unspecified-size spelling of "to EOF"
                        r = Reader(ck, "plain", a, sz, expected_slice(data, a, sz))
                        readers.append(r)
                        starts.append((0, r, (lambda r=r, a=a, sz=sz: node.read(r, a, sz))))
                    with ck.watchdog(120, "enumerated pair %r %r" % (ra, rb)):
                        with guessing(guess):
                            outcome = drive(g, readers, starts)
                        judge(ck, readers, outcome, "chk",
                              dict(k=k, n=p["n"], max_segsize=S, size=size, profile=profile, part="enumeration",
                                   node=temp, guessed_segsize=guess_eff), DownloadStopped,
                              bogus_guess=guess_eff < S)
                    if temp == "cold":
                        note_cold_guess(ck, readers, guess_eff, S, size)
                    ck.hit("enumerated-pair-" + temp)
                ck.hit("enumerated-pair")
                ck.case("pair-of-ranges", key=("pair", fi, ra, rb), nontrivial=True,
                        sample=dict(file=p, a=ra, b=rb, profile=profile, guessed_segsize=guess_eff))
            else:
                continue
            break
        finally:
            if g is not None:
                g.close()
    ck.extra["enumeration_pairs_in_scope"] = total
    ck.extra["enumeration_pairs_run"] = done
    return complete


# --------------------------------------------------------------------------- part 0: directed
def directed_cancel_then_retry(ck, DownloadStopped):
    """Deterministic scenario per delivery profile: on a warm node read A (first segment) and read B (second segment)
    run concurrently; A's consumer stops while a segment decode is in flight; the moment A is stopped, read C asks
    for A's range again.  B and C must complete correctly."""
    from vf.grid import VGrid
    from allmydata.immutable.upload import Data
    for pi, profile in enumerate(PROFILES):
        p = GRID_FILES[(ck.seed + pi) % len(GRID_FILES)]
        S, size = p["segsize"], p["size"]
        data = bytes((j * 89 + 13) % 256 for j in range(size))
        g = VGrid(nservers=3, seed=ck.rng("directed", pi).getrandbits(32), profile=profile, keep_log=False)
        try:
            with ck.watchdog(120, "directed cancel-then-retry"):
                c = g.make_client(k=p["k"], happy=1, n=p["n"], max_segment_size=S)
                st, res = g.wait(c.upload(Data(data, convergence=b"")))
                if st != "ok":
                    ck.observe("upload-failed")
                    continue
                node = c.create_node_from_uri(res.get_uri())
                warm = Reader(ck, "plain", 0, None, data)
                drive(g, [warm], [(0, warm, lambda: node.read(warm, 0, None))])
                for skip in (0, 1):
                    a = Reader(ck, "stop-during-decode", 0, 10, data[0:10], decode_plan=[(skip, "stop", None)])
                    b = Reader(ck, "plain", S + 7, 10, data[S + 7:S + 17])
                    cc = Reader(ck, "plain+restart-after-sibling-stop", 0, 10, data[0:10])
                    readers = [warm, a, b, cc] if skip == 0 else [a, b, cc]
                    outcome = drive(g, [a, b, cc], [(0, a, lambda: node.read(a, 0, 10)),
                                                    (0, b, lambda: node.read(b, S + 7, 10)),
                                                    (a, cc, lambda: node.read(cc, 0, 10))])
                    g.sched.run(max_steps=3000, allow_time=False)
                    judge(ck, readers, outcome, "chk", dict(k=p["k"], n=p["n"], max_segsize=S, size=size, profile=profile,
                                                            part="directed cancel-during-decode then retry"), DownloadStopped)
                    ck.hit("directed-cancel-then-retry")
                    ck.case("directed-cancel-then-retry", key=("directed", profile, skip, S, size), nontrivial=True,
                            sample=dict(file=p, profile=profile))
        finally:
            g.close()


def run(ck):
    from allmydata.interfaces import DownloadStopped

    ck.rule = ("sampled case = (k,N,max segment size,file size,server count,delivery profile,schedule seed) x 1-4 rounds of "
               "1-4 concurrent reads on one node, each read = (offset,size) from the boundary pool + flow-control plan "
               "(plain / pause after b bytes for s steps / pause or stop at step t / stop after b bytes / stop a sibling); "
               "distinct = (kind,k,N,segsize,size,offset,size,plan,concurrency,profile); non-trivial = non-empty slice or "
               "offset>=EOF. Enumerated case = ordered pair of ranges over the 12-point grid "
               "{0,1,16,17,S-1,S,S+1,2S-1,2S,EOF-1,EOF,EOF+1} of a 3-segment file, both reads concurrent on one node")
    if ck.shard == 0:
        directed_cancel_then_retry(ck, DownloadStopped)
    # ---- part 2 first (bounded), it keeps half of the budget for part 1
    complete = enumerated_part(ck, 0.5 if ck.tier == "quick" else 0.35, DownloadStopped)
    ck.exhaustive = bool(complete and ck.tier == "thorough")
    if not complete:
        ck.observe("enumeration-cut-by-budget")
    ck.extra["enumeration_shards_complete"] = 1 if complete else 0
    # ---- part 1
    i = 0
    target = ck.evaluations + (700 if ck.tier == "quick" else 3000)   # reads judged by part 1 even on a loaded machine
    t1 = ck.evaluations
    while ck.more(min_cases=target):
        i += 1
        if not ck.mine(i):
            continue
        crng = ck.rng("case", i)
        with ck.watchdog(180, "sampled case %d" % i):
            sampled_case(ck, crng, i, DownloadStopped)
    ck.extra["sampled_reads_judged"] = ck.evaluations - t1
    ck.require_monitor("prefix-oracle", "completion-oracle")
    ck.require_reach("read-completed", "multi-segment-file", "range-spans-segments", "offset-inside-aes-block",
                     "offset-at-or-past-eof", "size-clipped-at-eof", "size-none", "completed-after-pause",
                     "stopped-read-judged", "stopped-with-partial-prefix", "completed-next-to-stopped-sibling",
                     "stop:self-between-events", "stop:self-inside-write", "stop:sibling-inside-write",
                     "concurrency-4", "enumerated-pair", "directed-cancel-then-retry",
                     "cold-read-with-guess-smaller-than-actual", "cold-read-guessed-segment-starts-inside-range",
                     "cold-read-with-guess-larger-than-actual", "cold-read-with-exact-guess",
                     "profile:fifo", "profile:per-server-fifo", "profile:free")
    ck.assumptions.append("reads past EOF are judged by the property statement (clipped / empty) although "
                          "interfaces.py leaves them to the caller")


# MUST_CATCH (selftest/breaks_c04.py; all 18 caught at quick tier, seed 0, on a tree with the genuine defect below repaired)
#   c04-ctr-offset-small-mod8, c04-ctr-offset-big-plus1-when-positive, c04-ctr-big-small-swapped   -> wrong-bytes-delivered/chk
#   c04-got-segment-slice-one-too-long, c04-got-segment-slice-starts-one-early                     -> wrong-bytes-delivered/chk
#   c04-wanted-segnum-rounds-up-at-boundary, c04-extract-requests-retires-lower-segments-too       -> read-failed-on-honest-grid/*
#   c04-resume-does-not-fetch                                                                      -> read-never-completed/after-pause
#   c04-stop-does-not-cancel-segment-request, c04-deliver-ignores-cancel                           -> bytes-after-stopProducing
#   c04-stop-errbacks-generic-error                                                                -> stopped-read-wrong-error
#   c04-cancel-removes-every-other-request, c04-cancel-removes-first-request-for-same-segment      -> read-never-completed/sibling-stopped
#   c04-read-does-not-clip-size-at-eof                                                             -> read-raised-synchronously
#   c04-read-size-none-means-size-minus-offset-plus1                                               -> success-with-wrong-length/chk
#   c04-literal-slice-end-is-size, c04-literal-size-none-skips-a-byte, c04-literal-ignores-offset  -> */lit
# SEEDED: /verif/seeded/C02-1 (Segmentation._got_segment accepts a segment that overlaps the range without holding
#   its first byte) -> wrong-bytes-delivered/chk, needs a fresh node whose guessed segment size is below the real one.
# GENUINE (found with the guess dimension, open): read-failed-on-honest-grid/node-guessed-more-segments-than-real/out-of-shares/chk
#   downloader/share.py Share._desire: once the real offset table is known but the UEB is not, block hashes/data of the
#   (guessed) segnum in the (guessed, larger) block hash tree count as NEEDED; they can lie beyond the end of the share,
#   every share is abandoned with DataUnavailable and the read fails (No/NotEnoughSharesError) on an honest grid.
# GENUINE (fixed in /repo by d0375ab): read-failed-on-honest-grid/sibling-stopped/AssertionError/chk
#   downloader/node.py process_blocks/_check_ciphertext_hash: a read cancelled while its segment is being decoded
#   (defer_to_thread) leaves a stale completion that asserts on / clears another fetcher's _active_segment.
