"""Shared fault-schedule workload for C03 (availability) and C46 (termination)."""
import os

from vf import env  # noqa

SHARE_STATES = ["good", "good", "good", "missing", "destroyed", "light", "truncated-header", "field", "hash-flip",
                "truncated-anywhere"]
# "field" is replaced in build() by "field:<name>=<symbolic value>": one length word or offset-table entry of the share
# set to a boundary value (zero, one off, equal to a neighbouring offset, end of share, maximum)
FIELD_NAMES = ["ueb-len", "ueb-len", "ueb-len", "data", "plaintext_hash_tree", "crypttext_hash_tree", "block_hashes", "share_hashes",
               "uri_extension", "block_size", "share_data_size"]
FIELD_VALUES = ["0", "0", "0", "1", "cur-1", "cur+1", "next", "prev", "end", "end+1", "max"]


def _field_state(rng):
    return "field:%s=%s" % (rng.choice(FIELD_NAMES), rng.choice(FIELD_VALUES))
SERVER_FAULTS = ["none", "none", "none", "raise-all", "raise-nth", "disconnect-nth", "dead", "delay", "delay-nth",
                 "hang-nth"]


def build_directed(rng):
    """Directed families (placements are given as RANKS in the permuted server order of the
    file's storage index; materialize() maps ranks to servers)."""
    fam = rng.choice(["late-majority", "dup-failover", "dup-failover", "field-edits", "fault-mid-download",
                      "fault-mid-download", "damaged-first", "damaged-first"])
    if fam == "damaged-first":
        # the servers a reader asks first hold damaged shares (a hash section flipped, the file cut short, a header field
        # edited), also as the first of two copies of a share number; exactly k .. k+1 intact shares sit behind them
        k = rng.randint(1, 3)
        n = rng.randint(k + 1, k + 4)
        nbad = rng.randint(1, n - k)
        nservers = n + rng.randint(0, 2)
        bad_state = lambda: rng.choice(["hash-flip", "hash-flip", "truncated-anywhere", "truncated-anywhere", "light",
                                        _field_state(rng)])
        placements = [(sh, sh, bad_state() if sh < nbad else "good") for sh in range(n)]
        if rng.random() < .5 and nservers > n:
            placements.append((n, 0, "good"))        # an intact second copy of the first damaged share number
        faults = {r: {"kind": "none"} for r in range(nservers)}
        segsize = rng.choice([64, 128, 1024, 4096])
        size = segsize * rng.randint(1, 5) + rng.randint(0, 3)
        return dict(k=k, n=n, segsize=segsize, size=max(56, size), nservers=nservers, layout=fam, by_rank=True,
                    placements=placements, faults=faults)
    if fam == "fault-mid-download":
        # several segments; the servers holding the shares fail (error or lost connection) on their n-th block-level
        # read, i.e. somewhere between two segments or in the middle of one; the remaining servers hold nothing
        k = rng.randint(1, 2)
        n = rng.randint(k, k + 4)
        nservers = rng.randint(2, 4)
        holders = rng.sample(range(nservers), rng.randint(1, min(2, nservers)))
        placements = [(holders[sh % len(holders)], sh, rng.choice(["good", "good", "good", "missing", "truncated-header"]))
                      for sh in range(n)]
        faults = {r: {"kind": "none"} for r in range(nservers)}
        for r in holders:
            faults[r] = {"kind": rng.choice(["disconnect-nth", "raise-nth"]), "method": "read", "nth": rng.randint(2, 12)}
        segsize = rng.choice([64, 128, 1024])
        size = segsize * rng.randint(2, 5) + rng.randint(0, 3)
        return dict(k=k, n=n, segsize=segsize, size=size, nservers=nservers, layout=fam, by_rank=True,
                    placements=placements, faults=faults)
    if fam == "field-edits":
        # the first servers in permuted order (the ones a reader asks first) hold shares with one header field set to
        # a boundary value; 0..k intact shares sit behind them
        k = rng.randint(1, 3)
        n = rng.randint(k, k + 3)
        ngood = rng.choice([0, 0, k - 1, k, k])
        nservers = n + rng.randint(0, 2)
        same = _field_state(rng) if rng.random() < .6 else None
        placements = [(sh, sh, "good" if sh >= n - ngood else (same or _field_state(rng))) for sh in range(n)]
        faults = {r: {"kind": "none"} for r in range(nservers)}
    elif fam == "late-majority":
        # more than ten servers; the first ten in permuted order hold nothing and answer the share query
        # late (but within the overdue time); the only shares sit on the servers behind them
        nservers = rng.randint(11, 14)
        k = rng.randint(1, 3)
        n = rng.randint(k, min(k + 2, nservers - 10 + 2))
        placements = []
        for sh in range(n):
            placements.append((10 + (sh % (nservers - 10)), sh, "good"))
        faults = {}
        d = rng.choice([0.3, 0.5, 2.0, 5.0])
        for r in range(nservers):
            faults[r] = {"kind": "delay", "delay": d, "method": "get_buckets"} if r < 10 else {"kind": "none"}
    else:
        # one share number on two servers: the first copy's reads all fail, at different times; the intact
        # second copy answers late; no spare share numbers
        k = rng.randint(2, 4)
        n = k
        nservers = k + 1 + rng.randint(0, 2)
        placements = [(0, 0, "good"), (1, 0, "good")] + [(1 + sh, sh, "good") for sh in range(1, n)]
        faults = {r: {"kind": "none"} for r in range(nservers)}
        faults[0] = {"kind": "error-staggered", "method": "read", "delay": rng.choice([0.1, 0.2, 0.5]),
                     "delay_step": rng.choice([0.2, 0.4, 1.0])}
        faults[1] = {"kind": "delay", "delay": rng.choice([1.5, 3.0, 6.0]), "method": "read"}
        if n > 1 and rng.random() < .5:
            # keep the late server for share 0 only
            placements = [(0, 0, "good"), (1, 0, "good")] + [(2 + sh - 1, sh, "good") for sh in range(1, n)]
            nservers = max(nservers, n + 1)
            faults = {r: faults.get(r, {"kind": "none"}) for r in range(nservers)}
    segsize = rng.choice([64, 128, 1024])
    size = rng.choice([100, segsize * 2 + 1, segsize * 3, 2000])
    return dict(k=k, n=n, segsize=segsize, size=size, nservers=nservers, layout=fam, by_rank=True,
                placements=placements, faults=faults)


def build(rng, allow_hang=True, maxn=6):
    """Generate a case description (pure data)."""
    if rng.random() < .3:
        return build_directed(rng)
    n = rng.choice([1, 2, 3, 3, 4, 5, maxn])
    k = rng.randint(1, n)
    segsize = rng.choice([32, 64, 128, 1024])
    size = max(56, rng.choice([56, 100, segsize * 2 + 1, segsize * 3, rng.randint(56, 3000)]))
    eff = max(1, ((min(segsize, size) + k - 1) // k) * k)
    while size // eff > 24:
        segsize *= 4
        eff = max(1, ((min(segsize, size) + k - 1) // k) * k)
    nservers = rng.randint(1, n + 3)
    layout = rng.choice(["spread", "spread", "random", "one-server", "dups"])
    placements = []   # (server, shnum, state)
    for sh in range(n):
        if layout == "spread":
            srvs = [sh % nservers]
        elif layout == "one-server":
            srvs = [0]
        elif layout == "dups":
            srvs = rng.sample(range(nservers), rng.randint(1, min(3, nservers)))
        else:
            srvs = [rng.randrange(nservers)]
        for s in srvs:
            placements.append([s, sh, rng.choice(SHARE_STATES)])
    for pl in placements:
        if pl[2] == "field":
            pl[2] = _field_state(rng)
    mode = rng.random()
    if mode < .35:
        # make exactly k shares good, everything else bad in some way
        goodnums = set(rng.sample(range(n), k))
        for pl in placements:
            if pl[1] in goodnums:
                pl[2] = "good"
            elif pl[2] == "good":
                pl[2] = rng.choice(["missing", "destroyed", "light", "truncated-header", _field_state(rng), "hash-flip",
                                    "truncated-anywhere"])
    elif mode < .55:
        # fewer than k usable
        goodnums = set(rng.sample(range(n), rng.randint(0, k - 1))) if k > 0 else set()
        for pl in placements:
            if pl[1] in goodnums:
                pl[2] = "good"
            else:
                pl[2] = rng.choice(["missing", "destroyed"])
    faults = {}
    for s in range(nservers):
        f = rng.choice(SERVER_FAULTS)
        if f == "hang-nth" and not allow_hang:
            f = "delay-nth"
        spec = {"kind": f}
        if f in ("raise-nth", "disconnect-nth", "delay-nth", "hang-nth"):
            spec["method"] = rng.choice(["get_buckets", "read", "read", None])
            spec["nth"] = rng.randint(1, 6)
        if f in ("delay", "delay-nth"):
            spec["delay"] = rng.choice([0.5, 5.0, 9.0, 11.0, 30.0, 120.0])
        faults[s] = spec
    if mode < .35 and rng.random() < .7:
        # servers holding the good shares are fault-free
        for (s, sh, st) in placements:
            if st == "good":
                faults[s] = {"kind": "none"}
    return dict(k=k, n=n, segsize=segsize, size=size, nservers=nservers, layout=layout,
                placements=[tuple(p) for p in placements], faults=faults)


def classify(case):
    """Ground truth: ('must-succeed' | 'must-fail' | 'open', details)."""
    k = case["k"]
    faults = case["faults"]
    good = set()
    maybe = set()
    for (s, sh, st) in case["placements"]:
        fk = faults[s]["kind"]
        if fk == "error-staggered" and st != "missing":
            maybe.add(sh)
            continue
        if st == "good" and fk in ("none", "delay", "delay-nth"):
            good.add(sh)      # intact share on a server that answers every request (possibly late)
        definitely_bad = st in ("missing", "destroyed") or fk in ("dead", "raise-all")
        if not definitely_bad:
            maybe.add(sh)
    if len(good) >= k:
        return "must-succeed", {"good": sorted(good)}
    if len(maybe) < k:
        return "must-fail", {"maybe": sorted(maybe)}
    return "open", {"good": sorted(good), "maybe": sorted(maybe)}


def _edit_field(sf, name, sym):
    """Set one length word / offset-table entry / size field of an immutable share to a boundary value."""
    import struct
    fs = sf.fieldsize
    fmt = ">L" if fs == 4 else ">Q"
    lim = (1 << (8 * fs)) - 1
    order = ["data", "plaintext_hash_tree", "crypttext_hash_tree", "block_hashes", "share_hashes", "uri_extension"]
    if name == "ueb-len":
        pos = sf.offsets["uri_extension"]
        nxt = prv = None
    elif name in ("block_size", "share_data_size"):
        pos = 4 + (0 if name == "block_size" else fs)
        nxt = prv = None
    else:
        pos = sf.offpos[name]
        i = order.index(name)
        nxt = sf.offsets[order[i + 1]] if i + 1 < len(order) else sf.data_len
        prv = sf.offsets[order[i - 1]] if i > 0 else 0
    (cur,) = struct.unpack(fmt, sf.data()[pos:pos + fs])
    val = {"0": 0, "1": 1, "cur-1": cur - 1, "cur+1": cur + 1, "next": nxt if nxt is not None else cur + 2,
           "prev": prv if prv is not None else cur // 2, "end": sf.data_len, "end+1": sf.data_len + 1, "max": lim}[sym]
    sf.write_at(pos, struct.pack(fmt, max(0, min(lim, val))))


def has_infinite_hang(case):
    return any(f["kind"] == "hang-nth" for f in case["faults"].values())


def materialize(case, rng, seed, profile):
    """Build the grid for a case.  Returns (grid, client, cap, plaintext)."""
    from vf.grid import VGrid
    from vf import imm
    from allmydata import uri
    p = dict(k=case["k"], n=case["n"], segsize=case["segsize"])
    data = imm.gen_data(rng, case["size"])
    key = rng.randbytes(16)
    cap, shares = imm.honest_shares(max(case["nservers"], 1), p, data, key)
    if len(shares) < case["n"]:
        raise RuntimeError("scratch upload incomplete")
    g = VGrid(nservers=case["nservers"], seed=seed, profile=profile, keep_log=False)
    si = uri.from_string(cap).get_storage_index()
    if case.get("by_rank"):
        from allmydata.util.hashutil import permute_server_hash
        order = sorted(range(case["nservers"]),
                       key=lambda i: permute_server_hash(si, g.servers[i].iserver.get_permutation_seed()))
        case = dict(case, placements=[(order[r], sh, st) for (r, sh, st) in case["placements"]],
                    faults={order[r]: f for r, f in case["faults"].items()})
    for (s, sh, st) in case["placements"]:
        if st == "missing":
            continue
        vs = g.servers[s]
        d = vs.sharedir(si)
        os.makedirs(d, exist_ok=True)
        path = os.path.join(d, "%d" % sh)
        with open(path, "wb") as f:
            f.write(shares[sh])
        if st == "good":
            continue
        sf = imm.ShareFile(path)
        if st == "destroyed":
            s0, e0 = sf.region("data")
            sf.write_at(s0, bytes((b ^ 0x5a) for b in sf.data()[s0:e0]))   # every block differs
        elif st == "hash-flip":
            # one bit inside one of the hash sections (block hashes, share hash chain, ciphertext hash tree, UEB)
            name = rng.choice(["crypttext_hash_tree", "block_hashes", "share_hashes", "share_hashes", "uri_extension"])
            s0, e0 = sf.region(name)
            if e0 > s0:
                sf.flip(rng.randrange(s0, e0), 1 << rng.randrange(8))
        elif st == "truncated-anywhere":
            # the share file ends somewhere inside its block data or one of the later sections
            s0, _ = sf.region("data")
            sf.truncate_data(rng.randrange(s0, max(s0 + 1, sf.data_len)))
        elif st == "light":
            for _ in range(rng.randint(1, 3)):
                sf.flip(rng.randrange(sf.data_len), 1 << rng.randrange(8))
        elif st == "truncated-header":
            sf.truncate_data(rng.choice([0, 3, 4, 0x23, 0x24, 0x30]))
        elif st.startswith("field:"):
            _edit_field(sf, *st[6:].split("="))
        sf.save()
    for s, spec in case["faults"].items():
        vs = g.servers[s]
        kind = spec["kind"]
        if kind == "raise-all":
            vs.add_fault("raise")
        elif kind == "raise-nth":
            vs.add_fault("raise", method=spec["method"], nth=spec["nth"])
        elif kind == "disconnect-nth":
            vs.add_fault("disconnect", method=spec["method"], nth=spec["nth"])
        elif kind == "dead":
            vs.connected = False
            vs.zombie = rng.random() < .6
        elif kind == "delay":
            vs.add_fault("delay", delay=spec["delay"], method=spec.get("method"))
        elif kind == "error-staggered":
            vs.add_fault("raise", method=spec["method"], delay=spec["delay"], delay_step=spec["delay_step"])
        elif kind == "delay-nth":
            vs.add_fault("delay", method=spec["method"], nth=spec["nth"], delay=spec["delay"])
        elif kind == "hang-nth":
            vs.add_fault("hang", method=spec["method"], nth=spec["nth"])
    c = g.make_client(k=case["k"], happy=1, n=case["n"], max_segment_size=case["segsize"])
    return g, c, cap, data
