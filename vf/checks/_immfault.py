"""Shared fault-schedule workload for C03 (availability) and C46 (termination)."""
import os

from vf import env  # noqa

SHARE_STATES = ["good", "good", "good", "missing", "destroyed", "light", "truncated-header"]
SERVER_FAULTS = ["none", "none", "none", "raise-all", "raise-nth", "disconnect-nth", "dead", "delay", "delay-nth",
                 "hang-nth"]


def build(rng, allow_hang=True, maxn=6):
    """Generate a case description (pure data)."""
    n = rng.choice([1, 2, 3, 3, 4, 5, maxn])
    k = rng.randint(1, n)
    segsize = rng.choice([32, 64, 128, 1024])
    size = max(56, rng.choice([56, 100, segsize * 2 + 1, segsize * 3, rng.randint(56, 3000)]))
    eff = max(1, ((min(segsize, size) + k - 1) // k) * k)
    while size // eff > 24:
        segsize *= 4
        eff = max(1, ((min(segsize, size) + k - 1) // k) * k)
    nservers = rng.randint(1, n + 3)
    layout = rng.choice(["spread", "spread", "random", "one-server", "dups"])
    placements = []   # (server, shnum, state)
    for sh in range(n):
        if layout == "spread":
            srvs = [sh % nservers]
        elif layout == "one-server":
            srvs = [0]
        elif layout == "dups":
            srvs = rng.sample(range(nservers), rng.randint(1, min(3, nservers)))
        else:
            srvs = [rng.randrange(nservers)]
        for s in srvs:
            placements.append([s, sh, rng.choice(SHARE_STATES)])
    mode = rng.random()
    if mode < .35:
        # make exactly k shares good, everything else bad in some way
        goodnums = set(rng.sample(range(n), k))
        for pl in placements:
            if pl[1] in goodnums:
                pl[2] = "good"
            elif pl[2] == "good":
                pl[2] = rng.choice(["missing", "destroyed", "light", "truncated-header"])
    elif mode < .55:
        # fewer than k usable
        goodnums = set(rng.sample(range(n), rng.randint(0, k - 1))) if k > 0 else set()
        for pl in placements:
            if pl[1] in goodnums:
                pl[2] = "good"
            else:
                pl[2] = rng.choice(["missing", "destroyed"])
    faults = {}
    for s in range(nservers):
        f = rng.choice(SERVER_FAULTS)
        if f == "hang-nth" and not allow_hang:
            f = "delay-nth"
        spec = {"kind": f}
        if f in ("raise-nth", "disconnect-nth", "delay-nth", "hang-nth"):
            spec["method"] = rng.choice(["get_buckets", "read", "read", None])
            spec["nth"] = rng.randint(1, 6)
        if f in ("delay", "delay-nth"):
            spec["delay"] = rng.choice([0.5, 5.0, 9.0, 11.0, 30.0, 120.0])
        faults[s] = spec
    if mode < .35 and rng.random() < .7:
        # servers holding the good shares are fault-free
        for (s, sh, st) in placements:
            if st == "good":
                faults[s] = {"kind": "none"}
    return dict(k=k, n=n, segsize=segsize, size=size, nservers=nservers, layout=layout,
                placements=[tuple(p) for p in placements], faults=faults)


def classify(case):
    """Ground truth: ('must-succeed' | 'must-fail' | 'open', details)."""
    k = case["k"]
    faults = case["faults"]
    good = set()
    maybe = set()
    for (s, sh, st) in case["placements"]:
        fk = faults[s]["kind"]
        if st == "good" and fk in ("none", "delay", "delay-nth"):
            good.add(sh)      # intact share on a server that answers every request (possibly late)
        definitely_bad = st in ("missing", "destroyed") or fk in ("dead", "raise-all")
        if not definitely_bad:
            maybe.add(sh)
    if len(good) >= k:
        return "must-succeed", {"good": sorted(good)}
    if len(maybe) < k:
        return "must-fail", {"maybe": sorted(maybe)}
    return "open", {"good": sorted(good), "maybe": sorted(maybe)}


def has_infinite_hang(case):
    return any(f["kind"] == "hang-nth" for f in case["faults"].values())


def materialize(case, rng, seed, profile):
    """Build the grid for a case.  Returns (grid, client, cap, plaintext)."""
    from vf.grid import VGrid
    from vf import imm
    from allmydata import uri
    p = dict(k=case["k"], n=case["n"], segsize=case["segsize"])
    data = imm.gen_data(rng, case["size"])
    key = rng.randbytes(16)
    cap, shares = imm.honest_shares(max(case["nservers"], 1), p, data, key)
    if len(shares) < case["n"]:
        raise RuntimeError("scratch upload incomplete")
    g = VGrid(nservers=case["nservers"], seed=seed, profile=profile, keep_log=False)
    si = uri.from_string(cap).get_storage_index()
    for (s, sh, st) in case["placements"]:
        if st == "missing":
            continue
        vs = g.servers[s]
        d = vs.sharedir(si)
        os.makedirs(d, exist_ok=True)
        path = os.path.join(d, "%d" % sh)
        with open(path, "wb") as f:
            f.write(shares[sh])
        if st == "good":
            continue
        sf = imm.ShareFile(path)
        if st == "destroyed":
            s0, e0 = sf.region("data")
            sf.write_at(s0, bytes((b ^ 0x5a) for b in sf.data()[s0:e0]))   # every block differs
        elif st == "light":
            for _ in range(rng.randint(1, 3)):
                sf.flip(rng.randrange(sf.data_len), 1 << rng.randrange(8))
        elif st == "truncated-header":
            sf.truncate_data(rng.choice([0, 3, 4, 0x23, 0x24, 0x30]))
        sf.save()
    for s, spec in case["faults"].items():
        vs = g.servers[s]
        kind = spec["kind"]
        if kind == "raise-all":
            vs.add_fault("raise")
        elif kind == "raise-nth":
            vs.add_fault("raise", method=spec["method"], nth=spec["nth"])
        elif kind == "disconnect-nth":
            vs.add_fault("disconnect", method=spec["method"], nth=spec["nth"])
        elif kind == "dead":
            vs.connected = False
            vs.zombie = rng.random() < .6
        elif kind == "delay":
            vs.add_fault("delay", delay=spec["delay"])
        elif kind == "delay-nth":
            vs.add_fault("delay", method=spec["method"], nth=spec["nth"], delay=spec["delay"])
        elif kind == "hang-nth":
            vs.add_fault("hang", method=spec["method"], nth=spec["nth"])
    c = g.make_client(k=case["k"], happy=1, n=case["n"], max_segment_size=case["segsize"])
    return g, c, cap, data
