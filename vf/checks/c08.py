"""C08 happiness value == maximum matching, independent of iteration order."""
META = {
    "level": 'exploration',
    "technique": 'runtime differential oracle: servers_of_happiness() vs independent Kuhn maximum matching over enumerated and random relations, re-run under permuted insertion orders and element types',
    "text": 'Every relation on up to 4x4 (thorough) share/server grids plus random relations up to 30x30, each evaluated in several dict/set insertion orders and with bytes/object server ids.',
    "note": "Trusts the matching model; PYTHONHASHSEED fixed so order permutations are the harness's own.",
}
import itertools
from vf import env  # noqa
from vf.models import happiness_of_sharemap

BUDGET = {"quick": 30, "thorough": 240}


def run(ck):
    from allmydata.util.happinessutil import servers_of_happiness
    ck.rule = ("sharemap: share -> set(server); exhaustive over all relations on <=SxP grid "
               "(quick 3x3 + sampled 4x4, thorough 4x4 complete) plus seeded random up to 30x30; "
               "distinct = distinct relation (as sorted edge list); non-trivial = at least one edge")
    rng = ck.rng("c08")

    class Srv(object):
        def __init__(self, n): self.n = n
        def __repr__(self): return "S%d" % self.n

    def check(edges, nsh, nsv, cls):
        sm = {}
        for (s, p) in edges:
            sm.setdefault(s, set()).add(p)
        want = happiness_of_sharemap(sm)
        variants = []
        variants.append(dict(sm))
        items = list(sm.items())
        for _ in range(3):
            rng.shuffle(items)
            variants.append({k: set(sorted(v, reverse=rng.random() < .5)) for k, v in items})
        # other element types: bytes server ids, objects
        objs = {}
        variants.append({k: set(b"srv%03d" % p for p in v) for k, v in items})
        variants.append({k: set(objs.setdefault(p, Srv(p)) for p in v) for k, v in items})
        # explicit empty sets are allowed in a sharemap
        if rng.random() < .3:
            v2 = dict(sm); v2[max(nsh, 1) + 7] = set()
            variants.append(v2)
        for i, v in enumerate(variants):
            got = servers_of_happiness(v)
            ck.mon("matching-compare")
            if got != want:
                ck.violation("happiness-not-max-matching" if i == 0 else "happiness-order-or-type-dependent",
                             "servers_of_happiness=%r, maximum matching=%r" % (got, want),
                             {"edges": sorted(edges), "variant": i})
        ck.case(cls, key=tuple(sorted(edges)), nontrivial=bool(edges),
                sample={"edges(share,server)": sorted(edges), "happiness": want})

    # exhaustive small
    dims = [(1, 1), (2, 2), (2, 3), (3, 2), (3, 3)]
    if ck.tier == "thorough":
        dims += [(3, 4), (4, 3), (4, 4)]
    idx = 0
    complete = True
    for (nsh, nsv) in dims:
        cells = [(s, p) for s in range(nsh) for p in range(nsv)]
        for mask in range(1 << len(cells)):
            idx += 1
            if not ck.mine(idx):
                continue
            if ck.out_of_time():
                complete = False
                break
            edges = [c for i, c in enumerate(cells) if mask >> i & 1]
            check(edges, nsh, nsv, "exhaustive-%dx%d" % (nsh, nsv))
    ck.exhaustive = False  # random part below is sampled
    ck.extra["exhaustive_small_complete"] = complete
    ck.extra["exhaustive_dims"] = ["%dx%d" % d for d in dims]
    # empty dict
    if servers_of_happiness({}) != 0:
        ck.violation("empty-map-nonzero", "servers_of_happiness({}) != 0")
    # sampled 4x4 (quick) and random large
    n = 600 if ck.tier == "quick" else 6000
    for i in range(n):
        if ck.out_of_time():
            break
        if i % 3 == 0:
            nsh, nsv = 4, 4
        else:
            nsh, nsv = rng.randint(1, 30), rng.randint(1, 30)
        dens = rng.choice([.05, .1, .2, .3, .5, .7, .9])
        edges = [(s, p) for s in range(nsh) for p in range(nsv) if rng.random() < dens]
        check(edges, nsh, nsv, "random")
    # directed: relations whose maximum matching needs LONG augmenting paths (seeded/C08-10: a search depth cut-off):
    # path graphs share-server-share-... with 2..12 shares under random relabelings and insertion orders, bare and
    # with a few extra edges; every vertex is matched in the maximum matching, so the last augmenting path re-routes
    # the whole chain when the greedy choices go the wrong way.
    for rep in range(40 if ck.tier == "quick" else 400):
        for nsh in range(2, 13):
            if ck.out_of_time():
                break
            shares = list(range(nsh)); servers = list(range(nsh))
            rng.shuffle(shares); rng.shuffle(servers)
            edges = set()
            for i in range(nsh):
                edges.add((shares[i], servers[i]))
                if i + 1 < nsh:
                    edges.add((shares[i + 1], servers[i]))
            for _ in range(rng.choice([0, 0, 1, 2])):
                edges.add((rng.randrange(nsh), rng.randrange(nsh)))
            ck.hit("long-augmenting-chain")
            check(sorted(edges), nsh, nsh, "chain")
    ck.require_reach("long-augmenting-chain")
    ck.require_monitor("matching-compare")
