"""Harness-side ed25519 keys and base32, independent of allmydata (stdlib + cryptography only).

Used by C32/C33/C34 to build keys deterministically from a ck.rng() stream and to
decide "does this signature verify" without going through allmydata.crypto.
"""
import base64

from cryptography.exceptions import InvalidSignature
from cryptography.hazmat.primitives.asymmetric.ed25519 import Ed25519PrivateKey, Ed25519PublicKey
from cryptography.hazmat.primitives.serialization import Encoding, PublicFormat


def b32(b):
    """tahoe's base32: RFC 3548 alphabet, lower case, no padding."""
    return base64.b32encode(b).rstrip(b"=").lower()


def unb32(s):
    s = s.upper()
    return base64.b32decode(s + b"=" * (-len(s) % 8))


class Key(object):
    """A deterministic ed25519 key pair."""

    def __init__(self, rng, label=""):
        self.label = label
        self.seed = bytes(rng.getrandbits(8) for _ in range(32))
        self.sk = Ed25519PrivateKey.from_private_bytes(self.seed)
        self.vk = self.sk.public_key()
        self.raw_pub = self.vk.public_bytes(Encoding.Raw, PublicFormat.Raw)
        self.pub_b32 = b32(self.raw_pub)              # 52 chars
        self.pub_s = b"pub-v0-" + self.pub_b32        # string_from_verifying_key form
        self.v0 = b"v0-" + self.pub_b32               # introducer key_s / server_id form
        self.priv_s = b"priv-v0-" + b32(self.seed)

    def sign(self, data):
        return self.sk.sign(data)

    def __repr__(self):
        return "<Key %s %s>" % (self.label, self.pub_b32[:8].decode())


def raw_verify(raw_pub, sig, data):
    """Independent signature decision (cryptography only)."""
    try:
        Ed25519PublicKey.from_public_bytes(raw_pub).verify(sig, data)
        return True
    except (InvalidSignature, ValueError):
        return False
