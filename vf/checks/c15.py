"""C15 capability strings round-trip and parse canonically."""
META = {
    "level": 'exploration',
    "technique": 'runtime oracle on the real uri.from_string / *URI.init_from_string / to_string: generated caps of all 18 known kinds + UnknownURI and directed string mutations, judged by an independent anchored grammar and an independent serializer',
    "text": 'Builds every cap kind of allmydata.uri through its constructor with random and boundary keys/hashes/k/N/size (0, 2^32+-1, 2^64, 10^30), checks to_string() against an independent formatter and from_string(to_string()) for equality and class; then feeds the real parsers (uri.from_string with str and bytes, with and without deep_immutable, and the init_from_string of the matching and of foreign classes) with several hundred directed mutations per cap (insert/delete/replace at every position class, trailing newline/CRLF/blank/:junk, every possible last base32 character, length +-1, upper-case, leading zeros, signs, underscores, non-ASCII digits, single/doubled/mixed ro./imm. prefixes, swapped kind headers, MDMF extensions, random printable strings). Every accepted string must re-serialize to itself (one alleged prefix stripped, MDMF extension fields excepted), must be of the class its header names, and must lie inside the independent grammar. Sampled, not exhaustive.',
    "note": 'Trusts the ~60-line grammar/serializer in vf/checks/_caps.py (re-typed from the cap format specification; cross-checked against the real serializer on every generated cap). A single leading ro./imm. is treated as a context marker, not as part of the cap string.',
}
LEVEL = "exploration"
BUDGET = {"quick": 40, "thorough": 240}
SHARDS = {"quick": 1, "thorough": 6}

from vf import env  # noqa
from vf.checks import _caps as M


# ---------------------------------------------------------------- mutations
TRAIL = [b"\n", b"\r\n", b"\r", b" ", b"\t", b"\x00", b":junk", b"junk", b":", b"\n\n", b" \n",
         b"\nURI:LIT:", b"=", b"\x0b", b"\x0c", b"\x1c", b"\x85", b"\xc2\x85", b"\xe2\x80\xa8", b":0", b"0"]
LEAD = [b" ", b"\n", b"x", b"\x00", b"\xef\xbb\xbf", b":"]
INS = [b"a", b"A", b"0", b"8", b":", b" ", b"\n", b"=", b"\x00", b"\xc3\xa9", b"-", b"7"]
REP = [b"A", b"1", b"8", b"0", b":", b"-", b"_", b"a", b"7", b"\n"]
PRE = [b"ro.", b"imm.", b"ro.ro.", b"imm.imm.", b"ro.imm.", b"imm.ro.", b"RO.", b"Imm.", b"ro", b"imm",
       b"ro.:", b" ro.", b"ro. ", b"ro.\n", b"imm.ro.imm."]
EXT = [b":3:131073", b":", b"::", b":I COME FROM THE FUTURE", b":3:131073\n", b":\n", b":\xff\xfe", b":3", b":03:1"]


def _int_variants(d):
    """spellings of the decimal bytes `d` that are NOT the canonical one."""
    v = int(d)
    out = [b"0" + d, b"00" + d, b"+" + d, b"-" + d, b" " + d, d + b" ", b"\t" + d,
           (d[:1] + b"_" + d[1:]) if len(d) > 1 else d + b"_0",
           "".join(chr(0x660 + int(c)) for c in d.decode()).encode("utf-8"),     # arabic-indic digits
           "".join(chr(0xff10 + int(c)) for c in d.decode()).encode("utf-8"),    # fullwidth digits
           b"0x%x" % v, b"0o%o" % v, d + b".0", d + b"e0", d + b"L", b"", b"0" * 40 + d, d + b"\n"]
    if v == 0:
        out += [b"-0", b"+0", b"00"]
    return out


def mutations(kind, s, rng, light=False):
    """Yield (mutation-class, bytes).  `s` is a canonical cap string of `kind`."""
    yield "canonical", s
    for t in TRAIL:
        yield "trailing", s + t
    for t in LEAD:
        yield "leading", t + s
    for p in PRE:
        yield "alleged-prefix", p + s
        yield "alleged-prefix+newline", p + s + b"\n"
    for e in EXT:
        yield "mdmf-extension", s + e
        yield "mdmf-extension", b"ro." + s + e
    yield "case", s.upper()
    yield "case", s.lower()
    yield "case", s[:len(kind.prefix)].lower() + s[len(kind.prefix):]
    yield "case", s.swapcase()
    body = s[len(kind.prefix):]
    for k2 in M.KINDS:
        if k2 is not kind:
            yield "swapped-header", k2.prefix + body
    yield "swapped-header", b"URI:" + body
    yield "swapped-header", b"URI:" + kind.prefix + body
    yield "swapped-header", kind.prefix + kind.prefix + body
    yield "swapped-header", kind.prefix[:-1] + body
    yield "swapped-header", kind.prefix[:-1] + b"-" + body
    yield "swapped-header", kind.prefix[:-1] + b"-Verifier:" + body

    # field layout
    fields = []           # (start, end) in s
    pos = len(kind.prefix)
    for f in body.split(b":"):
        fields.append((pos, pos + len(f)))
        pos += len(f) + 1
    # position classes
    P = {0, 1, len(kind.prefix) // 2, len(kind.prefix) - 1, len(kind.prefix), len(s)}
    for (a, b) in fields:
        P.update(x for x in (a, a + 1, (a + b) // 2, b - 1, b) if 0 <= x <= len(s))
    P = sorted(P)
    if light:
        P = P[::3]
    for p in P:
        for c in INS:
            yield "insert", s[:p] + c + s[p:]
        if p < len(s):
            yield "delete", s[:p] + s[p + 1:]
            for c in REP:
                if s[p:p + 1] != c:
                    yield "replace", s[:p] + c + s[p + 1:]
            yield "replace", s[:p] + s[p:p + 1].upper() + s[p + 1:]
            if p + 1 < len(s):
                yield "transpose", s[:p] + s[p + 1:p + 2] + s[p:p + 1] + s[p + 2:]
    # per field
    for i, (a, b) in enumerate(fields):
        f = s[a:b]
        is_int = kind.shape == "chk" and i >= 2
        if is_int:
            for v in _int_variants(f):
                yield "integer-spelling", s[:a] + v + s[b:]
        else:
            if f:
                for c in M.B32 + b"0189=AQ":
                    yield "base32-tail", s[:b - 1] + bytes([c]) + s[b:]
            for extra in (b"a", b"aa", b"aaa", b"q", b"y", b"aaaaaaaa", b"7"):
                yield "base32-length", s[:b] + extra + s[b:]
            for cut in (1, 2, 3, 8):
                if len(f) >= cut:
                    yield "base32-length", s[:b - cut] + s[b:]
            if len(f) > 4:
                m = (a + b) // 2
                yield "base32-length", s[:m] + s[m + 1:]
                yield "base32-length", s[:m] + b"b" + s[m:]
                yield "case", s[:a] + f.upper() + s[b:]
                yield "base32-alphabet", s[:m] + b"0" + s[m + 1:]
                yield "base32-alphabet", s[:m] + b"1" + s[m + 1:]
                yield "base32-alphabet", s[:m] + b"8" + s[m + 1:]
                yield "base32-alphabet", s[:m] + b"=" + s[m + 1:]
        # structure
        yield "structure", s[:a] + s[b + 1:] if b < len(s) else s[:max(a - 1, 0)]   # drop field
        yield "structure", s[:a] + f + b":" + f + s[b:]                               # duplicate field
        yield "structure", s[:a] + s[b:]                                              # empty field
    if len(fields) >= 2:
        (a0, b0), (a1, b1) = fields[0], fields[1]
        yield "structure", s[:a0] + s[a1:b1] + b":" + s[a0:b0] + s[b1:]              # swap first two fields
    if len(fields) == 5:
        (a2, b2), (a3, b3) = fields[2], fields[3]
        if s[a2:b2] != s[a3:b3]:
            yield "structure-valid", s[:a2] + s[a3:b3] + b":" + s[a2:b2] + s[b3:]    # swap k,N: another valid cap
    # random noise
    n = 6 if light else 30
    for _ in range(n):
        p = rng.randrange(0, len(s) + 1)
        r = rng.random()
        c = bytes([rng.choice(b"abcdefghijklmnopqrstuvwxyz234567ABC0189:-_. \n\t=+/%")])
        if r < .4:
            yield "random-edit", s[:p] + c + s[p:]
        elif r < .7 and p < len(s):
            yield "random-edit", s[:p] + c + s[p + 1:]
        elif p < len(s):
            q = rng.randrange(p, min(len(s), p + 4) + 1)
            yield "random-edit", s[:p] + s[q:]


PRINTABLE = bytes(range(32, 127))


def random_strings(rng, n):
    for _ in range(n):
        r = rng.random()
        if r < .25:
            yield bytes(rng.choice(PRINTABLE) for _ in range(rng.randrange(0, 80)))
        elif r < .45:
            yield b"URI:" + bytes(rng.choice(PRINTABLE) for _ in range(rng.randrange(0, 80)))
        else:
            k = rng.choice(M.KINDS)
            parts = []
            for _f in range(rng.choice([0, 1, 2, 2, 3, 5, 5, 6])):
                t = rng.random()
                if t < .35:
                    parts.append(bytes(rng.choice(M.B32) for _ in range(rng.choice([0, 1, 2, 25, 26, 26, 27, 51, 52, 52, 53]))))
                elif t < .5:
                    parts.append(M.b32enc(M.rand_bytes(rng, rng.choice([16, 32, 1, 5, 15, 17]))))
                elif t < .8:
                    parts.append(b"%d" % M.rand_int(rng))
                else:
                    parts.append(bytes(rng.choice(PRINTABLE) for _ in range(rng.randrange(0, 12))))
            pre = rng.choice([b"", b"", b"", b"ro.", b"imm."])
            yield pre + k.prefix + b":".join(parts)


# ---------------------------------------------------------------- classifier
def _isdigits(b):
    return len(b) > 0 and all(48 <= c <= 57 for c in b)


def classify(kind, m0, t):
    """Mechanism classes for: parser accepted `m0` (alleged prefix already stripped) as `kind`
    but to_string() gave t != m0.  Deterministic; returns a sorted list of keys ('SKIP:' = don't care)."""
    junk = "chk-verifier-unanchored" if kind.name in ("CHK-Verifier", "DIR2-CHK-Verifier") else "accepts-trailing-junk"
    if m0 == t + b"\n":
        return ["accepts-trailing-newline"]
    if kind.shape == "mdmf" and m0.startswith(t + b":"):
        return ["SKIP:mdmf-extension"]
    keys = set()
    xs, ts = m0.split(b":"), t.split(b":")
    if len(xs) < len(ts):
        return ["accepts-nonroundtrip-other"]
    if len(xs) > len(ts):
        keys.add(junk)            # whole extra ':'-separated fields were dropped
        xs = xs[:len(ts)]
    for i, (xf, tf) in enumerate(zip(xs, ts)):
        if xf == tf:
            continue
        if i == len(ts) - 1:
            # the last field may carry a dropped tail
            if xf.endswith(b"\n") and len(m0.split(b":")) == len(ts):
                keys.add("accepts-trailing-newline")
                xf = xf[:-1]
            if _isdigits(tf):
                j = 0
                while j < len(xf) and 48 <= xf[j] <= 57:
                    j += 1
                if j < len(xf):
                    keys.add(junk)
                    xf = xf[:j]
            elif xf.startswith(tf):
                keys.add(junk)
                xf = tf
            if xf == tf:
                continue
        if _isdigits(xf) and _isdigits(tf) and int(xf) == int(tf):
            keys.add("accepts-noncanonical-integer")
            continue
        dx, dt = M.b32dec_lenient(xf), M.b32dec_lenient(tf)
        if dx is not None and dx == dt:
            keys.add("accepts-noncanonical-base32")
            continue
        keys.add("accepts-nonroundtrip-other")
    return sorted(keys) or ["accepts-nonroundtrip-other"]


WHAT = {
    "accepts-trailing-newline": "a cap string followed by '\\n' is accepted as a known kind and re-serializes without the newline",
    "accepts-noncanonical-integer": "an integer field with leading zeros is accepted as a known kind and re-serializes differently",
    "chk-verifier-unanchored": "a CHK verify-cap followed by arbitrary trailing bytes is accepted and the tail silently dropped",
    "accepts-trailing-junk": "a cap string followed by junk is accepted as a known kind and the junk dropped",
    "accepts-noncanonical-base32": "a base32 field with non-canonical spelling is accepted and re-serializes differently",
    "accepts-nonroundtrip-other": "a string accepted as a known kind does not re-serialize to itself",
    "parsed-as-different-kind": "a string is parsed as a different kind than its 'URI:<kind>:' header names",
    "outside-grammar-accepted": "a string outside the independent grammar is accepted as a known kind (and round-trips)",
    "canonical-string-rejected": "a canonical cap string in a plain context is not recognised as its kind",
    "unknown-string-resolved-to-known-node": "NodeMaker.create_from_cap turns a string that the parser reports as unknown into a known node",
    "node-verdict-depends-on-cache": "NodeMaker.create_from_cap answers the same string differently depending on what was resolved before",
    "consistent-prefix-rejected": "a canonical cap under an alleged ro./imm. prefix or deep-immutable context that it already satisfies is not recognised as its kind",
    "unknown-changes-string": "UnknownURI.to_string() differs from the string that was parsed",
    "roundtrip-not-equal": "from_string(c.to_string()) is not equal to c",
    "roundtrip-different-class": "from_string(c.to_string()) is of another class than c",
    "serialization-differs-from-format": "to_string() of a constructed cap differs from the specified format",
    "from-string-returns-non-cap": "from_string returned something without to_string()",
}


def run(ck):
    from allmydata import uri
    ck.rule = ("per kind (18 known + unknown) several caps built through the real constructors from boundary-biased random "
               "fields; for each cap ~600-900 directed mutations of its canonical string (see META) are parsed by "
               "uri.from_string (bytes and str, deep_immutable False/True) and by init_from_string of the header's class "
               "and of two foreign classes; plus random printable / pseudo-structured strings. distinct = distinct "
               "(api, input string); non-trivial = input differs from a canonical cap string")
    ck.assumptions.append("one leading 'ro.'/'imm.' is a context marker that from_string strips by design; "
                          "the remainder is what must re-serialize exactly")
    ck.assumptions.append("MDMF extension = ':' followed by anything after the fingerprint (test_mdmf_cap_ignore_extensions)")
    rng = ck.rng("c15")
    best = {}    # key -> [count, len, what, witness]
    by_kind = {}  # key -> set of class names the lenient accept was seen for

    def bad(key, detail, witness):
        if witness.get("parsed_as"):
            by_kind.setdefault(key, set()).add(witness["parsed_as"])
        size = len(repr(witness.get("input", "")))
        e = best.get(key)
        if e is None:
            best[key] = [1, size, detail, witness]
        else:
            e[0] += 1
            if size < e[1]:
                e[1], e[2], e[3] = size, detail, witness

    def show(b):
        return b.decode("latin-1") if isinstance(b, bytes) else b

    def judge(api, given, as_bytes, res, exc, deep, mclass):
        """The oracle for one parser call.  `given` is what was passed, `as_bytes` its byte form."""
        ck.mon("accept-implies-exact-reserialization")
        pre, m0 = M.strip_alleged(as_bytes) if api == "from_string" else (b"", as_bytes)
        gk, gmode = M.grammar(m0)
        wit = {"api": api, "input": show(as_bytes), "input_type": type(given).__name__,
               "deep_immutable": deep, "mutation": mclass}
        if exc is not None:
            ck.hit("rejected-by-exception")
            if api == "from_string":
                ck.observe("from_string-raised-" + type(exc).__name__)
            return
        if not hasattr(res, "to_string"):
            bad("from-string-returns-non-cap", "%s(%r) returned %r" % (api, given, res), wit)
            return
        cname = type(res).__name__
        try:
            t = res.to_string()
        except Exception as e:   # noqa -- a verdict, not a harness failure (seeded/C15-9)
            wit["parsed_as"] = cname
            bad("parsed-cap-does-not-serialise", "%s(%r) returned a %s whose to_string() raised %s"
                % (api, given, cname, type(e).__name__), wit)
            return
        wit["parsed_as"] = cname
        wit["to_string"] = show(t)
        if cname == "UnknownURI":
            ck.hit("reported-unknown")
            if res.get_error() is not None:
                ck.hit("unknown-with-constraint-error")
            if t != as_bytes:
                bad("unknown-changes-string", "UnknownURI.to_string()=%r for input %r" % (t, as_bytes), wit)
            if gmode == "strict" and api == "from_string":
                if pre == b"" and not deep:
                    bad("canonical-string-rejected", "%r (inside the grammar of %s) came back as UnknownURI"
                        % (as_bytes, gk.name), wit)
                elif satisfies(gk, pre, deep):
                    # the prefix / context alleges nothing this kind does not already guarantee
                    bad("consistent-prefix-rejected", "%r (deep_immutable=%r): a %s cap already satisfies the alleged "
                        "constraint, yet came back as UnknownURI" % (as_bytes, deep, gk.name), wit)
                else:
                    ck.skip("canonical-cap-unknown-in-constrained-context")
            return
        if cname not in M.KNOWN_CLASSES:
            bad("from-string-returns-non-cap", "%s(%r) returned a %s" % (api, given, cname), wit)
            return
        ck.hit("accepted-as-known-kind")
        if gk is None or gk.cls != cname:
            bad("parsed-as-different-kind", "%r parsed as %s; header names %s"
                % (as_bytes, cname, gk.name if gk else None), wit)
            return
        if t == m0:
            if gmode != "strict":
                bad("outside-grammar-accepted", "%r accepted as %s and round-trips, but is outside the grammar"
                    % (as_bytes, cname), wit)
            elif pre:
                ck.hit("alleged-prefix-stripped")
            return
        for key in classify(gk, m0, t):
            if key.startswith("SKIP:"):
                ck.skip(key[5:])
                ck.hit("mdmf-extension-dropped")
            else:
                ck.hit("lenient-accept:" + key)
                bad(key, "%s(%r) -> %s whose to_string() is %r" % (api, show(as_bytes), cname, show(t)), wit)

    def satisfies(kind, pre, deep):
        """Does every cap of `kind` already meet what prefix `pre` / deep_immutable allege?
        ro. alleges 'not writeable'; imm. and deep_immutable allege 'not writeable and not mutable'
        (verify caps are not mutable objects: is_mutable() is False for them)."""
        readonly = kind.level != "w"
        immutable = (not kind.mutable) or kind.level == "v"
        if deep or pre == M.IMM_PREFIX:
            return readonly and immutable
        if pre == M.RO_PREFIX:
            return readonly
        return True

    def call(fn, *a, **kw):
        try:
            return fn(*a, **kw), None
        except Exception as e:   # noqa
            return None, e

    def probe(kind, m, mclass, light):
        """Run every parser entry point on the byte string m."""
        nontriv = mclass != "canonical"
        res, exc = call(uri.from_string, m)
        judge("from_string", m, m, res, exc, False, mclass)
        ck.case(mclass, key=("fs", m), nontrivial=nontriv)
        if not light:
            res, exc = call(uri.from_string, m, deep_immutable=True)
            judge("from_string", m, m, res, exc, True, mclass)
            ck.case(mclass, key=("fsd", m), nontrivial=nontriv)
            try:
                u = m.decode("utf-8")
            except UnicodeDecodeError:
                u = None
            if u is not None:
                res, exc = call(uri.from_string, u)
                judge("from_string", u, m, res, exc, False, mclass)
                ck.case(mclass, key=("fsu", m), nontrivial=nontriv)
                ck.hit("str-input")
        # the class named by the header, and two foreign classes
        pre, m0 = M.strip_alleged(m)
        hk = M.kind_of_prefix(m0) or kind
        targets = [hk] if light else [hk, kind, M.KINDS[(M.KINDS.index(kind) + 3) % len(M.KINDS)],
                                      M.KINDS[(M.KINDS.index(kind) + 9) % len(M.KINDS)]]
        seen = set()
        for tk in targets:
            if tk is None or tk.name in seen:
                continue
            seen.add(tk.name)
            cls = getattr(uri, tk.cls)
            for arg in ((m, m0) if pre and not light else (m,)):
                res, exc = call(cls.init_from_string, arg)
                judge(tk.cls + ".init_from_string", arg, arg, res, exc, False, mclass)
                if exc is None and type(res).__name__ != tk.cls:
                    bad("parsed-as-different-kind", "%s.init_from_string(%r) returned a %s"
                        % (tk.cls, arg, type(res).__name__), {"input": show(arg)})
                ck.case(mclass, key=("ifs", tk.name, arg), nontrivial=nontriv)

    # ---- (a) generated caps: serialization, round trip
    nspec = 12 if ck.tier == "quick" else 150
    idx = 0
    for round_ in range(nspec):
        for kind in M.KINDS:
            idx += 1
            if not ck.mine(idx):
                continue
            if ck.out_of_time():
                break
            fields = M.rand_fields(rng, kind, minimal=(round_ == 0))
            want = M.fmt(kind, fields)
            c, exc = call(M.build, uri, kind, fields)
            if exc is None:
                s, exc = call(c.to_string)
            if exc is not None:
                # an exception here is a verdict, not a harness failure (seeded/C15-9: zero-length literal cap)
                ck.mon("roundtrip")
                bad("valid-cap-does-not-serialise", "%s built from valid fields: constructor/to_string raised %s"
                    % (kind.cls, type(exc).__name__), {"kind": kind.name, "fields": fields, "format": show(want)})
                r, exc2 = call(uri.from_string, want)
                if exc2 is None:
                    _, exc3 = call(r.to_string)
                    if exc3 is not None:
                        bad("parsed-cap-does-not-serialise", "from_string(%r).to_string() raised %s"
                            % (want, type(exc3).__name__), {"input": show(want)})
                ck.case("generated", key=("gen-exc", kind.name, want), nontrivial=True)
                continue
            wit = {"kind": kind.name, "fields": fields, "to_string": show(s)}
            ck.mon("roundtrip")
            if s != want:
                bad("serialization-differs-from-format", "%s.to_string() = %r, format says %r" % (kind.cls, s, want), wit)
            if type(c).__name__ != kind.cls:
                bad("roundtrip-different-class", "constructor gave %s" % type(c).__name__, wit)
            for inp in (s, s.decode("ascii")):
                r, exc = call(uri.from_string, inp)
                if exc is not None or type(r) is not type(c):
                    bad("roundtrip-different-class", "from_string(%r) -> %s, wanted %s"
                        % (inp, type(exc or r).__name__, kind.cls), dict(wit, input=show(s)))
                elif not (r == c) or (r != c) or r.to_string() != s or hash(r) != hash(c):
                    bad("roundtrip-not-equal", "from_string(%r) != original (%r)" % (inp, r.to_string()),
                        dict(wit, input=show(s)))
            r, exc = call(getattr(uri, kind.cls).init_from_string, s)
            if exc is not None or type(r) is not type(c):
                bad("roundtrip-different-class", "%s.init_from_string(%r) -> %s" % (kind.cls, s, type(exc or r).__name__),
                    dict(wit, input=show(s)))
            elif not (r == c) or r.to_string() != s:
                bad("roundtrip-not-equal", "init_from_string(%r) != original" % (s,), dict(wit, input=show(s)))
            # the same round trip under every alleged prefix / context that the cap ALREADY satisfies
            ctxs = []
            if c.is_readonly():
                ctxs.append((b"ro.", False))
                if not c.is_mutable():
                    ctxs += [(b"imm.", False), (b"", True), (b"ro.", True), (b"imm.", True)]
            if (c.is_readonly(), not c.is_mutable()) != (kind.level != "w", (not kind.mutable) or kind.level == "v"):
                bad("roundtrip-not-equal", "%s reports is_readonly()=%r is_mutable()=%r, kind table disagrees"
                    % (kind.cls, c.is_readonly(), c.is_mutable()), wit)
            for pre, deep in ctxs:
                for inp in (pre + s, (pre + s).decode("ascii")):
                    ck.mon("roundtrip-under-consistent-prefix")
                    ck.hit("consistent-prefix:" + (pre.decode() or "none") + ("+deep" if deep else ""))
                    r, exc = call(uri.from_string, inp, deep_immutable=deep)
                    w2 = dict(wit, input=show(pre + s), deep_immutable=deep, input_type=type(inp).__name__,
                              parsed_as=type(exc or r).__name__)
                    if exc is not None or type(r) is not type(c):
                        bad("consistent-prefix-rejected",
                            "from_string(%r, deep_immutable=%r) -> %s; a %s already satisfies that constraint and must "
                            "parse back as itself" % (show(pre + s), deep, type(exc or r).__name__, kind.cls), w2)
                    elif not (r == c) or (r != c) or r.to_string() != s:
                        bad("roundtrip-not-equal", "from_string(%r, deep_immutable=%r) != original (%r)"
                            % (show(pre + s), deep, show(r.to_string())), w2)
                    ck.case("generated-cap-prefixed", key=("genp", pre, deep, s, type(inp).__name__), nontrivial=True)
            big = any(isinstance(f, int) and f >= 2 ** 32 for f in fields)
            if big:
                ck.hit("large-integer-field")
            ck.case("generated-cap", key=("gen", s), nontrivial=True,
                    sample={"kind": kind.name, "cap": show(s)})
            # ---- (b)/(c) mutations of this cap
            light = round_ >= (4 if ck.tier == "quick" else 40)
            for mclass, m in mutations(kind, s if want == s else want, rng, light=light):
                probe(kind, m, mclass, light)
                ck.hit("mutation:" + mclass)

    # ---- the same prefix table through NodeMaker.create_from_cap, cold and with warm caches
    # A string that from_string reports as unknown must also be an unknown NODE, and the verdict for a string
    # must not depend on what the client resolved before (the unprefixed cap still being referenced, or the
    # prefixed one resolved first).  NodeMaker needs no grid: nodes are lazy.
    from allmydata.nodemaker import NodeMaker

    def mk():
        return NodeMaker(None, None, None, None, None, {"k": 3, "n": 10}, None, None)

    def sig(n):
        """what a caller can see of the node's identity and authority"""
        def g(name):
            f = getattr(n, name, None)
            try:
                return f() if f else None
            except AssertionError:
                return None
        return (type(n).__name__, bool(g("is_unknown")), g("get_uri"), g("get_write_uri"), g("get_readonly_uri"))

    NM_PREFIXES = [b"", b"ro.", b"imm.", b"ro.ro.", b"imm.ro."]
    nnm = 3 if ck.tier == "quick" else 20
    for round_ in range(nnm):
        for kind in M.KINDS:
            idx += 1
            if not ck.mine(idx) and round_ >= 1:
                continue
            if ck.out_of_time():
                break
            s = M.fmt(kind, M.rand_fields(rng, kind, minimal=False))
            for pre in NM_PREFIXES:
                for deep in (False, True):
                    P = pre + s
                    cap, exc = call(uri.from_string, P, deep_immutable=deep)
                    parser_unknown = exc is None and type(cap).__name__ == "UnknownURI"
                    for slot, args in (("rw", (P, None)), ("ro", (None, P))):
                        wit = {"kind": kind.name, "input": show(P), "deep_immutable": deep, "slot": slot,
                               "parser_says": type(exc or cap).__name__}
                        cold, exc_c = call(lambda: mk().create_from_cap(args[0], args[1], deep_immutable=deep))
                        if exc_c is not None:
                            ck.observe("create_from_cap-raised-" + type(exc_c).__name__)
                            continue
                        results = [("cold", cold)]
                        # warm 1: the plain cap (and its plain-context siblings) resolved first and still referenced
                        nm = mk()
                        held = [call(nm.create_from_cap, s)[0], call(nm.create_from_cap, None, s)[0],
                                call(lambda: nm.create_from_cap(s, None, deep_immutable=True))[0]]
                        results.append(("after the unprefixed cap was resolved and is still referenced",
                                        call(lambda: nm.create_from_cap(args[0], args[1], deep_immutable=deep))[0]))
                        # warm 2: every other spelling resolved first on the same NodeMaker
                        nm2 = mk()
                        held2 = [call(lambda q=q, d=d: nm2.create_from_cap(q + s, None, deep_immutable=d))[0]
                                 for q in NM_PREFIXES for d in (False, True) if (q, d) != (pre, deep)]
                        results.append(("after all other spellings were resolved",
                                        call(lambda: nm2.create_from_cap(args[0], args[1], deep_immutable=deep))[0]))
                        for when, n in results:
                            ck.mon("nodemaker-agrees-with-parser")
                            if n is None:
                                ck.observe("create_from_cap-raised-warm")
                                continue
                            if parser_unknown:
                                ck.hit("nodemaker:parser-unknown")
                                if sig(n)[1] is not True:
                                    bad("unknown-string-resolved-to-known-node",
                                        "create_from_cap(%r, slot %s, deep_immutable=%r) %s -> %s with uri %r write_uri %r, "
                                        "although from_string reports the string as unknown"
                                        % (show(P), slot, deep, when, sig(n)[0], show(sig(n)[2]), show(sig(n)[3])),
                                        dict(wit, when=when, parsed_as=sig(n)[0]))
                            if sig(n) != sig(cold):
                                bad("node-verdict-depends-on-cache",
                                    "create_from_cap(%r, slot %s, deep_immutable=%r): cold -> %r, %s -> %r"
                                    % (show(P), slot, deep, sig(cold)[:2], when, sig(n)[:2]),
                                    dict(wit, when=when, cold=[show(x) for x in sig(cold)], warm=[show(x) for x in sig(n)]))
                            elif when != "cold":
                                ck.hit("nodemaker:warm-lookup")
                        del held, held2
                        ck.case("nodemaker-prefix-table", key=("nm", P, deep, slot), nontrivial=True)

    # ---- UnknownURI objects
    for u0 in [b"", b"x-tahoe-future:abc", b"ro.x-tahoe-future:abc", b"imm.x-tahoe-future:abc", b"URI:FOO:bar",
               b"URI:", b"URI", b"http://example.org/", b"x-tahoe-future-test-writeable:1",
               b"ro.x-tahoe-future-test-writeable:1", b"imm.x-tahoe-future-test-mutable:1", b"\xff\xfe\x00",
               b"URI:CHK", b"URI:DIR2", b"ro.", b"imm.", b"ro.imm."]:
        c = uri.UnknownURI(u0)
        for deep in (False, True):
            r, exc = call(uri.from_string, c.to_string(), deep_immutable=deep)
            ck.mon("roundtrip")
            if exc is not None or type(r).__name__ != "UnknownURI":
                bad("roundtrip-different-class", "from_string(UnknownURI(%r).to_string()) -> %s"
                    % (u0, type(exc or r).__name__), {"input": show(u0)})
            elif r.to_string() != u0:
                bad("unknown-changes-string", "UnknownURI(%r) round-trips to %r" % (u0, r.to_string()), {"input": show(u0)})
            else:
                ck.skip("unknownuri-equality-is-identity")   # UnknownURI defines no __eq__: == is not judged
            ck.case("unknown-cap", key=("unk", u0, deep), nontrivial=True)

    # ---- random printable and pseudo-structured strings
    nrand = 4000 if ck.tier == "quick" else 300000
    for i, m in enumerate(random_strings(rng, nrand)):
        if not ck.mine(i):
            continue
        if ck.out_of_time():
            break
        probe(M.KINDS[i % len(M.KINDS)], m, "random-string", light=(i % 4 != 0))
        ck.hit("mutation:random-string")

    # non-str/bytes input must raise TypeError (API contract), never return a cap
    for junk in (None, 0, 3.5, [b"URI:LIT:"], bytearray(b"URI:LIT:")):
        r, exc = call(uri.from_string, junk)
        if exc is None and type(r).__name__ in M.KNOWN_CLASSES:
            bad("parsed-as-different-kind", "from_string(%r) returned a %s" % (junk, type(r).__name__), {"input": repr(junk)})
        ck.case("non-string-input", key=("ns", repr(junk)), nontrivial=True)

    for key in sorted(best):
        cnt, _sz, detail, wit = best[key]
        ck.violation(key, WHAT.get(key, key) + "; shortest witness: " + detail, wit)
        ck.violations[key]["count"] = cnt
    ck.extra["violation_seen_for_classes"] = {k: sorted(v) for k, v in sorted(by_kind.items())}
    ck.exhaustive = False
    ck.require_monitor("accept-implies-exact-reserialization", "roundtrip", "roundtrip-under-consistent-prefix")
    ck.require_reach("consistent-prefix:ro.", "consistent-prefix:imm.", "consistent-prefix:none+deep")
    ck.require_monitor("nodemaker-agrees-with-parser")
    ck.require_reach("nodemaker:parser-unknown", "nodemaker:warm-lookup")
    ck.require_reach("accepted-as-known-kind", "reported-unknown", "mutation:trailing", "mutation:integer-spelling",
                     "mutation:base32-tail", "mutation:base32-length", "mutation:alleged-prefix",
                     "mutation:mdmf-extension", "mutation:swapped-header", "mutation:insert", "mutation:delete",
                     "mutation:random-string", "str-input", "mdmf-extension-dropped", "large-integer-field",
                     "alleged-prefix-stripped")


# MUST_CATCH -- planted in scratch copies (VF_REPO), every one exits 1 with the listed key in addition to the
# three keys the unchanged tree already shows:
#   1. CHKFileURI.to_string swaps needed_shares/total_shares     -> serialization-differs-from-format, roundtrip-not-equal
#   2. BASE32STR_128bits accepts any base32 char in last place    -> accepts-noncanonical-base32 on the original tree; since
#      /repo a2701d0 (base32.a2b rejects non-zero padding bits) the string is refused by an AssertionError from a2b
#      instead -> rejected-by-exception, observation from_string-raised-AssertionError, exit 0 (masked, not a miss)
#   3. from_string sends 'URI:SSK-RO:' bodies to SSKVerifierURI   -> parsed-as-different-kind, roundtrip-different-class
#   4. WriteableSSKFileURI.STRING_RE loses its end anchor         -> accepts-trailing-junk
#   5. from_string strips repeated 'ro.' prefixes (while loop)    -> parsed-as-different-kind
#   6. LiteralFileURI.STRING_RE compiled with re.I                -> parsed-as-different-kind ('uri:lit:' header accepted)
#   7. constraint failures return UnknownURI(s) (prefix stripped) -> unknown-changes-string
#   8. NUMBER also accepts a leading '+'                          -> accepts-nonroundtrip-other
#  10. seeded C15-5: NodeMaker cache key built after stripping ro./imm. ('ro.'+write cap answered with the cached
#      read-write node once the plain cap is live)               -> unknown-string-resolved-to-known-node, node-verdict-depends-on-cache
#   9. seeded C15-1: 'URI:DIR2-MDMF-RO:' branch guarded by can_be_writeable instead of can_be_mutable
#      ('ro.'+readcap comes back UnknownURI)                       -> consistent-prefix-rejected
# Fix validation: with '\\Z' anchors on every STRING_RE and NUMBER=(0|[1-9][0-9]*) the check exits 0 (seeds 0 and 3).
