"""C18 read-only directory access is transitive."""
META = {
    "level": "exploration",
    "technique": "runtime monitoring of real directory trees on an in-process grid: authority oracle on every node reached through read-caps, behavioural write attempts, plaintext secret search and an independent rwcap decryptor",
    "text": "Builds random directory trees (depth <= 4) on a grid of real storage servers with CHK/LIT/SDMF/MDMF files, SDMF/MDMF/immutable/literal directories and unknown future caps (with and without ro./imm. prefixes, in rw and ro slots), linked through set_node/set_uri/create_subdirectory/initial children with write-caps, read-caps and 'no-write' metadata. The root is opened through its read-cap (fresh client and the building client) and immutable/inner directories through theirs; every transitively reached child must report read-only authority (is_readonly, get_write_uri None, cap string not a write cap, no writekey in any reported string) and real write attempts through such nodes must fail and leave the object unchanged. The plaintext of every mutable directory is downloaded with the read-cap only: no child write-cap or writekey occurs in it (this includes lone unknown-format caps handed over without ro./imm. prefix in the write-cap slot only, through set_uri, set_children, create_subdirectory(initial_children) and create_dirnode(initial_children): refused or accepted, the string must never be visible to readers), a child that the writer's client has on its access.blacklist and that the writer re-packs (metadata update, rename, re-link) stays equally protected, keystreams protecting different write-caps in one directory differ (known-plaintext: one known child write-cap must not reveal a sibling's), after the writer ran verifying checks / check-and-repair / deep-check on directories and then modified them through the same node objects, a reader fetches every share with slot_readv and locates the enc_privkey field through the offset table: the field must decrypt to the signing key under the writekey and must not be (or decrypt under read-key material to) a signing key whose hash chain ends in the read-cap's readkey; and a decryptor re-typed from the specification (tagged SHA-256d pair hash of salt and key, AES-128-CTR) reproduces every child write-cap from the writekey and none from anything derivable from the read-cap. Sampled, not exhaustive.",
    "note": "Trusts the `cryptography` AES primitive, the hash tags re-typed in _dir.py/_caps.py and the in-process wire; read-key-derived material is a fixed list of 11 derivations (tagged-hash and raw-key use), not all computable functions.",
}
LEVEL = "exploration"
BUDGET = {"quick": 40, "thorough": 240}
SHARDS = {"quick": 1, "thorough": 6}

from vf import env  # noqa
from vf.checks import _dir as D

MAXDEPTH = 4


class Obj(object):
    def __init__(self, kind, cap, node, content=None):
        self.kind, self.cap, self.node, self.content = kind, cap, node, content
        self.links = {}
        self.info = D.CapInfo(cap) if kind != "unknown" else None

    @property
    def is_dir(self):
        return self.kind.startswith("dir")


def writecap_allegation(pair):
    """An unknown cap handed over in the write-cap slot WITHOUT ro./imm. prefix is alleged to carry write authority
    (with a prefix, a lone cap is by documented rule treated as if given in the read-cap slot)."""
    rw = pair[0]
    return bool(rw) and not rw.startswith((b"ro.", b"imm."))


class Link(object):
    def __init__(self, obj, rw, how, md):
        self.obj, self.rw, self.how, self.md = obj, rw, how, md


def run(ck):
    from vf.grid import VGrid, KEYPOOL
    ck.rule = ("case = random tree (depth<=4, <=30 objects) of CHK/LIT/SSK/MDMF files, SDMF/MDMF/immutable/LIT directories and "
               "unknown caps x link method (node, rw+ro uri, rw-only, ro-only, write-cap in ro slot, ro.-prefixed, initial children, "
               "no-write metadata) x opener (fresh / same client; read-cap of root, of inner dirs, immutable dircaps) x "
               "transport profile; distinct = distinct tree signature; non-trivial = at least one link stored with a write-cap")
    i = 0
    ncases = 0
    while ck.more(min_cases=30):
        i += 1
        if not ck.mine(i):
            continue
        crng = ck.rng("case", i)
        KEYPOOL.rewind()
        g = VGrid(nservers=crng.choice([3, 4, 5]), seed=crng.getrandbits(32),
                  profile=crng.choice(["fifo", "per-server-fifo", "per-server-fifo", "free"]), keep_log=False)
        try:
            with ck.watchdog(180, "case %d" % i):
                try:
                    one_case(ck, g, crng, i)
                except D.OpFailed as e:
                    if e.st == "err":
                        ck.violation("directory-operation-failed-on-honest-grid",
                                     "no faults injected, valid arguments: %s" % str(e)[:300], {"case": i})
                    else:
                        ck.inconclusive_because("operation did not finish (%s) in case %d: %s" % (e.st, i, e.what))
                    ck.case("tree-aborted", key=i, nontrivial=False)
        finally:
            g.close()
        ncases += 1
        if ck.tier == "quick" and ncases >= 60:
            break
    ck.exhaustive = False
    ck.require_monitor("child-authority-via-readcap", "plaintext-secret-search", "writekey-recovers-rwcap",
                       "readkey-material-cannot-recover-rwcap", "write-attempt-through-ro-node")
    ck.require_reach("ro-walk-depth>=3", "ro-walk-mutable-file", "ro-walk-mutable-dir", "ro-walk-unknown",
                     "ro-walk-immutable-dir", "rw-walk-writeable-child", "no-write-link", "unknown-with-rw-stored",
                     "mdmf-directory", "sdmf-directory", "literal-directory", "immutable-root-walk",
                     "lone-unknown-writecap-add-attempted", "lone-unknown-writecap-via-set_uri", "lone-unknown-writecap-via-set_children",
                     "lone-unknown-writecap-via-initial-children", "blacklisted-child-repacked")
    ck.require_monitor("sibling-write-cap-known-plaintext", "share-fields-visible-to-readers")
    ck.require_reach("writer-verified-then-modified-same-node", "writekey-decrypts-signing-key")


def one_case(ck, g, rng, caseno):
    from allmydata.interfaces import IDirectoryNode, MustBeDeepImmutableError, CapConstraintError
    from allmydata.mutable.publish import MutableData
    from allmydata.mutable.common import NotWriteableError
    from allmydata.unknown import UnknownNode

    nserv = len(g.servers)
    c = g.make_client(k=rng.randint(1, min(3, nserv)), happy=1, n=nserv,
                      mutable_format=rng.choice([None, "SDMF", "MDMF"]))
    counter = [0]
    allobjs = []
    budget = [rng.choice([12, 20, 30])]

    def tag():
        counter[0] += 1
        return b"%d" % counter[0]

    def new_file(kind):
        node, data = D.make_file(g, c, rng, kind, tag())
        o = Obj(kind, node.get_uri(), node, data)
        allobjs.append(o)
        return o

    def new_unknown(immutable_only=False):
        t = tag()
        if immutable_only:
            ro = rng.choice([b"imm.", b"imm.", b"ro.", b""]) + rng.choice([b"x-tahoe-future:", b"lafs://from_the_future/"]) + b"R-" + t
            pair = (None, ro)
        elif rng.random() < .35:
            # a LONE cap of unknown format, no ro./imm. prefix, in the WRITE-cap slot only: the directory cannot attenuate
            # it; whatever the API does with it, readers must never get to see the string
            secret = "".join(rng.choice("abcdefghijklmnopqrstuvwxyz234567") for _ in range(16)).encode()
            pair = (rng.choice(D.UNKNOWN_SCHEMES[2:]) + b"LONE-W-" + secret + b"-" + t, None)
        else:
            pair = D.gen_unknown_pair(rng, t)
        o = Obj("unknown", None, None)
        o.pair = pair
        allobjs.append(o)
        return o

    def imm_child_node(o):
        if o.kind == "unknown":
            return c.create_node_from_uri(o.pair[0], o.pair[1])
        return o.node

    def build_imm_dir(depth):
        """immutable directory, children first."""
        budget[0] -= 1
        kids = {}
        want_lit = rng.random() < .3
        nk = rng.choice([0, 1]) if want_lit else rng.randint(1, 4)
        for _ in range(nk):
            if want_lit:
                kind = "lit-tiny"
            else:
                kinds = ["lit", "chk", "chk", "unknown"]
                if depth < MAXDEPTH and budget[0] > 0:
                    kinds += ["dir-imm", "dir-imm"]
                kind = rng.choice(kinds)
            name = D.nfc(D.gen_name(rng))
            if want_lit:
                name = rng.choice(["a", "b", "é"])
                o = Obj("lit", D.lit_cap(b"x"), c.create_node_from_uri(D.lit_cap(b"x")), b"x")
                allobjs.append(o)
            elif kind == "dir-imm":
                o = build_imm_dir(depth + 1)
            elif kind == "unknown":
                o = new_unknown(immutable_only=True)
            else:
                o = new_file(kind)
            kids[name] = (o, D.gen_metadata(rng))
        # an immutable directory must refuse mutable children (reach only; C19 judges it)
        d = c.create_immutable_dirnode({n: (imm_child_node(o), md) for n, (o, md) in kids.items()})
        node = D.ok(g, d, "create immutable dir")
        cap = node.get_uri()
        o = Obj("dir-lit" if cap.startswith(b"URI:DIR2-LIT:") else "dir-imm", cap, node)
        ck.hit("literal-directory" if o.kind == "dir-lit" else "immutable-directory")
        for n, (ko, md) in kids.items():
            o.links[n] = Link(ko, None, "immutable-initial", md)
        allobjs.append(o)
        return o

    def link_child(parent, name, o):
        """Attach model object o under parent (real API), return Link or None when the API refused."""
        md = D.gen_metadata(rng, allow_no_write=True) if rng.random() < .5 else None
        # replacing a link without giving metadata keeps the old link's metadata, 'no-write' included
        prev = parent.links.get(D.nfc(name))
        eff_md = md if md is not None else (prev.md if prev is not None else None)
        nowrite = bool(eff_md and eff_md.get("no-write"))
        if nowrite and md is None:
            ck.hit("no-write-inherited-from-replaced-link")
        pn = parent.node
        if o.kind == "unknown":
            rw, ro = o.pair
            lone = writecap_allegation(o.pair) and not ro
            via = rng.choice(["set_uri", "set_children", "initial-children"])
            if lone:
                ck.hit("lone-unknown-writecap-add-attempted")
                ck.hit("lone-unknown-writecap-via-" + via)
            slots = "both" if rw and ro else "rw" if rw else "ro"
            box = None
            try:
                if via == "set_uri":
                    D.ok(g, pn.set_uri(name, rw, ro, md), "set_uri unknown")
                elif via == "set_children":
                    D.ok(g, pn.set_children({name: (rw, ro) if md is None else (rw, ro, md)}), "set_children unknown")
                else:
                    # handed to a creation call: packed by NodeMaker.create_new_mutable_directory, not by Adder
                    ver = rng.choice([D.SDMF, D.MDMF])
                    sub = D.ok(g, pn.create_subdirectory(name, {"u": (c.create_node_from_uri(rw, ro), {})}, mutable_version=ver,
                                                         metadata=md), "create_subdirectory(initial unknown)")
                    box = Obj("dir-mdmf" if ver == D.MDMF else "dir-sdmf", sub.get_uri(), sub)
                    allobjs.append(box)
            except (D.OpFailed, CapConstraintError) as e:
                if isinstance(e, CapConstraintError) or e.check(CapConstraintError):
                    ck.hit("unknown-rejected")
                    if lone:
                        ck.hit("lone-unknown-writecap-refused")
                    return None
                raise
            if lone:
                ck.observe("lone-unknown-writecap-accepted")
            if box is not None:
                inner_rw = rw if (rw and ro) else None
                if inner_rw:
                    ck.hit("unknown-with-rw-stored")
                box.links["u"] = Link(o, inner_rw, "unknown-%s-initial-child" % slots, {})
                return Link(box, None if nowrite else box.cap, "create_subdirectory(initial unknown)" + ("+no-write" if nowrite else ""), eff_md)
            exp_rw = rw if (rw and ro and not nowrite) else None
            if exp_rw:
                ck.hit("unknown-with-rw-stored")
            return Link(o, exp_rw, "unknown-%s-%s" % (slots, via), eff_md)
        W = o.cap if o.info.is_write else None
        R = o.info.readonly
        how = rng.choice(["node", "node", "uri-both", "uri-rw-only", "uri-ro-only", "uri-writecap-in-ro-slot",
                          "uri-alleged-ro", "uri-alleged-ro-of-writecap"])
        if W is None and how in ("uri-both", "uri-rw-only", "uri-writecap-in-ro-slot", "uri-alleged-ro-of-writecap"):
            how = "node"
        exp_rw = W
        if how == "node":
            D.ok(g, pn.set_node(name, o.node, md), "set_node")
        elif how == "uri-both":
            D.ok(g, pn.set_uri(name, W, R, md), "set_uri both")
        elif how == "uri-rw-only":
            D.ok(g, pn.set_uri(name, W, None, md), "set_uri rw")
        elif how == "uri-ro-only":
            D.ok(g, pn.set_uri(name, None, R, md), "set_uri ro")
            exp_rw = None
        elif how == "uri-writecap-in-ro-slot":
            D.ok(g, pn.set_uri(name, None, W, md), "set_uri writecap in ro slot")
        elif how == "uri-alleged-ro":
            D.ok(g, pn.set_uri(name, None, b"ro." + R, md), "set_uri ro.")
            exp_rw = None
        else:
            try:
                D.ok(g, pn.set_uri(name, None, b"ro." + W, md), "set_uri ro.+writecap")
            except (D.OpFailed, CapConstraintError) as e:
                if isinstance(e, CapConstraintError) or e.check(CapConstraintError):
                    ck.hit("alleged-ro-writecap-rejected")
                    return None
                raise
            exp_rw = None
            ck.observe("alleged-ro-writecap-accepted")
        if nowrite and W is not None:
            exp_rw = None
            ck.hit("no-write-link")
        return Link(o, exp_rw, how + ("+no-write" if nowrite else ""), eff_md)

    def build_mut_dir(depth, is_root=False):
        budget[0] -= 1
        version = rng.choice([D.SDMF, D.MDMF])
        ck.hit("mdmf-directory" if version == D.MDMF else "sdmf-directory")
        initial = {}
        init_links = {}
        if rng.random() < .3:
            # children handed to the creation call (packed by NodeMaker, not by Adder)
            for _ in range(rng.randint(1, 2)):
                o = new_file(rng.choice(["ssk", "mdmf", "lit", "chk"]))
                name = D.gen_name(rng)
                md = D.gen_metadata(rng)
                initial[name] = (o.node, md)
                init_links[D.nfc(name)] = Link(o, o.cap if o.info.is_write else None, "initial-children", md)
        lone_init = None
        if rng.random() < .2:
            lone_init = new_unknown()
            lname = D.gen_name(rng)
            if writecap_allegation(lone_init.pair) and not lone_init.pair[1]:
                ck.hit("lone-unknown-writecap-add-attempted")
                ck.hit("lone-unknown-writecap-via-create_dirnode")
            initial[lname] = (c.create_node_from_uri(*lone_init.pair), {})
        try:
            node = D.ok(g, c.create_dirnode(initial, version=version), "create_dirnode")
            if lone_init is not None:
                rw_, ro_ = lone_init.pair
                init_links[D.nfc(lname)] = Link(lone_init, rw_ if (rw_ and ro_) else None, "unknown-initial-children", {})
        except (D.OpFailed, CapConstraintError) as e:
            if lone_init is None or not (isinstance(e, CapConstraintError) or e.check(CapConstraintError)):
                raise
            ck.hit("unknown-rejected")
            del initial[lname]
            node = D.ok(g, c.create_dirnode(initial, version=version), "create_dirnode")
        me = Obj("dir-mdmf" if version == D.MDMF else "dir-sdmf", node.get_uri(), node)
        me.links.update(init_links)
        allobjs.append(me)
        nk = rng.randint(3, 6) if is_root else rng.randint(0, 4)
        for _ in range(nk):
            if budget[0] <= 0:
                break
            kinds = ["lit", "chk", "ssk", "mdmf", "ssk", "mdmf", "unknown", "unknown"]
            if depth < MAXDEPTH:
                kinds += ["dir-mut"] * 4 + ["dir-imm"] * 2
            kind = rng.choice(kinds)
            name = D.gen_name(rng)
            if kind == "dir-mut":
                if rng.random() < .3:
                    # create_subdirectory: child made and linked by the directory itself
                    ver = rng.choice([D.SDMF, D.MDMF])
                    sub = D.ok(g, me.node.create_subdirectory(name, mutable_version=ver), "create_subdirectory")
                    o = Obj("dir-mdmf" if ver == D.MDMF else "dir-sdmf", sub.get_uri(), sub)
                    allobjs.append(o)
                    budget[0] -= 1
                    prev = me.links.get(D.nfc(name))
                    inherited = prev.md if prev is not None else None
                    nw = bool(inherited and inherited.get("no-write"))
                    me.links[D.nfc(name)] = Link(o, None if nw else o.cap, "create_subdirectory" + ("+inherited-no-write" if nw else ""), inherited)
                    fill(o, depth + 1)
                    continue
                o = build_mut_dir(depth + 1)
            elif kind == "dir-imm":
                o = build_imm_dir(depth + 1)
            elif kind == "unknown":
                o = new_unknown()
            else:
                o = new_file(kind)
                budget[0] -= 1
            l = link_child(me, name, o)
            if l is not None:
                me.links[D.nfc(name)] = l
        return me

    def fill(o, depth):
        for _ in range(rng.randint(0, 3)):
            if budget[0] <= 0:
                break
            kind = rng.choice(["lit", "ssk", "mdmf", "chk", "unknown"] + (["dir-mut"] if depth < MAXDEPTH else []))
            name = D.gen_name(rng)
            child = build_mut_dir(depth + 1) if kind == "dir-mut" else new_unknown() if kind == "unknown" else new_file(kind)
            l = link_child(o, name, child)
            if l is not None:
                o.links[D.nfc(name)] = l

    root = build_mut_dir(1, is_root=True)

    # ---- the writer runs a VERIFYING check (or check-and-repair / deep-check) on a directory and then modifies it through
    #      the very same node object: what the next publish writes into the shares is visible to every reader
    from allmydata.monitor import Monitor
    vt = [root] + [o for o in allobjs if o.kind in ("dir-sdmf", "dir-mdmf") and o is not root and rng.random() < .3][:2]
    for o in vt:
        if rng.random() < .2:
            continue
        how = rng.choice(["check", "check", "check_and_repair", "deep-check"])
        if how == "check":
            D.ok(g, o.node.check(Monitor(), verify=True), "check(verify=True)")
        elif how == "check_and_repair":
            D.ok(g, o.node.check_and_repair(Monitor(), verify=True), "check_and_repair(verify=True)")
        else:
            D.ok(g, o.node.start_deep_check(verify=True).when_done(), "deep-check(verify=True)")
        lname = "after-verify-%s" % tag().decode()
        lo = Obj("lit", D.lit_cap(b"v" + tag()), None, b"")
        allobjs.append(lo)
        D.ok(g, o.node.set_uri(lname, None, lo.cap), "modify after verify")
        o.links[lname] = Link(lo, None, "linked-after-%s-verify" % how, None)
        ck.hit("writer-verified-then-modified-same-node")

    # ---- a read-write child is put on the WRITER's access.blacklist; the writer then re-packs that very entry
    #      (metadata update / rename / re-link): the stored entry must still keep the write-cap out of readers' reach
    bl = [(p_, n_, l_) for p_ in allobjs if p_.kind in ("dir-sdmf", "dir-mdmf") for n_, l_ in sorted(p_.links.items())
          if l_.rw is not None and l_.obj.kind in ("ssk", "mdmf", "dir-sdmf", "dir-mdmf")]
    if bl and rng.random() < .75:
        import os
        p_, n_, l_ = rng.choice(bl)
        fn = c.config.get_config_path("access.blacklist")
        with open(fn, "wb") as f:
            f.write(b"# written by vf C18\n" + D.b32(l_.obj.info.si) + b" prohibited for the purpose of the check\n")
        how = rng.choice(["set_metadata_for", "rename", "re-link"])
        try:
            seen_node = D.ok(g, p_.node.get(n_), "get blacklisted child")
            if type(seen_node).__name__ == "ProhibitedNode":
                ck.hit("blacklist-took-effect")
            if how == "set_metadata_for":
                md = D.gen_metadata(rng)
                D.ok(g, p_.node.set_metadata_for(n_, md), "set_metadata_for blacklisted child")
                l_.md = md
            elif how == "rename":
                new = "blacklisted-%s" % tag().decode()
                D.ok(g, p_.node.move_child_to(n_, p_.node, new), "rename blacklisted child")
                del p_.links[n_]
                p_.links[new] = l_
            else:
                md = D.gen_metadata(rng)
                D.ok(g, p_.node.set_node(n_, seen_node, md), "re-link blacklisted child")
                l_.md = md
            l_.how += "+blacklisted:" + how
            ck.hit("blacklisted-child-repacked")
        finally:
            os.remove(fn)

    def signature(o, depth=0):
        if depth > 6:
            return "..."
        if o.is_dir:
            return "%s{%s}" % (o.kind, ",".join("%s:%s" % (l.how, signature(l.obj, depth + 1)) for _, l in sorted(o.links.items())))
        return o.kind

    sig = signature(root)
    desc = {"case": caseno, "tree": sig[:1500], "root": D.show(root.info.readonly)}
    state = {"maxdepth": 0}

    # ------------------------------------------------------------------ authority oracle
    def judge(child, link, ro_ctx, path, opener):
        unknown = D.is_unknown(child)
        wu = child.get_write_uri()
        strings = [child.get_uri() or b"", child.get_readonly_uri() or b"", repr(child).encode("utf-8", "replace")]
        wit = dict(desc, path=[p for p in path], opener=opener, child_type=type(child).__name__, write_uri=D.show(wu),
                   uri=D.show(child.get_uri()), link=(link.how if link else None))
        must_be_ro = ro_ctx or (link is not None and link.rw is None)
        if must_be_ro:
            ck.mon("child-authority-via-readcap" if ro_ctx else "child-authority-of-readonly-link")
            key = "readonly-path-yields-writeable-child" if ro_ctx else "readonly-link-yields-writeable-child"
            if wu is not None:
                ck.violation(key, "%s: child %r reached %s has get_write_uri()=%r" % (
                    opener, path[-1], "through a read-only directory" if ro_ctx else "through a link stored without write-cap",
                    D.show(wu)), wit)
            elif not unknown and not child.is_readonly():
                ck.violation(key, "%s: child %r has is_readonly()=False" % (opener, path[-1]), wit)
            elif not unknown and D.CapInfo(child.get_uri()).is_write:
                ck.violation(key, "%s: child %r get_uri() is the write cap %r" % (opener, path[-1], D.show(child.get_uri())), wit)
            if link is not None and link.obj.info is not None and link.obj.info.writekey:
                if any(D.leaks(link.obj.info.writekey, s) for s in strings):
                    ck.violation("readonly-child-reveals-writekey", "%s: a string reported by child %r carries the writekey"
                                 % (opener, path[-1]), wit)
            if link is not None and link.obj.kind == "unknown" and writecap_allegation(link.obj.pair):
                secret = link.obj.pair[0]
                if any(secret in s for s in strings):
                    ck.violation("unknown-write-cap-visible-to-readers", "%s: unknown child %r, given as %r in the write-cap slot, shows it "
                                 "in a slot readable without write authority (uri=%r)" % (opener, path[-1], D.show(secret), D.show(child.get_uri())), wit)
        else:
            if wu is not None and link is not None and wu == link.rw:
                ck.hit("rw-walk-writeable-child")
            else:
                ck.observe("rw-walk-child-weaker-than-model")
        if unknown:
            ck.hit("ro-walk-unknown" if ro_ctx else "rw-walk-unknown")
        return must_be_ro

    def try_write(child, link, path, opener):
        """Behavioural: use the node obtained through a read-only path to modify the object."""
        o = link.obj
        wit = dict(desc, path=list(path), opener=opener, kind=o.kind)
        if o.kind in ("ssk", "mdmf"):
            ck.mon("write-attempt-through-ro-node")
            try:
                st, res = g.wait(child.overwrite(MutableData(b"overwritten through a read-only path")))
            except Exception as e:   # noqa  synchronous refusal is a refusal
                st, res = "err", None
            now = D.ok(g, o.node.download_best_version(), "re-read by the writer")
            if st == "ok" or now != o.content:
                ck.violation("write-through-readonly-path-succeeded", "overwrite() on a file reached through %s: %s; contents %s"
                             % (opener, st, "changed" if now != o.content else "unchanged"), wit)
            else:
                ck.hit("ro-overwrite-refused")
        elif o.kind in ("dir-sdmf", "dir-mdmf"):
            ck.mon("write-attempt-through-ro-node")
            op = rng.choice(["set_uri", "delete", "set_metadata_for", "create_subdirectory", "set_children"])
            victim = sorted(o.links)[0] if o.links else "nothing"
            before = sorted(D.ok(g, o.node.list(), "writer list"))
            try:
                if op == "set_uri":
                    d = child.set_uri("vf-probe", None, D.lit_cap(b"probe"))
                elif op == "delete":
                    d = child.delete(victim)
                elif op == "set_metadata_for":
                    d = child.set_metadata_for(victim, {"probe": 1})
                elif op == "create_subdirectory":
                    d = child.create_subdirectory("vf-probe")
                else:
                    d = child.set_children({"vf-probe": (None, D.lit_cap(b"probe"))})
                st, res = g.wait(d)
            except Exception:   # noqa
                st, res = "err", None
            after = sorted(D.ok(g, o.node.list(), "writer list"))
            if (st == "ok" and (op != "delete" or o.links)) or after != before:
                ck.violation("write-through-readonly-path-succeeded", "%s() on a directory reached through %s: %s; listing %s"
                             % (op, opener, st, "changed" if after != before else "unchanged"), dict(wit, op=op))
            else:
                ck.hit("ro-dir-edit-refused")

    def walk(real, mobj, path, ro_ctx, opener, seen):
        if id(mobj) in seen or len(path) > 6:
            return
        seen = seen | {id(mobj)}
        try:
            children = D.ok(g, real.list(), "list")
        except D.OpFailed as e:
            ck.violation("directory-listing-failed-on-honest-grid", "%s: list() of %s at %r: %s" % (
                opener, mobj.kind, path, e), dict(desc, path=list(path), opener=opener))
            return
        if ro_ctx:
            state["maxdepth"] = max(state["maxdepth"], len(path) + 1)
            if len(path) + 1 >= 3:
                ck.hit("ro-walk-depth>=3")
        missing = set(mobj.links) - set(children)
        if missing:
            ck.observe("model-children-missing-from-listing", len(missing))
        for name, (child, md) in sorted(children.items()):
            link = mobj.links.get(name)
            if link is None:
                ck.observe("child-not-in-model")
            cpath = path + [name]
            child_ro = judge(child, link, ro_ctx, cpath, opener)
            if link is None:
                continue
            o = link.obj
            if child_ro:
                if o.kind in ("ssk", "mdmf"):
                    ck.hit("ro-walk-mutable-file")
                    if rng.random() < .5:
                        try_write(child, link, cpath, opener)
                elif o.kind in ("dir-sdmf", "dir-mdmf"):
                    ck.hit("ro-walk-mutable-dir")
                    if rng.random() < .5:
                        try_write(child, link, cpath, opener)
                elif o.kind in ("dir-imm", "dir-lit"):
                    ck.hit("ro-walk-immutable-dir")
            if o.is_dir and IDirectoryNode.providedBy(child):
                walk(child, o, cpath, child_ro, opener, seen)

    # (1) root through its READ cap: fresh client, then the building client (node cache holds the write nodes)
    rcap = root.info.readonly
    # the building client's NodeMaker cache holds live WRITE nodes of the root and its children while the read-cap is opened
    held_rw_root = c.create_node_from_uri(root.cap)
    held_rw_children = D.ok(g, held_rw_root.list(), "list (writer)")
    for opener, cl in (("read-cap/fresh-client", g.make_client(k=1, happy=1, n=nserv)), ("read-cap/building-client", c)):
        rnode = cl.create_node_from_uri(rcap)
        ck.mon("child-authority-via-readcap")
        if not rnode.is_readonly() or rnode.get_write_uri() is not None:
            ck.violation("readonly-path-yields-writeable-child", "node made from the root read-cap is writeable", desc)
        walk(rnode, root, [], True, opener, frozenset())
        # the alternative spelling create_node_from_uri(None, readcap)
    walk(c.create_node_from_uri(None, rcap), root, [], True, "read-cap-in-ro-slot", frozenset())
    # (2) root through its WRITE cap: the links that were stored with write authority still are writeable (non-vacuity),
    #     links stored read-only / no-write are not
    walk(g.make_client(k=1, happy=1, n=nserv).create_node_from_uri(root.cap), root, [], False, "write-cap/fresh-client", frozenset())
    # (3) inner mutable directories through their read caps, immutable directories through their (only) cap
    inner = [o for o in allobjs if o.is_dir and o is not root]
    rng.shuffle(inner)
    c3 = g.make_client(k=1, happy=1, n=nserv)
    for o in inner[:6]:
        if o.kind in ("dir-imm", "dir-lit"):
            ck.hit("immutable-root-walk")
            walk(c3.create_node_from_uri(o.cap), o, [], True, "immutable-dircap", frozenset())
        else:
            walk(c3.create_node_from_uri(o.info.readonly), o, [], True, "inner-read-cap", frozenset())

    # ------------------------------------------------------------------ secrecy of the stored bytes
    secrets = []       # (label, bytes) that no read-cap holder may find in any directory plaintext
    for o in allobjs:
        if o.info is not None and o.info.is_write:
            secrets.append(("write-cap of a %s" % o.kind, o.cap, o.info.writekey))
        if o.kind == "unknown" and writecap_allegation(o.pair):
            secrets.append(("unknown cap given in the write-cap slot" + ("" if o.pair[1] else " only"), o.pair[0], None))
    reader = g.make_client(k=1, happy=1, n=nserv)
    nontrivial = False
    # ---- raw share fields: a read-cap holder knows the storage index and may read every byte of every share
    for o in allobjs:
        if o.info is None or not o.info.writekey:
            continue
        seen_field = False
        for srv in reader.storage_broker.get_connected_servers():
            st_, shares_ = g.wait(srv.get_storage_server().slot_readv(o.info.si, [], [(0, 4000000)]))
            if st_ != "ok":
                continue
            for shnum, vec in sorted(shares_.items()):
                F = D.enc_privkey_field(vec[0])
                if not F:
                    continue
                seen_field = True
                ck.mon("share-fields-visible-to-readers")
                wit = dict(desc, object=o.kind, readcap=D.show(o.info.readonly), share=shnum, field_bytes=len(F))
                # (a) with read-cap material only: the raw field must not BE the signing key (its hash chain ends in the read key)
                for cand in (F, D.der_trim(F)):
                    if D.M.ssk_readkey(D.writekey_of_signing_key(cand)) == o.info.readkey:
                        ck.violation("signing-key-readable-in-share",
                                     "the enc_privkey field of a %s share holds the RSA signing key in the clear: H(field) is the writekey "
                                     "of the object (checked against the read-cap's readkey), so any reader derives the write-cap" % o.kind, wit)
                        break
                for label, km in (("readkey", o.info.readkey), ("storage-index", o.info.si), ("fingerprint[:16]", o.info.fp[:16])):
                    P = D.der_trim(D.aes128_ctr(km, F))
                    if D.M.ssk_readkey(D.writekey_of_signing_key(P)) == o.info.readkey:
                        ck.violation("signing-key-readable-in-share", "enc_privkey decrypts to the signing key under the %s" % label, wit)
                # (b) not vacuous: under the writekey it does decrypt to the signing key
                P = D.der_trim(D.aes128_ctr(o.info.writekey, F))
                if D.writekey_of_signing_key(P) != o.info.writekey:
                    ck.violation("enc-privkey-not-decryptable-with-writekey",
                                 "AES-CTR(writekey) of the enc_privkey field of a %s share does not hash to the writekey" % o.kind, wit)
                else:
                    ck.hit("writekey-decrypts-signing-key")
                break
            if seen_field:
                break
        if not seen_field:
            ck.observe("no-share-field-read-for-mutable-object")
    for o in allobjs:
        if o.kind not in ("dir-sdmf", "dir-mdmf"):
            continue
        try:
            plain = D.read_backing_bytes(g, reader, o.info.readonly)
        except D.OpFailed as e:
            ck.violation("directory-listing-failed-on-honest-grid", "download of the backing file via the read-cap: %s" % e, desc)
            continue
        ck.mon("plaintext-secret-search")
        for label, s, wk in secrets:
            if s in plain or (wk and D.leaks(wk, plain)):
                ck.violation("directory-plaintext-contains-write-cap",
                             "the bytes a read-cap holder decrypts for a %s contain the %s" % (o.kind, label),
                             dict(desc, directory=D.show(o.info.readonly), secret=D.show(s)))
        if o.info.writekey in plain or D.leaks(o.info.writekey, plain):
            ck.violation("directory-plaintext-contains-write-cap", "directory plaintext contains its own writekey", desc)
        try:
            entries = D.parse_dir(plain)
        except ValueError as e:
            ck.observe("independent-parser-rejects-directory")
            ck.inconclusive_because("independent directory parser failed: %s" % e)
            continue
        material = D.readkey_material(o.info)
        # known-plaintext: a reader who additionally knows ONE child's write-cap (e.g. its own) must not get the others:
        # the keystreams protecting different write-caps in one directory must differ
        known = []
        for e in entries:
            try:
                l0 = o.links.get(D.nfc(e.name_utf8.decode("utf-8")))
            except UnicodeDecodeError:
                l0 = None
            if l0 is not None and l0.rw and len(e.rwcapdata) >= 48 + 20:
                known.append((e, l0))
        for a_i, (ea, la) in enumerate(known):
            ct_a = ea.rwcapdata[16:-32]
            if len(ct_a) != len(la.rw):
                continue
            stream = bytes(x ^ y for x, y in zip(ct_a, la.rw))
            for (eb, lb) in known[a_i + 1:]:
                if lb.rw == la.rw:
                    continue
                ck.mon("sibling-write-cap-known-plaintext")
                ct_b = eb.rwcapdata[16:-32]
                n_ = min(len(stream), len(ct_b), len(lb.rw))
                rec_ = bytes(x ^ y for x, y in zip(ct_b[:n_], stream[:n_]))
                if rec_ == lb.rw[:n_] or ea.rwcapdata[:16] == eb.rwcapdata[:16]:
                    ck.violation("child-write-cap-recoverable-from-sibling-write-cap",
                                 "in one directory the rwcap slots of %r and %r (different write-caps) use the same salt/keystream: "
                                 "ciphertext XOR known write-cap of the first yields %r" % (
                                     ea.name_utf8.decode("utf-8", "replace"), eb.name_utf8.decode("utf-8", "replace"), D.show(rec_[:60])),
                                 dict(desc, directory=D.show(o.info.readonly)))
        for e in entries:
            try:
                name = D.nfc(e.name_utf8.decode("utf-8"))
            except UnicodeDecodeError:
                continue
            link = o.links.get(name)
            if link is None:
                continue
            W = link.rw
            wit = dict(desc, directory=D.show(o.info.readonly), child=name, link=link.how, expected_rw=D.show(W))
            with_wk = D.decrypt_rwcap(e.rwcapdata, o.info.writekey)
            if W:
                nontrivial = True
                ck.mon("writekey-recovers-rwcap")
                if with_wk is None or with_wk.rstrip(b" ") != W:
                    ck.violation("writekey-does-not-recover-child-write-cap",
                                 "specification decryptor with the directory writekey gives %r for child %r linked with write-cap %r"
                                 % (D.show((with_wk or b"")[:60]), name, D.show(W)), wit)
            else:
                ck.mon("no-rwcap-stored-for-readonly-link")
                if with_wk:
                    got = with_wk.rstrip(b" ")
                    target = link.obj.cap if link.obj.info is not None else link.obj.pair[0]
                    if got and target and got == target and link.obj.info is not None and link.obj.info.is_write:
                        ck.violation("readonly-link-stores-write-cap",
                                     "link %r (%s) was made without write authority / with no-write, yet the rwcap slot holds the write-cap"
                                     % (name, link.how), wit)
            for label, km in material.items():
                for raw in (False, True):
                    got = D.decrypt_rwcap(e.rwcapdata, km, raw_key=raw)
                    if got is None:
                        continue
                    ck.mon("readkey-material-cannot-recover-rwcap")
                    if (W and got.rstrip(b" ") == W) or got.startswith((b"URI:", b"x-tahoe", b"lafs:", b"ro.", b"imm.")):
                        ck.violation("child-write-cap-recoverable-from-readcap",
                                     "decrypting the rwcap slot of %r with %s (%s) yields %r" % (
                                         name, label, "raw AES key" if raw else "tagged hash of salt and it", D.show(got[:80])),
                                     dict(wit, material=label))
    ck.case("tree", key=sig, nontrivial=nontrivial,
            sample={"tree": sig[:600], "objects": len(allobjs), "ro_walk_depth": state["maxdepth"]})


# MUST_CATCH (selftest/breaks_c18.py; each exits 1, the unchanged tree exits 0):
#   c18-unpack-decrypts-when-readonly   dirnode._unpack_contents: writeable = True (a read-only node has no writekey, the
#                                       decryption attempt raises)                    -> directory-listing-failed-on-honest-grid
#   c18-rwcap-key-from-readkey          hashutil.mutable_rwcap_key_hash keyed by H(writekey) = the readkey
#                                       -> child-write-cap-recoverable-from-readcap, writekey-does-not-recover-child-write-cap
#   c18-pack-with-readkey               DirectoryNode._pack_contents passes get_readkey()   -> same keys
#   c18-readonly-attenuation-skipped    dirnode._create_readonly_node returns the node unchanged (no-write links keep the
#                                       write-cap) -> readonly-link-yields-writeable-child, readonly-link-stores-write-cap
#   c18-ro-slot-holds-strong-cap        _pack_normalized_children stores child.get_uri() in the cleartext ro slot
#                                       -> readonly-path-yields-writeable-child, directory-plaintext-contains-write-cap,
#                                          write-through-readonly-path-succeeded
#   c18-rwcap-not-encrypted             _encrypt_rw_uri stores the plaintext          -> directory-plaintext-contains-write-cap
#   c18-nodecache-keyed-by-fingerprint  NodeMaker cache key = last cap field (shared by write- and read-cap): a client that
#                                       holds the write node gets it back for the read-cap -> readonly-path-yields-writeable-child
#   seeded/C18-2                        UnknownNode keeps going after MustNotBeUnknownRWError: lone unprefixed unknown write-cap lands
#                                       in the cleartext ro slot -> directory-plaintext-contains-write-cap, unknown-write-cap-visible-to-readers
#   seeded/C18-4                        ProhibitedNode.get_readonly_uri() returns the full cap: blacklisted rw child re-packed by the writer
#                                       -> directory-plaintext-contains-write-cap, readonly-path-yields-writeable-child
#   seeded/C18-3                        rwcap salt derived from the directory writekey (one keystream per directory)
#                                       -> child-write-cap-recoverable-from-sibling-write-cap
#   seeded/C18-7                        verifying Retrieve caches the DECRYPTED signing key as enc_privkey; the next publish stores it in
#                                       the clear -> signing-key-readable-in-share, enc-privkey-not-decryptable-with-writekey
