"""C27 share crawler covers every bucket each cycle (time-slice interruptions, restarts, kills)."""
META = {
    "level": 'fault_enumeration',
    "technique": 'call-log oracle on the real ShareCrawler (and LeaseCheckingCrawler) driven by virtual time: enumerated subsets of time-slice interruption points, restarts at every slice boundary, and process kills at every hook and every file-system step of save_state, each followed by a restart from the state file',
    "text": 'Runs the real allmydata.storage.crawler.ShareCrawler (recording subclass; service started, slices fired by the virtual reactor) on a fabricated share directory with <=6 buckets over the first, a middle and the last of the 1024 prefixes. storage.crawler.time is a virtual clock that jumps past cpu_slice at chosen points, forcing TimeSliceExceeded there. Enumerated: every subset of interruption points {after each bucket, end of each non-empty prefix and of its neighbour prefixes} for each layout (thorough: all subsets of every layout, up to 2^13, x all 3 restart modes for the <=10-point layouts and a rotating mode for the 13-point ones; quick: all subsets of the <=6-point layouts with a rotating mode, seeded samples of the larger ones), single interruptions at prefix ends across the whole ring, and single kills (crawler object abandoned, new crawler built on the same state file) before/after every process_bucket, in every started_cycle/finished_prefix/finished_cycle hook and at 6 steps inside every save_state (before the temp file is opened, temp file empty, half written, fully written but not renamed, inside move_into_place() immediately before its os.rename, after rename), under 4 interruption schedules; plus seeded multi-fault runs with buckets added/removed mid-cycle (not judged) and 4-cycle runs over one or two non-empty prefixes in which buckets are added and removed BETWEEN cycles, while the crawler sleeps (a bucket added there exists throughout the next cycle and is judged), on the same crawler object and across restarts; and runs in which the slice ends inside a prefix after its k-th bucket and that bucket (or an earlier / later one) is removed before the crawl resumes on the same object or on a new crawler built from the state file. A second family runs the real LeaseCheckingCrawler on real shares and restarts it from its saved state mid-cycle: after leased buckets, after empty prefixes only (no lease counted yet), and after a bucket whose mutable slot is then deleted through the storage API before the resume. Oracle per completed cycle: every bucket present throughout is passed to process_bucket exactly once if no kill happened inside a slice of that cycle, at least once otherwise; process_bucket arguments are consistent; last-cycle-finished (get_state() and the JSON state file) advances by exactly one per completed cycle and never goes back.',
    "note": 'Trusts the recording subclass, the virtual clock shim and the emulation of a crash inside save_state (the harness performs the same open/write/rename sequence as _dump_json_to_file + move_into_place and stops at the chosen step; torn writes below file granularity are C29 territory). Buckets added or removed mid-cycle are not judged.',
}
LEVEL = "fault_enumeration"
BUDGET = {"quick": 45, "thorough": 420}   # quick is a fixed case list (~35 s); the budget is only a guard
SHARDS = {"quick": 1, "thorough": 14}

import collections
import json
import os
import shutil
import tempfile

from vf import env  # noqa  (must be the first project import)


class Kill(BaseException):
    """Simulated SIGKILL: propagates through the crawler (not an Exception)."""


class VTime(object):
    """Stand-in for the `time` module inside storage.crawler / expirer / lease."""

    def __init__(self):
        self.skew = 0.0

    def time(self):
        return env.reactor.seconds() + self.skew


class StubServer(object):
    def __init__(self, sharedir):
        self.sharedir = sharedir


SAVE_STEPS = ("before-tmp-open", "tmp-created-empty", "tmp-half-written", "tmp-written-not-renamed",
              "inside-move-before-rename", "after-rename")


class Harness(object):
    """One run: a state file, a sequence of crawler incarnations, a fault plan."""

    def __init__(self, ck, mods, sharedir, statefile, buckets, make_crawler):
        self.ck = ck
        self.mods = mods
        self.sharedir = sharedir
        self.statefile = statefile
        self.static = set(buckets)          # buckets present throughout
        self.dynamic = set()                # added/removed mid-run: don't care
        self.make_crawler = make_crawler
        self.log = []                       # hook events
        self.jumps = set()                  # {(cycle, kind, arg)} one-shot time jumps
        self.kill_at = None                 # (cycle, kind, arg) one-shot kill
        self.kill_save = None               # (save_index, step)
        self.actions = {}                   # {(cycle, kind, arg): callable} one-shot fs mutations
        self.saves = 0
        self.kills = 0
        self.tainted = set()                # cycles during which a kill hit inside a slice
        self.lcf_seq = []                   # observed last-cycle-finished values (-1 for None)
        self.problems = []
        self.slices = 0
        self.c = None
        self.incarnations = 0
        self.latest_cycle = 0
        self.points_seen = []               # every hook point reached, for kill enumeration
        self.in_move = False
        self.after_slice = {}               # {(cycle, kind, arg): callable} run once the slice containing the point ended
        self.pending_between = []
        self.members = {}                   # cycle -> set of buckets present throughout it (when it differs from static)
        self.boundary = {}                  # finished cycle -> callable() -> membership of the following cycles
        self.max_lcf = -1

    # ---- called from the crawler hooks
    def point(self, cycle, kind, arg):
        self.latest_cycle = cycle
        p = (cycle, kind, arg)
        self.points_seen.append(p)
        act = self.actions.pop(p, None)
        if act is not None:
            act()
        act = self.after_slice.pop(p, None)
        if act is not None:
            self.pending_between.append(act)
        if self.kill_at == p:
            self.kill_at = None
            raise Kill(p)
        if p in self.jumps:
            self.jumps.discard(p)
            self.mods["vtime"].skew += self.c.cpu_slice + 1.0
            self.ck.hit("time-slice-forced")

    # ---- save_state interposition
    def on_dump(self, real_dump, js, afile):
        if not os.path.basename(afile.path).startswith(os.path.basename(self.statefile)):
            return real_dump(js, afile)             # e.g. the lease checker's history file
        idx = self.saves
        self.saves += 1
        if self.kill_save is not None and self.kill_save[0] == idx:
            step = self.kill_save[1]
            if step == "before-tmp-open":
                self.kill_save = None
                raise Kill(("save", idx, step))
            if step == "tmp-created-empty":
                self.kill_save = None
                open(afile.path, "wb").close()
                raise Kill(("save", idx, step))
            if step == "tmp-half-written":
                self.kill_save = None
                data = json.dumps(js).encode("utf8")
                with open(afile.path, "wb") as f:
                    f.write(data[:len(data) // 2])
                raise Kill(("save", idx, step))
            if step == "tmp-written-not-renamed":
                self.kill_save = None
                real_dump(js, afile)
                raise Kill(("save", idx, step))
        return real_dump(js, afile)

    def on_os(self, op, path):
        """Called by the os proxy installed in allmydata.util.fileutil just before os.rename/os.replace on the
        state file: a kill here lands inside move_into_place(), after whatever it did before the rename."""
        if self.in_move and self.kill_save is not None and self.kill_save[0] == self.saves - 1 \
                and self.kill_save[1] == "inside-move-before-rename" \
                and os.path.basename(path).startswith(os.path.basename(self.statefile)):
            self.kill_save = None
            raise Kill(("save", self.saves - 1, "inside-move-before-rename"))

    def on_move(self, real_move, src, dst):
        self.in_move = True
        try:
            real_move(src, dst)
        finally:
            self.in_move = False
        if self.kill_save is not None and self.kill_save[0] == self.saves - 1 and self.kill_save[1] == "after-rename" \
                and dst.endswith(".json"):
            self.kill_save = None
            raise Kill(("save", self.saves - 1, "after-rename"))

    # ---- life cycle
    def start(self):
        self.mods["current"][0] = self
        self.c = self.make_crawler(self)
        self.incarnations += 1
        self.c.startService()
        self.observe()

    def abandon(self):
        """Process death: nothing is saved, pending timer dies with the process."""
        t = getattr(self.c, "timer", None)
        if t is not None and t.active():
            t.cancel()
        self.c = None

    def restart(self, mode):
        if mode == "stop":
            try:
                self.c.stopService()        # graceful: saves state
                self.ck.hit("restart-after-stopService")
            except Kill:
                self.note_kill()            # died inside the save_state of stopService
                self.abandon()
        else:
            self.abandon()                  # killed while sleeping between slices
            self.ck.hit("restart-after-kill-while-sleeping")
        self.start()

    def note_kill(self):
        self.kills += 1
        self.ck.hit("kill-inside-slice")
        self.tainted.add(self.latest_cycle)
        self.tainted.add(self.latest_cycle + 1)

    def observe(self):
        """API boundary: get_state() and the JSON state file."""
        st = self.c.get_state()
        v = st.get("last-cycle-finished")
        v = -1 if v is None else v
        fv = None
        for name in (self.statefile + ".json", self.statefile):
            if os.path.exists(name):
                try:
                    with open(name, "rb") as f:
                        fv = json.load(f).get("last-cycle-finished")
                    fv = -1 if fv is None else fv
                except Exception as e:
                    self.problems.append(("state-file-unreadable", "state file %s: %s" % (os.path.basename(name), e)))
                break
        self.lcf_seq.append((v, fv))
        # between two cycles (crawler asleep, nothing in progress): scripted additions/removals of buckets.
        # A bucket added here exists throughout the next cycle and is judged there.
        while self.max_lcf < v:
            self.max_lcf += 1
            act = self.boundary.pop(self.max_lcf, None)
            if act is not None:
                self.members[self.max_lcf + 1] = set(act())
                self.ck.hit("buckets-changed-between-cycles")
        return v

    def expected(self, cycle):
        ks = [k for k in self.members if k <= cycle]
        base = self.members[max(ks)] if ks else self.static
        return set(base) - self.dynamic

    def slice(self):
        """Fire the crawler's pending timer: one time slice.  Returns False after a kill."""
        t = self.c.timer
        if t is None or not t.active():
            self.problems.append(("crawler-stops-rescheduling", "no pending timer after a slice while running"))
            return None
        self.slices += 1
        try:
            env.reactor.advance(max(0.0, t.getTime() - env.reactor.seconds()))
        except Kill:
            self.note_kill()
            self.abandon()
            self.start()
            return False
        self.observe()
        # scripted file-system changes between two slices (crawler asleep, state saved)
        pending, self.pending_between = self.pending_between, []
        for act in pending:
            act()
            self.ck.hit("bucket-removed-between-slices")
        return True

    def run_until(self, cycles, restart_mode=None, max_slices=400):
        """Drive until `cycles` cycles have completed (last-cycle-finished == cycles-1)."""
        while True:
            if self.lcf_seq and self.lcf_seq[-1][0] >= cycles - 1:
                return True
            if self.slices >= max_slices:
                self.problems.append(("cycle-never-completes", "%d slices without reaching cycle %d"
                                      % (self.slices, cycles - 1)))
                return False
            r = self.slice()
            if r is None:
                return False
            if r and restart_mode in ("stop", "kill-sleeping") and self.lcf_seq[-1][0] < cycles - 1:
                self.restart(restart_mode)

    def finish(self):
        self.kill_at = self.kill_save = None
        if self.c is not None:
            try:
                self.c.stopService()
            except Exception as e:
                self.problems.append(("stopService-raises", repr(e)))
            self.c = None
        self.mods["current"][0] = None
        for call in list(env.reactor.getDelayedCalls()):
            call.cancel()

    # ---- oracle
    def judge(self):
        ck = self.ck
        out = list(self.problems)
        per_cycle = collections.defaultdict(collections.Counter)
        for ev in self.log:
            if ev[0] == "bucket":
                _, cycle, prefix, prefixdir, si = ev
                per_cycle[cycle][si] += 1
                if prefix != si[:2] or prefixdir != os.path.join(self.sharedir, prefix):
                    out.append(("process-bucket-wrong-arguments",
                                "process_bucket(%r, %r, %r, %r)" % (cycle, prefix, prefixdir, si)))
                if si not in self.static and si not in self.dynamic and \
                        not any(si in m for m in self.members.values()):
                    out.append(("process-bucket-on-nonexistent-bucket", "bucket %r never existed" % (si,)))
                elif self.members and si not in self.expected(cycle) and si not in self.dynamic:
                    ck.observe("processed-a-bucket-removed-before-the-cycle")
        finished = max([v for v, _ in self.lcf_seq] or [-1])
        for cycle in range(0, finished + 1):
            cnt = per_cycle.get(cycle, {})
            killed = cycle in self.tainted
            for si in sorted(self.expected(cycle)):
                n = cnt.get(si, 0)
                ck.mon("coverage-oracle")
                if self.members and si not in self.static:
                    ck.hit("bucket-added-between-cycles-judged")
                if n == 0:
                    out.append(("bucket-skipped-in-cycle" + ("-after-kill" if killed else ""),
                                "cycle %d completed without process_bucket(%s)" % (cycle, si)))
                elif n > 1 and not killed:
                    out.append(("bucket-processed-twice-without-kill",
                                "cycle %d: process_bucket(%s) called %d times, no kill inside a slice" % (cycle, si, n)))
                elif n > 1:
                    ck.hit("duplicate-work-after-kill")
            for si in self.dynamic:
                ck.skip("bucket-added-or-removed-mid-cycle")
        # cycle numbering
        prev = None
        for v, fv in self.lcf_seq:
            ck.mon("cycle-number-oracle")
            if prev is not None and v not in (prev, prev + 1):
                out.append(("cycle-number-not-incremented-by-one",
                            "last-cycle-finished went %d -> %d (sequence %r)" % (prev, v, [a for a, _ in self.lcf_seq][:40])))
                break
            prev = v
        prev = None
        for v, fv in self.lcf_seq:
            if fv is None:
                continue
            if prev is not None and fv not in (prev, prev + 1):
                out.append(("state-file-cycle-number-not-incremented-by-one",
                            "state file last-cycle-finished went %d -> %d" % (prev, fv)))
                break
            prev = fv
        # hook-level: finished_cycle numbers (no-kill runs: each exactly once, consecutive)
        fin = [ev[1] for ev in self.log if ev[0] == "finished"]
        if not self.kills:
            if fin != list(range(0, len(fin))) or (fin and fin[-1] != finished):
                out.append(("finished-cycle-numbers-not-consecutive", "finished_cycle called with %r, "
                            "last-cycle-finished %d" % (fin[:10], finished)))
        # dedupe by key
        seen, res = set(), []
        for k, what in out:
            if k not in seen:
                seen.add(k)
                res.append((k, what))
        return res


# ----------------------------------------------------------------- run
def run(ck):
    from allmydata.storage import crawler as crawler_mod
    from allmydata.storage import expirer as expirer_mod
    from allmydata.storage import lease as lease_mod
    from allmydata.storage.common import si_b2a
    from allmydata.util import fileutil as real_fileutil
    import struct

    ck.rule = ("layouts = distributions of 0..6 bucket directories over the first ('22'), a middle and the last ('zz') "
               "prefix; fault plan = subset of time-slice interruption points (after each bucket; end of each non-empty "
               "prefix, its predecessor and successor) x restart mode (same object / stopService+new crawler / abandon "
               "while sleeping+new crawler at every slice boundary), or one kill point (before/after each "
               "process_bucket, each hook, 5 steps inside each save_state) under 4 interruption schedules, or a seeded "
               "mix of several; every run crawls >=2 full cycles of 1024 prefixes. distinct = (layout, plan); "
               "non-trivial = at least one forced interruption, restart or kill")

    vtime = VTime()
    current = [None]
    mods = {"vtime": vtime, "current": current}
    saved = (crawler_mod.time, expirer_mod.time, lease_mod.time, crawler_mod._dump_json_to_file, crawler_mod.fileutil)
    real_dump = crawler_mod._dump_json_to_file

    def dump_shim(js, afile):
        h = current[0]
        if h is None:
            return real_dump(js, afile)
        return h.on_dump(real_dump, js, afile)

    class FileutilShim(object):
        def __getattr__(self, name):
            return getattr(real_fileutil, name)

        @staticmethod
        def move_into_place(src, dst):
            h = current[0]
            if h is None:
                return real_fileutil.move_into_place(src, dst)
            return h.on_move(real_fileutil.move_into_place, src, dst)

    class OsProxy(object):
        """`os` as seen by allmydata.util.fileutil: rename/replace on the state file can be a kill point."""

        def __getattr__(self, name):
            return getattr(os, name)

        @staticmethod
        def rename(src, dst, *a, **kw):
            h = current[0]
            if h is not None:
                h.on_os("rename", dst)
            return os.rename(src, dst, *a, **kw)

        @staticmethod
        def replace(src, dst, *a, **kw):
            h = current[0]
            if h is not None:
                h.on_os("replace", dst)
            return os.replace(src, dst, *a, **kw)

    saved_fileutil_os = real_fileutil.os
    real_fileutil.os = OsProxy()
    crawler_mod.time = vtime
    expirer_mod.time = vtime
    lease_mod.time = vtime
    crawler_mod._dump_json_to_file = dump_shim
    crawler_mod.fileutil = FileutilShim()

    def recording(base):
        class Rec(base):
            slow_start = 0
            minimum_cycle_time = 5     # > 0, or Clock.advance() would run cycle after cycle in one call
            cpu_slice = 1.0
            hx = None

            def started_cycle(self, cycle):
                base.started_cycle(self, cycle)
                self.hx.log.append(("started", cycle))
                self.hx.point(cycle, "started-cycle", None)

            def process_bucket(self, cycle, prefix, prefixdir, storage_index_b32):
                self.hx.point(cycle, "before-bucket", storage_index_b32)
                base.process_bucket(self, cycle, prefix, prefixdir, storage_index_b32)
                self.hx.log.append(("bucket", cycle, prefix, prefixdir, storage_index_b32))
                self.hx.point(cycle, "after-bucket", storage_index_b32)

            def finished_prefix(self, cycle, prefix):
                base.finished_prefix(self, cycle, prefix)
                self.hx.log.append(("prefix", cycle, prefix))
                self.hx.point(cycle, "prefix-end", prefix)

            def finished_cycle(self, cycle):
                base.finished_cycle(self, cycle)
                self.hx.log.append(("finished", cycle))
                self.hx.point(cycle, "finished-cycle", None)
        return Rec

    RecPlain = recording(crawler_mod.ShareCrawler)
    RecLease = recording(expirer_mod.LeaseCheckingCrawler)

    probe_dir = tempfile.mkdtemp(prefix="vf-")
    try:
        prefixes = list(RecPlain(StubServer(probe_dir), os.path.join(probe_dir, "s")).prefixes)
    finally:
        shutil.rmtree(probe_dir, ignore_errors=True)
    assert len(prefixes) == 1024 and prefixes == sorted(prefixes)
    P3 = [prefixes[0], prefixes[517], prefixes[-1]]
    SUFFIX = ["aaaaaaaaaaaaaaaaaaaaaaaa", "aaaaaaaaaaaaaaaaaaaaaaab", "mmmmmmmmmmmmmmmmmmmmmmmm",
              "zzzzzzzzzzzzzzzzzzzzzzzz", "2222222222222222222222aa", "7777777777777777777777aa"]

    def layout_buckets(layout):
        out = []
        for pfx, n in zip(P3, layout):
            out.extend(pfx + SUFFIX[j] for j in range(n))
        return sorted(out)

    def points_for(layout, buckets):
        pts = [("after-bucket", b) for b in buckets]
        pp = []
        for pfx, n in zip(P3, layout):
            if n:
                i = prefixes.index(pfx)
                for j in (i - 1, i, i + 1):
                    if 0 <= j < 1024 and prefixes[j] not in pp:
                        pp.append(prefixes[j])
        return pts + [("prefix-end", p) for p in sorted(pp)]

    class Site(object):
        """A fabricated storage directory for one layout (reused by all plans of the layout)."""

        def __init__(self, layout):
            self.layout = layout
            self.dir = tempfile.mkdtemp(prefix="vf-")
            self.sharedir = os.path.join(self.dir, "shares")
            os.makedirs(self.sharedir)
            self.buckets = layout_buckets(layout)
            for b in self.buckets:
                self.add_bucket(b)
            self.server = StubServer(self.sharedir)
            self.statefile = os.path.join(self.dir, "crawler.state")

        def add_bucket(self, b):
            d = os.path.join(self.sharedir, b[:2], b)
            os.makedirs(d, exist_ok=True)
            with open(os.path.join(d, "0"), "wb") as f:
                f.write(b"x")

        def remove_bucket(self, b):
            shutil.rmtree(os.path.join(self.sharedir, b[:2], b), ignore_errors=True)

        def reset(self):
            for n in os.listdir(self.dir):
                if n != "shares":
                    os.unlink(os.path.join(self.dir, n))

        def harness(self):
            self.reset()

            def make(h):
                RecPlain.hx = h
                c = RecPlain(self.server, self.statefile)
                c.hx = h
                return c
            return Harness(ck, mods, self.sharedir, self.statefile, self.buckets, make)

        def close(self):
            shutil.rmtree(self.dir, ignore_errors=True)

    def report(h, cls, key, plan, nontrivial=True):
        problems = h.judge()
        for k, what in problems:
            ck.violation(k, what, {"plan": plan, "buckets": sorted(h.static),
                                   "last_cycle_finished_seq": [a for a, _ in h.lcf_seq][:60],
                                   "events": [list(e[:2]) + [e[-1]] for e in h.log[:80]],
                                   "incarnations": h.incarnations, "kills": h.kills})
        ck.case(cls, key=key, nontrivial=nontrivial, sample={"plan": plan, "slices": h.slices,
                                                             "incarnations": h.incarnations,
                                                             "process_bucket_calls": sum(1 for e in h.log if e[0] == "bucket")})

    def guarded(h, cls, key, plan, body):
        with ck.watchdog(180, "run %r" % (key,)):
            guarded_(h, cls, key, plan, body)

    def guarded_(h, cls, key, plan, body):
        try:
            try:
                h.start()
                body(h)
            except Kill as k:
                h.problems.append(("kill-escaped-harness", repr(k)))
            except Exception as e:
                import traceback
                tb = traceback.extract_tb(e.__traceback__)
                frames = [fr.name for fr in tb if "/allmydata/" in fr.filename]
                key = "crawler-raises"
                if h.incarnations > 1 and (
                        (isinstance(e, TypeError) and "add_lease_age_to_histogram" in frames) or
                        (isinstance(e, ValueError) and "convert_lease_age_histogram" in frames)):
                    # cycle-to-date["lease-age-histogram"] comes back from the JSON state file as a list
                    key = "lease-checker-resume-histogram-not-a-dict"
                h.problems.append((key, "%s: %s in %s (incarnation %d)"
                                   % (type(e).__name__, e, "/".join(frames[-3:]), h.incarnations)))
                if h.c is not None:
                    h.abandon()
        finally:
            h.finish()
        report(h, cls, key, plan)

    MODES = (None, "stop", "kill-sleeping")
    case_no = [0]

    def mine():
        case_no[0] += 1
        return ck.mine(case_no[0])

    # ------------------------------------------------------------ E1 subsets of interruption points
    layouts_small = [(1, 1, 1), (2, 0, 1), (0, 0, 1), (1, 0, 0), (0, 3, 0), (0, 0, 0), (3, 0, 0), (0, 0, 3)]
    layouts_big = [(2, 2, 2), (1, 4, 1), (3, 0, 3), (6, 0, 0), (0, 0, 6), (0, 6, 0), (2, 1, 3), (4, 0, 1)]
    complete = True
    if ck.tier == "quick":
        layouts_big = layouts_big[:4] + layouts_big[6:7]
    for layout in layouts_small + layouts_big:
        site = Site(layout)
        try:
            pts = points_for(layout, site.buckets)
            npts = len(pts)
            full = (ck.tier == "thorough") or npts <= 6
            if full:
                masks = range(1 << npts)
            else:
                r = ck.rng("e1", layout)
                masks = sorted(set([0, (1 << npts) - 1] +
                                   [r.getrandbits(npts) for _ in range(28 if layout == (1, 1, 1) else 10)]))
            for mask in masks:
                modes = MODES if (ck.tier == "thorough" and npts <= 10) else (MODES[(mask + ck.seed) % 3],)
                for mode in modes:
                    if not mine():
                        continue
                    if (not ck.more(min_cases=10 ** 9)):
                        complete = False
                        break
                    chosen = [pts[i] for i in range(npts) if mask >> i & 1]
                    h = site.harness()
                    both = (mask % 3 == 0)
                    for kind, arg in chosen:
                        h.jumps.add((0, kind, arg))
                        if both:
                            h.jumps.add((1, kind, arg))
                    plan = {"family": "subset", "layout": layout, "interrupt": chosen, "both_cycles": both,
                            "restart_mode": mode}
                    guarded(h, "interrupt-subset", ("s", layout, mask, mode), plan,
                            lambda h, mode=mode: h.run_until(2, mode))
                if (not ck.more(min_cases=10 ** 9)):
                    complete = False
                    break
        finally:
            site.close()

    # ------------------------------------------------------------ E2 single interruption at prefix ends round the ring
    site = Site((2, 2, 2))
    try:
        step = 1 if ck.tier == "thorough" else 41
        idxs = sorted(set(list(range((ck.seed * 7) % step, 1024, step)) + [0, 1, 516, 517, 518, 1022, 1023]))
        for i in idxs:
            if not mine() or (not ck.more(min_cases=10 ** 9)):
                continue
            h = site.harness()
            h.jumps.add((0, "prefix-end", prefixes[i]))
            mode = MODES[i % 3]
            plan = {"family": "single-prefix-end", "prefix_index": i, "prefix": prefixes[i], "restart_mode": mode}
            guarded(h, "single-prefix-interrupt", ("p", i, mode), plan, lambda h, mode=mode: h.run_until(2, mode))
    finally:
        site.close()

    # ------------------------------------------------------------ E3 kill points
    def schedule(name, pts):
        if name == "none":
            return []
        if name == "after-every-bucket":
            return [p for p in pts if p[0] == "after-bucket"]
        if name == "every-prefix-point":
            return [p for p in pts if p[0] == "prefix-end"]
        return pts[::2]

    # ------------------------------------------------------------ E7 a bucket disappears BETWEEN two slices
    # the slice ends inside a prefix right after its k-th bucket (the resume marker); before the crawl resumes
    # (same object / new crawler from the state file) the marker bucket, an earlier one or a later one is removed,
    # as a mutable-slot delete does.  The removed bucket is not judged; every other bucket is (exactly once).
    e7_layouts = [(3, 0, 0), (0, 4, 0), (0, 0, 3), (2, 0, 3), (3, 3, 0)]
    e7n = 0
    for layout in e7_layouts:
        names = layout_buckets(layout)
        for pfx, n in zip(P3, layout):
            mine_b = [b for b in names if b[:2] == pfx]
            if n < 2:
                continue
            for k in range(n):
                for which in ("marker", "earlier", "later"):
                    if (which == "earlier" and k == 0) or (which == "later" and k == n - 1):
                        continue
                    for mode in MODES:
                        e7n += 1
                        if ck.tier == "quick" and (e7n + ck.seed) % 2 and (which != "marker" or mode is None):
                            continue
                        if not mine():
                            continue
                        if (not ck.more(min_cases=10 ** 9)):
                            break
                        site = Site(layout)
                        try:
                            h = site.harness()
                            marker = mine_b[k]
                            victim = {"marker": marker, "earlier": mine_b[0], "later": mine_b[-1]}[which]
                            h.jumps.add((0, "after-bucket", marker))
                            h.dynamic.add(victim)
                            h.static.discard(victim)
                            h.after_slice[(0, "after-bucket", marker)] = (lambda site=site, v=victim: site.remove_bucket(v))
                            plan = {"family": "removed-between-slices", "layout": layout, "slice_ends_after": marker,
                                    "removed_before_resume": victim, "restart_mode": mode}
                            guarded(h, "removed-between-slices", ("r", layout, pfx, k, which, mode), plan,
                                    lambda h, mode=mode: h.run_until(2, mode))
                        finally:
                            site.close()

    # ------------------------------------------------------------ E6 buckets added/removed BETWEEN cycles
    # one or two non-empty prefixes, 4 cycles, membership changes only while the crawler sleeps between two
    # cycles: every bucket present at the start of a cycle exists throughout it and is judged
    NEWNAME = {"first": "222222222222222222222222", "middle": "dddddddddddddddddddddddd",
               "last": "yyyyyyyyyyyyyyyyyyyyyyyy"}
    e6_layouts = [(2, 0, 0), (0, 2, 0), (0, 0, 2), (1, 0, 0), (0, 0, 1), (0, 3, 0), (0, 0, 0),
                  (1, 1, 0), (1, 0, 1), (0, 2, 1)]
    for li, layout in enumerate(e6_layouts):
        nonempty = [pfx for pfx, n in zip(P3, layout) if n] or [P3[1]]
        empty = [pfx for pfx, n in zip(P3, layout) if not n]
        for wi, where in enumerate(("first", "middle", "last", "other-prefix")):
            for sched in ("none", "after-every-bucket"):
                # the same crawler object always; in quick one of the two restart modes for every other plan
                quick_modes = (None,) + ((MODES[1 + li % 2],) if (li + wi) % 2 else ())
                for mode in (quick_modes if ck.tier == "quick" else MODES):
                    if not mine():
                        continue
                    if (not ck.more(min_cases=10 ** 9)):
                        break
                    site = Site(layout)
                    try:
                        h = site.harness()
                        if where == "other-prefix":
                            b1 = (empty or nonempty)[0] + NEWNAME["middle"]
                        else:
                            b1 = nonempty[0] + NEWNAME[where]
                        b2 = nonempty[-1] + "eeeeeeeeeeeeeeeeeeeeeeee"
                        gone = site.buckets[0] if site.buckets else None
                        cur = set(site.buckets)

                        def after0(site=site, cur=cur, b1=b1):
                            site.add_bucket(b1)
                            cur.add(b1)
                            return cur

                        def after1(site=site, cur=cur, b2=b2, gone=gone):
                            site.add_bucket(b2)
                            cur.add(b2)
                            if gone is not None:
                                site.remove_bucket(gone)
                                cur.discard(gone)
                            return cur

                        def after2(site=site, cur=cur, b1=b1):
                            site.remove_bucket(b1)
                            cur.discard(b1)
                            return cur
                        h.boundary = {0: after0, 1: after1, 2: after2}
                        if sched == "after-every-bucket":
                            for cyc in range(5):
                                for b in list(site.buckets) + [b1, b2]:
                                    h.jumps.add((cyc, "after-bucket", b))
                        plan = {"family": "between-cycles", "layout": layout, "add_after_cycle_0": b1,
                                "add_after_cycle_1": b2, "remove_after_cycle_1": gone, "remove_after_cycle_2": b1,
                                "schedule": sched, "restart_mode": mode}
                        guarded(h, "between-cycles", ("b", layout, where, sched, mode), plan,
                                lambda h, mode=mode: h.run_until(4, mode))
                    finally:
                        site.close()

    # ------------------------------------------------------------ E5 LeaseCheckingCrawler restarted mid-cycle
    from allmydata.storage.server import StorageServer
    from twisted.internet.task import Clock

    def si_for_prefix(pfx, salt):
        for idx in range(1024):
            si = struct.pack(">H", idx << 6) + bytes([salt]) * 14
            if si_b2a(si)[:2].decode("ascii") == pfx:
                return si
        raise AssertionError(pfx)

    LP = [P3[0], P3[0], P3[1], P3[2]]          # buckets in the very first prefix: leases are counted in slice 1
    LATE = [P3[1], P3[1], P3[1], P3[2]]        # nothing in the first 517 prefixes; 3 buckets in one prefix
    lease_plans = [
        dict(name="same-object", mode=None, where=LP, sched="after-every-bucket"),
        dict(name="stopService-restart", mode="stop", where=LP, sched="after-every-bucket"),
        dict(name="kill-sleeping-restart", mode="kill-sleeping", where=LP, sched="after-every-bucket"),
        dict(name="stopService-restart", mode="stop", where=LP, sched="every-prefix-point"),
        dict(name="same-object", mode=None, where=LP, sched="none"),
        # state saved after EMPTY prefixes only (no lease counted yet), restart, leased shares later in the cycle
        dict(name="stopService-restart", mode="stop", where=LATE, sched="empty-prefix-ends"),
        dict(name="kill-sleeping-restart", mode="kill-sleeping", where=LATE, sched="empty-prefix-ends"),
        dict(name="same-object", mode=None, where=LATE, sched="empty-prefix-ends"),
        # slice ends after the 2nd bucket of a prefix (a mutable slot); its owner deletes the slot through the
        # storage API (the server removes the empty bucket directory) before the crawl resumes
        dict(name="stopService-restart", mode="stop", where=LATE, sched="after-2nd-bucket", delete_marker=True),
        dict(name="kill-sleeping-restart", mode="kill-sleeping", where=LATE, sched="after-2nd-bucket", delete_marker=True),
        dict(name="same-object", mode=None, where=LATE, sched="after-2nd-bucket", delete_marker=True),
    ]
    for lp in lease_plans:
        name, mode, sched = lp["name"], lp["mode"], lp["sched"]
        if not mine() or (not ck.more(min_cases=10 ** 9)):
            continue
        d = tempfile.mkdtemp(prefix="vf-")
        try:
            clock = Clock()
            clock.advance(env.reactor.seconds())
            ss = StorageServer(d, b"\x27" * 20, clock=clock)
            buckets = []
            sis = []
            for j, pfx in enumerate(lp["where"]):
                si = si_for_prefix(pfx, j + 1)
                if j % 2 == 0:
                    _, wr = ss.allocate_buckets(si, bytes([j + 1]) * 32, bytes([j + 65]) * 32, {0}, 20)
                    wr[0].write(0, b"i" * 20)
                    wr[0].close()
                else:
                    ss.slot_testv_and_readv_and_writev(si, (b"w" * 32, bytes([j + 1]) * 32, bytes([j + 65]) * 32),
                                                       {0: ([], [(0, b"m" * 20)], None)}, [])
                buckets.append(si_b2a(si).decode("ascii"))
                sis.append(si)
            statefile = os.path.join(d, "lease_checker.state")
            historyfile = os.path.join(d, "lease_checker.history")

            def make(h, ss=ss, statefile=statefile, historyfile=historyfile):
                RecLease.hx = h
                c = RecLease(ss, statefile, historyfile, False, "age", None, None, ("mutable", "immutable"))
                c.hx = h
                return c
            h = Harness(ck, mods, ss.sharedir, statefile, buckets, make)
            if sched == "empty-prefix-ends":
                for pfx in (prefixes[0], prefixes[2], prefixes[300]):
                    h.jumps.add((0, "prefix-end", pfx))
            elif sched == "after-2nd-bucket":
                marker = buckets[1]
                h.jumps.add((0, "after-bucket", marker))
                if lp.get("delete_marker"):
                    def delete_slot(ss=ss, si=sis[1]):
                        ok, _ = ss.slot_testv_and_readv_and_writev(
                            si, (b"w" * 32, bytes([2]) * 32, bytes([66]) * 32), {0: ([], [], 0)}, [])
                        assert ok and not os.path.exists(os.path.join(ss.sharedir, si_b2a(si).decode("ascii")[:2],
                                                                      si_b2a(si).decode("ascii")))
                    h.after_slice[(0, "after-bucket", marker)] = delete_slot
                    h.dynamic.add(marker)
                    h.static.discard(marker)
            else:
                layout = (2, 1, 1)
                for kind, arg in schedule(sched, points_for(layout, sorted(buckets))):
                    h.jumps.add((0, kind, arg))
            plan = {"family": "lease-checker", "restart_mode": name, "schedule": sched,
                    "bucket_prefixes": lp["where"]}
            ck.hit("lease-checker-family")
            guarded(h, "lease-checker-restart", ("l", name, sched), plan, lambda h, mode=mode: h.run_until(2, mode))
        finally:
            shutil.rmtree(d, ignore_errors=True)

    kill_layouts = [(1, 1, 1), (2, 2, 2)] if ck.tier == "quick" else [(1, 1, 1), (2, 2, 2), (3, 0, 3), (0, 6, 0), (1, 4, 1)]
    kill_complete = True
    for layout in kill_layouts:
        site = Site(layout)
        try:
            pts = points_for(layout, site.buckets)
            for sched in ("none", "after-every-bucket", "every-prefix-point", "alternate"):
                if ck.tier == "quick" and ((layout == (2, 2, 2)) != (sched == "alternate")):
                    continue
                chosen = schedule(sched, pts)

                def arm(h):
                    for cyc in (0, 1):
                        for kind, arg in chosen:
                            h.jumps.add((cyc, kind, arg))
                # baseline run: which points / saves exist
                h0 = site.harness()
                arm(h0)
                guarded(h0, "kill-baseline", ("kb", layout, sched), {"family": "kill-baseline", "layout": layout,
                                                                      "schedule": sched},
                        lambda h: h.run_until(2))
                interesting = set(p[1] for p in pts if p[0] == "prefix-end")
                kpoints = []
                for (cyc, kind, arg) in h0.points_seen:
                    if kind == "prefix-end" and arg not in interesting:
                        continue
                    kpoints.append(("hook", (cyc, kind, arg)))
                for n in range(h0.saves):
                    for st in SAVE_STEPS:
                        kpoints.append(("save", (n, st)))
                for kpi, kp in enumerate(kpoints):
                    if ck.tier == "quick" and layout == (2, 2, 2) and (kpi + ck.seed) % 2:
                        continue
                    if not mine():
                        continue
                    if (not ck.more(min_cases=10 ** 9)):
                        kill_complete = False
                        break
                    h = site.harness()
                    arm(h)
                    if kp[0] == "hook":
                        h.kill_at = kp[1]
                    else:
                        h.kill_save = kp[1]
                        ck.hit("kill-inside-save-state")
                    plan = {"family": "single-kill", "layout": layout, "schedule": sched, "kill": kp}
                    guarded(h, "single-kill", ("k", layout, sched, kp), plan, lambda h: h.run_until(3))
                    if h.kills != 1:
                        ck.observe("planned-kill-point-not-reached")
        finally:
            site.close()
    ck.extra["enumeration"] = {"tier": ck.tier, "interruption_subsets_complete": bool(complete),
                               "kill_points_complete": bool(kill_complete),
                               "note": "per shard; ck.exhaustive is the AND over all shards"}

    # ------------------------------------------------------------ E4 seeded multi-fault runs, dynamic buckets
    rng = ck.rng("c27-mix")
    nmix = 40 if ck.tier == "quick" else 1500
    for i in range(nmix):
        layout = tuple(rng.choice([0, 0, 1, 1, 2, 3]) for _ in range(3))
        while sum(layout) > 6:
            layout = tuple(max(0, x - 1) for x in layout)
        if not mine():
            continue
        if (not ck.more(min_cases=10 ** 9)):
            break
        site = Site(layout)
        try:
            pts = points_for(layout, site.buckets)
            h = site.harness()
            plan = {"family": "mix", "layout": layout, "interrupt": [], "kills": [], "dynamic": []}
            for cyc in range(3):
                for kind, arg in pts:
                    if rng.random() < .35:
                        h.jumps.add((cyc, kind, arg))
                        plan["interrupt"].append([cyc, kind, arg])
                if rng.random() < .3:
                    pfx = rng.choice(prefixes)
                    h.jumps.add((cyc, "prefix-end", pfx))
                    plan["interrupt"].append([cyc, "prefix-end", pfx])
            kills = []
            for _ in range(rng.choice([0, 1, 1, 2, 3])):
                if rng.random() < .5 and pts:
                    kind, arg = rng.choice(pts)
                    kind = rng.choice(["before-bucket", "after-bucket"]) if kind == "after-bucket" else kind
                    kills.append(("hook", (rng.randint(0, 2), kind, arg)))
                else:
                    kills.append(("save", (rng.randint(0, 12), rng.choice(SAVE_STEPS))))
            plan["kills"] = kills
            # dynamic buckets: added / removed at a hook point in cycle 1
            if pts and rng.random() < .4:
                newb = rng.choice(P3) + "dddddddddddddddddddddddd"
                kind, arg = rng.choice(pts)
                if newb not in site.buckets:
                    h.dynamic.add(newb)
                    h.actions[(1, kind, arg)] = (lambda b=newb: site.add_bucket(b))
                    plan["dynamic"].append(["add", newb, kind, arg])
            if site.buckets and rng.random() < .3:
                gone = rng.choice(site.buckets)
                kind, arg = rng.choice(pts)
                h.static.discard(gone)
                h.dynamic.add(gone)
                h.actions[(1, "after-bucket" if kind == "after-bucket" else kind, arg)] = \
                    (lambda b=gone: site.remove_bucket(b))
                plan["dynamic"].append(["remove", gone, kind, arg])
            mode = rng.choice(MODES)
            plan["restart_mode"] = mode

            def body(h, kills=kills, mode=mode):
                pending = list(kills)
                # arm kills one at a time (each is one-shot); continue until 4 cycles are complete
                while True:
                    if h.kill_at is None and h.kill_save is None and pending:
                        k = pending.pop(0)
                        if k[0] == "hook":
                            cyc, kind, arg = k[1]
                            h.kill_at = (max(cyc, h.latest_cycle), kind, arg)
                        else:
                            h.kill_save = (h.saves + k[1][0] % 4, k[1][1])
                    before = h.kills
                    done = h.run_until(4, mode, max_slices=h.slices + 8)
                    if done:
                        return
                    if h.problems and h.problems[-1][0] == "cycle-never-completes" and h.slices < 600:
                        h.problems.pop()       # just our paging of run_until
                        continue
                    return
            guarded(h, "mixed-faults", ("m", i, ck.seed), plan, body)
        finally:
            site.close()

    (crawler_mod.time, expirer_mod.time, lease_mod.time, crawler_mod._dump_json_to_file, crawler_mod.fileutil) = saved
    real_fileutil.os = saved_fileutil_os
    ck.exhaustive = bool(ck.tier == "thorough" and complete and kill_complete)
    ck.require_monitor("coverage-oracle", "cycle-number-oracle")
    ck.require_reach("time-slice-forced", "kill-inside-slice", "kill-inside-save-state",
                     "restart-after-stopService", "restart-after-kill-while-sleeping",
                     "buckets-changed-between-cycles", "bucket-added-between-cycles-judged",
                     "bucket-removed-between-slices",
                     "duplicate-work-after-kill", "lease-checker-family")


# MUST_CATCH  (selftest/breaks_c27.py; run on a base = /repo/src + the proposed expirer fix, quick tier)
#  unchanged tree: LeaseCheckingCrawler restarted mid-cycle       -> lease-checker-resume-histogram-not-a-dict    CAUGHT
#  c27-resume-le-to-lt                                            -> bucket-processed-twice-without-kill          CAUGHT
#  c27-last-complete-bucket-not-reset-at-cycle-end                -> bucket-skipped-in-cycle                      CAUGHT
#  c27-cycle-counter-incremented-twice                            -> cycle-number-not-incremented-by-one (+skips) CAUGHT
#  c27-bucket-cache-reused-across-prefixes                        -> bucket-skipped-in-cycle, wrong-arguments     CAUGHT
#  c27-state-file-written-in-place (kill while half written)      -> state-file-unreadable, cycle number regress  CAUGHT
#  c27-timeslice-check-before-recording-bucket                    -> bucket-processed-twice-without-kill          CAUGHT
#  c27-prefix-marked-complete-before-processing                   -> bucket-skipped-in-cycle                      CAUGHT
#  c27-last-prefix-index-not-reset-at-cycle-end                   -> bucket-skipped-in-cycle                      CAUGHT
#  seeded/C27-1 (bucket_cache not overwritten for missing prefix dirs)     -> bucket-skipped-in-cycle (bucket added between two cycles)    CAUGHT
#  seeded/C27-5 (resume by exact match of last-complete-bucket)                -> bucket-processed-twice-without-kill (marker bucket removed between slices) CAUGHT
#  seeded/C27-6 (empty lease-age histogram not converted back on reload)       -> lease-checker-resume-histogram-not-a-dict (state saved after empty prefixes) CAUGHT
#  seeded/C27-7 (move_into_place unlinks the state file before the rename)  -> cycle-number-not-incremented-by-one (kill inside move_into_place before os.rename)  CAUGHT
