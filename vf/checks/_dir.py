"""Shared helpers of the directory checks C18 - C21.

Everything that plays the role of an oracle here is written independently of
the repository: the netstring / directory-entry parser, the child write-cap
(rwcap) cipher, NFC normalisation, the cap attenuation chain (via _caps) and
the name-map model.  Nothing at module level imports allmydata; the grid
helpers import it lazily.
"""
import hashlib
import json
import unicodedata

from vf import env  # noqa
from vf.checks import _caps as M

SDMF, MDMF = 0, 1


# ------------------------------------------------------------------ virtual time in dirnode
class VTime(object):
    """Stand-in for the `time` module inside allmydata.dirnode: time() is the virtual reactor clock.
    Every value handed out is remembered so an oracle can name the `now` an update used."""

    def __init__(self):
        self.handed_out = []

    def time(self):
        t = env.reactor.seconds()
        self.handed_out.append(t)
        return t

    def mark(self):
        return len(self.handed_out)

    def since(self, mark):
        return self.handed_out[mark:]


def install_dirnode_clock():
    """dirnode.time := VTime().  Returns (shim, restore)."""
    import allmydata.dirnode as dn
    old = dn.time
    shim = VTime()
    dn.time = shim

    def restore():
        dn.time = old
    return shim, restore


# ------------------------------------------------------------------ names / metadata generators
def nfc(s):
    return unicodedata.normalize("NFC", s)


# (NFD spelling, ...) pairs that collapse under NFC, plus awkward but legal names
NFC_CHANGING = ["é", "Å", "Å", "ȫ", "ẛ̣", "ṩ", "Ω",
                "가", "가", "ño", "é"]
AWKWARD = ["", " ", "a:b", "a,b", "1:a,", "a\x00b", "\x00", ".", "..", "a/b", "\\", "%2F", "‮", "\U0001F600",
           "é", "ﬁ", "x" * 300, "ü" * 200, "0", ",", ":", "\n", "tahoe", "İ", "ß"]


# ---- boundary-biased non-NFC spellings (used by C19 / C20): combining marks at the edges of the Combining Diacritical
# Marks block and the usual ones, on ASCII bases (so that the MARK is the largest code point of the name) and next to
# higher characters; reordering cases (two marks in non-canonical order); Hangul jamo; compatibility characters.
MARKS = ["\u0300", "\u0301", "\u0302", "\u0308", "\u0323", "\u0327", "\u0338", "\u0345", "\u036f"]


def _build_unstable():
    out = []
    bases = ["a", "e", "o", "u", "A", "c", "n", "=", "<", "\u03b1"]
    for m in MARKS:
        for b in bases:
            out.append(b + m)
        for m2 in MARKS:
            if m2 != m:
                out.append("a" + m + m2)
    core = [x for x in out if unicodedata.normalize("NFC", x) != x]
    more = []
    for x in core:
        more.append("voil" + x + ".txt")            # the mark stays the maximum of an otherwise ASCII name
        more.append(x + "\u8a9e")                    # ... or a higher character elsewhere in the name
        more.append("\u00e9" + x)
    extra = ["\u1100\u1161", "\u1100\u1161\u11a8", "\u212b", "\u2126", "\u1e9b\u0323", "q\u0307\u0323", "\u0344", "\u0340", "\u0341", "\u0343",
             "\u0374", "\u037e", "\u0958"]
    allx = [x for x in core + more + extra if unicodedata.normalize("NFC", x) != x]
    return sorted(set(allx))


UNSTABLE = _build_unstable()
UNSTABLE_MARK_IS_MAX = [x for x in UNSTABLE if max(x) in MARKS]
UNSTABLE_U0300_IS_MAX = [x for x in UNSTABLE if max(x) == "\u0300"]


def gen_unstable(rng):
    """A name that changes under NFC, biased to the lowest combining mark being the largest code point of the name."""
    r = rng.random()
    if r < .3:
        return rng.choice(UNSTABLE_U0300_IS_MAX)
    if r < .6:
        return rng.choice(UNSTABLE_MARK_IS_MAX)
    return rng.choice(UNSTABLE)


def mark_is_max(name):
    return bool(name) and max(name) in MARKS and unicodedata.normalize("NFC", name) != name


def gen_name(rng, pool=None):
    r = rng.random()
    if pool and r < .25:
        return rng.choice(pool)
    if r < .45:
        return rng.choice(NFC_CHANGING) + rng.choice(["", "", "1", "-x"])
    if r < .65:
        return rng.choice(AWKWARD)
    if r < .8:
        n = rng.choice([1, 2, 3, 8, 40])
        return "".join(chr(rng.choice([rng.randrange(0x20, 0x7f), rng.randrange(0xa0, 0x800),
                                       rng.randrange(0x800, 0xd800), rng.randrange(0x10000, 0x10400)]))
                       for _ in range(n))
    return "n%d" % rng.randrange(1000)


def gen_json(rng, depth=0):
    r = rng.random()
    if depth >= 3 or r < .5:
        k = rng.randrange(9)
        if k == 0:
            return rng.choice([0, 1, -1, 2 ** 31, 2 ** 53 + 1, 2 ** 64, -2 ** 63 - 1, 10 ** 30, 123456789012345678901234567890])
        if k == 1:
            return rng.choice([0.0, -0.0, 1.5, 1e-7, 1e22, 1.7e308, 5e-324, 0.1 + 0.2, 1 / 3.0, 1700000000.123456,
                               rng.random() * 10 ** rng.randrange(-5, 12)])
        if k == 2:
            return rng.choice([True, False, None])
        if k == 3:
            return rng.choice(["", "é", "é", " ", "\x00", "\\", '"', "\x7f", "\U0001F600", "a" * 200,
                               "\ud800", "</script>", "é́"])
        if k == 4:
            return {}
        if k == 5:
            return []
        return "s%d" % rng.randrange(100)
    if r < .8:
        return {gen_key(rng): gen_json(rng, depth + 1) for _ in range(rng.randrange(0, 4))}
    return [gen_json(rng, depth + 1) for _ in range(rng.randrange(0, 4))]


def gen_key(rng):
    return rng.choice(["k", "", "é", "é", "ctime", "mtime", "x" * 50, "\x00", "a b", "1", "no-write?", "tahoe2",
                       "k%d" % rng.randrange(50)])


def gen_metadata(rng, allow_tahoe=False, allow_no_write=False):
    md = {}
    for _ in range(rng.choice([0, 0, 1, 2, 4])):
        md[gen_key(rng)] = gen_json(rng)
    if allow_tahoe and rng.random() < .3:
        md["tahoe"] = rng.choice([{}, {"linkcrtime": 5.0, "linkmotime": 6.0}, {"linkcrtime": 1e12}, {"evil": "x"}, 7, "str"])
    if allow_no_write and rng.random() < .2:
        md["no-write"] = rng.choice([True, True, False])
    return md


def json_equal(a, b):
    """Python-value equality that distinguishes what JSON distinguishes (1 vs 1.0 vs True)."""
    if type(a) is not type(b):
        return False
    if isinstance(a, dict):
        return set(a) == set(b) and all(json_equal(a[k], b[k]) for k in a)
    if isinstance(a, list):
        return len(a) == len(b) and all(json_equal(x, y) for x, y in zip(a, b))
    if isinstance(a, float):
        return a == b and str(a) == str(b)      # -0.0 vs 0.0
    return a == b


# ------------------------------------------------------------------ independent directory format
def ns(b):
    return b"%d:%s," % (len(b), b)


def split_ns(data, pos):
    """one netstring at data[pos:] -> (payload, next position); ValueError if malformed."""
    colon = data.find(b":", pos)
    if colon < 0 or colon == pos or not data[pos:colon].isdigit():
        raise ValueError("bad netstring length at %d" % pos)
    n = int(data[pos:colon])
    end = colon + 1 + n
    if end >= len(data):
        raise ValueError("truncated netstring at %d" % pos)
    if data[end:end + 1] != b",":
        raise ValueError("netstring at %d not terminated by ','" % pos)
    return data[colon + 1:end], end + 1


class Entry(object):
    __slots__ = ("name_utf8", "ro", "rwcapdata", "metadata_s")

    def __init__(self, name_utf8, ro, rwcapdata, metadata_s):
        self.name_utf8, self.ro, self.rwcapdata, self.metadata_s = name_utf8, ro, rwcapdata, metadata_s


def parse_dir(data):
    """Plaintext directory bytes -> [Entry] (specification: list of netstrings, each a list of four netstrings)."""
    out, pos = [], 0
    while pos < len(data):
        entry, pos = split_ns(data, pos)
        fields, p = [], 0
        for _ in range(4):
            f, p = split_ns(entry, p)
            fields.append(f)
        if p != len(entry):
            raise ValueError("trailing bytes inside a directory entry")
        out.append(Entry(*fields))
    return out


def build_dir(entries):
    """[(name_utf8, ro, rwcapdata, metadata_s)] -> directory bytes, as an independent ('legacy') writer would."""
    return b"".join(ns(b"".join(ns(f) for f in e)) for e in entries)


def sha256d(b):
    return hashlib.sha256(hashlib.sha256(b).digest()).digest()


# tags re-typed from docs/specifications + util/hashutil.py comments (NOT imported)
TAG_CHILD_CAPKEY = b"allmydata_mutable_writekey_and_salt_to_dirnode_child_capkey_v1"
TAG_CHILD_SALT = b"allmydata_dirnode_child_rwcap_to_salt_v1"


def rwcap_key(salt, keymaterial):
    return sha256d(ns(TAG_CHILD_CAPKEY) + ns(salt) + ns(keymaterial))[:16]


def aes128_ctr(key, data):
    """AES-128-CTR, counter block starting at zero (the `cryptography` package directly, not allmydata.crypto)."""
    from cryptography.hazmat.primitives.ciphers import Cipher, algorithms, modes
    from cryptography.hazmat.backends import default_backend
    c = Cipher(algorithms.AES(key), modes.CTR(b"\x00" * 16), backend=default_backend()).encryptor()
    return c.update(data) + c.finalize()


def decrypt_rwcap(blob, keymaterial, raw_key=False):
    """blob = salt(16) + ciphertext + mac(32).  keymaterial goes through the tagged pair hash unless raw_key."""
    if len(blob) < 48:
        return None
    salt, ct = blob[:16], blob[16:-32]
    if raw_key:
        if len(keymaterial) not in (16, 32):
            return None
        key = keymaterial[:16]
    else:
        key = rwcap_key(salt, keymaterial)
    return aes128_ctr(key, ct)


def encrypt_rwcap(writekey, rw_uri):
    """Legacy writer: random-looking salt, AES-CTR, 32 arbitrary MAC bytes (the MAC is documented as unverified)."""
    salt = sha256d(ns(TAG_CHILD_SALT) + rw_uri)[:16]
    return salt + aes128_ctr(rwcap_key(salt, writekey), rw_uri) + b"\x00" * 32


# ------------------------------------------------------------------ independent cap analysis
MUTABLE_FAMILIES = [("SSK", "SSK-RO", "SSK-Verifier"), ("MDMF", "MDMF-RO", "MDMF-Verifier"),
                    ("DIR2", "DIR2-RO", "DIR2-Verifier"), ("DIR2-MDMF", "DIR2-MDMF-RO", "DIR2-MDMF-Verifier")]
CHK_FAMILIES = [("CHK", "CHK-Verifier"), ("DIR2-CHK", "DIR2-CHK-Verifier")]
_FAM = {}
for _f in MUTABLE_FAMILIES:
    for _n in _f:
        _FAM[_n] = _f
for _f in CHK_FAMILIES:
    for _n in _f:
        _FAM[_n] = _f


class CapInfo(object):
    """What the specification says a cap string means (hash chain from _caps)."""

    def __init__(self, s):
        self.string = s
        self.alleged, body = M.strip_alleged(s)
        self.kind = M.kind_of_prefix(body)
        self.writekey = self.readkey = self.si = self.fp = None
        self.readonly = self.verify = None
        self.known = self.kind is not None
        if not self.known:
            return
        k = self.kind
        f = body[len(k.prefix):].split(b":")
        if k.shape == "lit":
            self.readonly = body
            return
        a = M.b32dec_lenient(f[0])
        fam = _FAM[k.name]
        if k.shape == "chk":
            rest = (M.b32dec_lenient(f[1]), int(f[2]), int(f[3]), int(f[4]))
            if k.level == "r":
                self.readkey, self.si = a, M.chk_si(a)
                self.readonly = body
            else:
                self.si = a
            self.size = rest[3]
            self.verify = M.fmt(M.BY_NAME[fam[1]], (self.si,) + rest)
            return
        self.fp = M.b32dec_lenient(f[1])
        if k.level == "w":
            self.writekey = a
            self.readkey = M.ssk_readkey(a)
        elif k.level == "r":
            self.readkey = a
        if self.readkey is not None:
            self.si = M.ssk_si(self.readkey)
            self.readonly = M.fmt(M.BY_NAME[fam[1]], (self.readkey, self.fp))
        else:
            self.si = a
        self.verify = M.fmt(M.BY_NAME[fam[2]], (self.si, self.fp))

    @property
    def is_write(self):
        return self.known and self.kind.level == "w"

    @property
    def is_dir(self):
        return self.known and self.kind.is_dir

    @property
    def is_mutable(self):
        return self.known and self.kind.mutable

    def filenode_cap(self):
        """The cap string of the file that backs a directory cap (DIR2-x -> x)."""
        k = self.kind
        body = M.strip_alleged(self.string)[1]
        return M.BY_NAME[k.inner].prefix + body[len(k.prefix):]


def b32(b):
    return M.b32enc(b)


def leaks(secret, text):
    """Does `text` carry `secret` as aligned base32 or byte-aligned (raw or inside a base32 field)?"""
    import re
    if not secret or not text:
        return False
    enc = M.b32enc(secret)
    if enc[:-1] in text or secret in text:
        return True
    for f in re.split(rb"[^a-z2-7]+", text):
        if len(f) >= 8:
            d = M.b32dec_lenient(f)
            if d is not None and secret in d:
                return True
    return False


def readkey_material(info):
    """Everything a read-cap holder of a mutable directory can compute: {label: bytes}."""
    out = {"readkey": info.readkey, "storage-index": info.si, "fingerprint": info.fp, "fingerprint[:16]": info.fp[:16],
           "H_w2r(readkey)": M.ssk_readkey(info.readkey), "H_r2si(si)": M.ssk_si(info.si), "empty": b"",
           "zero16": b"\x00" * 16, "readcap-string": info.readonly, "verifycap-string": info.verify,
           "b32(readkey)": M.b32enc(info.readkey)}
    return out


# ------------------------------------------------------------------ mutable share fields (reader-visible, outside the signature)
TAG_PRIVKEY_TO_WRITEKEY = b"allmydata_mutable_privkey_to_writekey_v1"     # re-typed (mutable.rst / hashutil comments)


def enc_privkey_field(share):
    """The 'encrypted private key' field of an SDMF (version 0) or MDMF (version 1) share, located through the offset
    table as the specification lays it out; None when the bytes are not such a share."""
    import struct
    if not share:
        return None
    if share[0] == 0:
        fmt = ">BQ32s16sBBQQLLLLQQ"
        if len(share) < struct.calcsize(fmt):
            return None
        f = struct.unpack(fmt, share[:struct.calcsize(fmt)])
        o_enc, o_eof = f[-2], f[-1]
        return share[o_enc:o_eof]
    if share[0] == 1:
        fmt = ">BQ32sBBQQQQQQQQQQ"
        if len(share) < struct.calcsize(fmt):
            return None
        f = struct.unpack(fmt, share[:struct.calcsize(fmt)])
        o_enc, o_shc = f[7], f[8]
        return share[o_enc:o_shc]
    return None


def block_data_region(share):
    """(start, end) of the block-data region of an SDMF / MDMF share (offset table per the specification), or None."""
    import struct
    if not share:
        return None
    if share[0] == 0:
        fmt = ">BQ32s16sBBQQLLLLQQ"
        if len(share) < struct.calcsize(fmt):
            return None
        f = struct.unpack(fmt, share[:struct.calcsize(fmt)])
        return (f[-3], f[-2])
    if share[0] == 1:
        fmt = ">BQ32sBBQQQQQQQQQQ"
        if len(share) < struct.calcsize(fmt):
            return None
        f = struct.unpack(fmt, share[:struct.calcsize(fmt)])
        return (f[12], f[13])
    return None


def damage_block_data(g, si, rng):
    """Flip one byte inside the block data of ONE share of the mutable object `si`, directly in the share file on disk
    (damage that only a verifier, which reads every share, is bound to meet).  -> (server name, shnum) or None."""
    found = g.find_shares(si)
    if not found:
        return None
    vs, shnum, path = rng.choice(found)
    res = vs.ss.slot_readv(si, [shnum], [(0, 4000000)])
    share = res.get(shnum, [b""])[0]
    reg = block_data_region(share)
    if reg is None or reg[1] - reg[0] < 1:
        return None
    with open(path, "rb") as f:
        raw = f.read()
    base = raw.find(share[:96])
    if base < 0 or raw.find(share[:96], base + 1) >= 0:
        return None
    pos = base + rng.randrange(reg[0], reg[1])
    with open(path, "r+b") as f:
        f.seek(pos)
        f.write(bytes([raw[pos] ^ (1 << rng.randrange(8))]))
    return (vs.name, shnum)


def der_trim(b):
    """Cut a byte string that starts with a DER SEQUENCE (long form, 2 length bytes) to that object's length."""
    if len(b) >= 4 and b[0] == 0x30 and b[1] == 0x82:
        return b[:4 + int.from_bytes(b[2:4], "big")]
    return b


def writekey_of_signing_key(der):
    return M.tagged(TAG_PRIVKEY_TO_WRITEKEY, der, 16)


# ------------------------------------------------------------------ unknown ("future") caps
UNKNOWN_SCHEMES = [b"x-tahoe-future-test-writeable:", b"x-tahoe-future-test-mutable:", b"x-tahoe-future:",
                   b"lafs://from_the_future/"]
ALLEGED = [b"", b"ro.", b"imm."]


def gen_unknown_pair(rng, tag):
    """(rw_given, ro_given) for set_uri / create_from_cap; distinct strings so a leak is attributable."""
    sch_w, sch_r = rng.choice(UNKNOWN_SCHEMES), rng.choice(UNKNOWN_SCHEMES)
    secret = "".join(rng.choice("abcdefghijklmnopqrstuvwxyz234567") for _ in range(16)).encode()
    rw = rng.choice(ALLEGED + [b""]) + sch_w + b"W-" + secret + b"-" + tag
    ro = rng.choice(ALLEGED + [b""]) + sch_r + b"R-" + tag
    slot = rng.choice(["rw", "ro", "both", "both"])
    if slot == "rw":
        return rw, None
    if slot == "ro":
        return None, ro
    return rw, ro


# ------------------------------------------------------------------ grid helpers
class OpFailed(Exception):
    def __init__(self, st, res, what=""):
        Exception.__init__(self, "%s: %s %s" % (what, st, fdesc(res)))
        self.st, self.res, self.what = st, res, what

    def check(self, *types):
        return self.st == "err" and self.res.check(*types) is not None


def fdesc(res):
    try:
        return "%s: %s" % (res.type.__name__, str(res.value)[:300])
    except Exception:
        return repr(res)[:300]


def ok(g, d, what=""):
    st, res = g.wait(d)
    if st != "ok":
        raise OpFailed(st, res, what)
    return res


def show(b):
    if isinstance(b, bytes):
        return b.decode("latin-1")
    return b


def node_caps(n):
    """(write uri, read-only uri) as reported by the node at its public interface."""
    return (n.get_write_uri(), n.get_readonly_uri())


def is_unknown(n):
    return bool(n.is_unknown())


def read_backing_bytes(g, client, dircap_string):
    """Plaintext contents of the file behind a directory cap, fetched with exactly that authority."""
    from allmydata.util.consumer import download_to_data
    info = CapInfo(dircap_string)
    fcap = info.filenode_cap()
    fn = client.create_node_from_uri(fcap)
    if info.kind.shape == "lit":
        return ok(g, download_to_data(fn), "read LIT dir")
    if info.is_mutable:
        return ok(g, fn.download_best_version(), "download dir backing file")
    return ok(g, download_to_data(fn), "download immutable dir backing file")


def make_file(g, c, rng, kind, tag):
    """Create a real file on the grid -> (node, content)."""
    from allmydata.immutable.upload import Data
    from allmydata.mutable.publish import MutableData
    if kind == "lit":
        data = (b"L%s-" % tag) + bytes(rng.randrange(32, 127) for _ in range(rng.choice([0, 1, 5, 20])))
        data = data[:55]
        res = ok(g, c.upload(Data(data, convergence=b"")), "upload LIT")
        return c.create_node_from_uri(res.get_uri()), data
    if kind == "chk":
        data = (b"C%s-" % tag) + rng.randbytes(rng.choice([56, 60, 100, 300, 2000]))
        res = ok(g, c.upload(Data(data, convergence=b"")), "upload CHK")
        return c.create_node_from_uri(res.get_uri()), data
    data = (b"M%s-" % tag) + rng.randbytes(rng.choice([0, 1, 30, 200]))
    n = ok(g, c.create_mutable_file(MutableData(data), version=SDMF if kind == "ssk" else MDMF), "create mutable")
    return n, data


LIT_EMPTY = b"URI:LIT:"


def lit_cap(data):
    return b"URI:LIT:" + M.b32enc(data)


# ------------------------------------------------------------------ fake (grid-less) caps of every kind
def fake_cap(rng, kind_name):
    """Canonical cap string of the given kind with random secrets."""
    kind = M.BY_NAME[kind_name]
    f = M.rand_fields(rng, kind)
    if kind.shape == "chk":
        f = (f[0], f[1], rng.randrange(1, 20), rng.randrange(20, 40), rng.choice([0, 1, 56, 1000, 2 ** 40]))
    return M.fmt(kind, f)


def gridless_nodemaker():
    from allmydata.nodemaker import NodeMaker
    return NodeMaker(None, None, None, None, None, {"k": 3, "n": 10}, None, None)
