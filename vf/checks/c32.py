"""C32 servers ordered consistently; upload permission enforced."""
META = {
    "level": "exploration",
    "technique": "runtime oracle on real StorageFarmBroker instances (fake tub/rref only): hashlib permutation model, cross-broker agreement, upload filter vs a certificate model under a virtual clock; real Tahoe2ServerSelector and Publish.update_goal observed at the fake storage servers",
    "text": "Builds pairs of real StorageFarmBrokers from the same seeded server set (1-10 servers, real ed25519 identities, ~40% also announcing anonymous-storage-NURLs, force_foolscap on/off per broker, announced / static / test_add_rref paths, different insertion orders, connections made and lost through the real _got_connection / notifyOnDisconnect callbacks, re-announcements), configured either directly (StorageClientConfig) or through tahoe.cfg text (from_node_config), with preferred peers and 0-2 grid-manager keys, servers carrying valid / expired / soon-expiring / other-server / foreign-signer / tampered certificates. Oracle: get_servers_for_psi order == preferred first then sha1(psi+announced seed) via hashlib; every IServer's permutation / lease / write-enabler seed equals what the announcement implies; both brokers agree; for_upload=True removes exactly the non-permitted servers (model: C33 predicate with integer clock) and keeps the order, across clock moves over expiry. Also runs the real immutable Tahoe2ServerSelector.get_shareholders and mutable Publish.update_goal against these brokers and checks no allocate_buckets / new goal entry reaches a non-permitted server. Sampled.",
    "note": "Servers announcing NURLs become real HTTPNativeStorageServer objects on brokers without force_foolscap (brokers are built with the flag on and off); they connect through their real polling path (_connect -> _got_version / _failed_to_connect), only the wire-level classes storage_client.StorageClientGeneral / StorageClientImmutables are substituted. Tub and remote references are fakes; Publish.update_goal is driven on a Publish object whose planning attributes are set as publish() sets them (no grid yet); order among servers with identical permutation seeds is dont_care.",
}
LEVEL = "exploration"
BUDGET = {"quick": 40, "thorough": 240}
SHARDS = {"quick": 1, "thorough": 8}

import contextlib
import hashlib
import io
import json
from datetime import datetime, timedelta, timezone

from vf import env  # noqa
from vf.checks._keys import Key, b32, unb32, raw_verify

EPOCH_DT = datetime(1970, 1, 1, tzinfo=timezone.utc)
T0 = 1_700_000_000 * 10 ** 6


def dt_of(us):
    return EPOCH_DT + timedelta(microseconds=us)


class MServer(object):
    """Harness model of one storage server."""

    def __init__(self, rng, i, horizon):
        self.key = Key(rng, "S%d" % i)
        self.sid = self.key.v0                       # b"v0-<52 chars>"
        self.tubid_raw = bytes(rng.getrandbits(8) for _ in range(20))
        self.tubid = b32(self.tubid_raw)
        self.furl = "pb://%s@tcp:127.0.0.%d:%d/%s" % (self.tubid.decode(), i + 1, 1000 + i, "swiss%d" % i)
        self.seed_ann = None
        r = rng.random()
        if r < .45:
            self.seed_ann = bytes(rng.getrandbits(8) for _ in range(rng.choice([20, 20, 32, 1])))
        self.certs = []        # (kind, cert_bytes, sig, subject_pub_s, expires_us)
        self.horizon = horizon
        self.path = rng.choice(["announce", "announce", "static", "test_add_rref"])
        self.connected = rng.random() < .85
        if not self.connected and self.path == "test_add_rref":
            self.path = "announce"        # test_add_rref always yields a connected server
        self.nick = "srv-%d" % i
        # a share of the servers also announce HTTP storage (NURLs): clients that do not force Foolscap then build
        # HTTPNativeStorageServer objects for them
        # unique within a case (i < 64): the fake HTTP endpoints and the allocate_buckets log are keyed by port
        self.port = 20000 + 64 * rng.randrange(600) + i
        self.nurls = None
        if rng.random() < .4:
            self.nurls = ["pb://1WUX44xKjKdpGLohmFcBNuIRN-8rlv1Iij_7rQ4jR1I@127.0.0.%d:%d/sw%d#v=1" % (i + 1, self.port, i)]
            if self.path == "test_add_rref":
                self.path = "announce"    # test_add_rref marks Foolscap-style connectedness only

    def seed(self):
        if self.seed_ann is not None:
            return self.seed_ann
        return unb32(self.sid[3:])           # v0-<pubkey>: the raw public key bytes

    def ann(self):
        a = {"service-name": "storage", "anonymous-storage-FURL": self.furl, "nickname": self.nick}
        if self.seed_ann is not None:
            a["permutation-seed-base32"] = b32(self.seed_ann).decode("ascii")
        if self.nurls:
            a["anonymous-storage-NURLs"] = list(self.nurls)
        if self.certs:
            a["grid-manager-certificates"] = [
                {"certificate": c[1].decode("utf-8"),
                 # an "unparseable" entry: a signature string that is not base32 at all
                 "signature": b32(c[2]).decode("ascii") if c[0] != "unparseable" else "!" + b32(c[2]).decode("ascii")[1:]}
                for c in self.certs]
        return a

    def permitted(self, configured, now_us):
        """C33 predicate; None on the (never generated) equality instant."""
        if not configured:
            return True
        for kind, cert, sig, subject, exp in self.certs:
            if kind == "unparseable":
                continue            # grants nothing and hides nothing (the server's other certificates still count)
            if any(raw_verify(k.raw_pub, sig, cert) for k in configured) and subject == self.key.pub_s and exp > now_us:
                return True
        return False


def cert_bytes(subject_s, expires_us):
    return json.dumps({"expires": dt_of(expires_us).isoformat(), "public_key": subject_s.decode("ascii"), "version": 1},
                      separators=(",", ":"), sort_keys=True).encode("utf-8")


def model_order(servers, preferred, psi):
    """ids in the order the statement prescribes, and tie groups."""
    def key(s):
        return (s.sid not in preferred, hashlib.sha1(psi + s.seed()).digest())
    ordered = sorted(servers, key=key)
    return [s.sid for s in ordered], [key(s) for s in ordered]


def same_modulo_ties(got, want_ids, want_keys):
    """(equal as sequences allowing any order inside a run of equal sort keys, model has such a run)"""
    has_tie = len(set(want_keys)) != len(want_keys)
    if len(got) != len(want_ids) or set(got) != set(want_ids):
        return False, has_tie
    if got == want_ids:
        return True, has_tie
    i = 0
    while i < len(want_ids):
        j = i
        while j + 1 < len(want_ids) and want_keys[j + 1] == want_keys[i]:
            j += 1
        if set(got[i:j + 1]) != set(want_ids[i:j + 1]):
            return False, has_tie
        i = j + 1
    return True, has_tie


def run(ck):
    from twisted.application import service
    from twisted.internet import defer
    from foolscap.eventual import eventually
    from allmydata import grid_manager as gm
    from allmydata import storage_client as sc_mod
    from allmydata.storage.http_client import ImmutableCreateResult
    from allmydata.storage_client import StorageFarmBroker, StorageClientConfig
    from allmydata.node import config_from_string
    from allmydata.client import _valid_config, SecretHolder
    from allmydata.immutable.upload import Tahoe2ServerSelector, UploadStatus
    from allmydata.mutable.publish import Publish
    from allmydata.mutable.common import NotEnoughServersError
    from allmydata.interfaces import SDMF_VERSION
    from allmydata.crypto import ed25519

    ck.rule = ("case = server set (1-10 servers; seed announced or derived from the key; add path; connected or not; "
               "0-3 certificates each) x config mode (direct / tahoe.cfg text) x preferred subset x 0-2 grid-manager keys, "
               "two brokers with different insertion orders, 3-5 storage indexes, 2-4 clock values, one reconnect/"
               "re-announce/disconnect history step; distinct = (server ids+seeds, preferred, keys, psi list); "
               "non-trivial = >=2 connected servers")
    ck.assumptions.append("clock values are never exactly equal to a certificate expiry (that instant is judged in C33)")
    rng = ck.rng("c32")
    real_now = gm.current_datetime_with_zone
    now_box = [T0 + 1]
    gm.current_datetime_with_zone = lambda: dt_of(now_box[0])

    class FakeReconnector(object):
        def __init__(self): self.resets = 0; self.stopped = False
        def reset(self): self.resets += 1
        def stopConnecting(self): self.stopped = True
        def getReconnectionInfo(self): return None

    class FakeTub(service.MultiService):
        def __init__(self, registry):
            service.MultiService.__init__(self)
            self.registry = registry
        def connectTo(self, furl, cb):
            self.registry.append((furl, cb))
            return FakeReconnector()

    class FakeBucketWriter(object):
        def callRemote(self, *a, **kw): return defer.succeed(None)

    class FakeRref(object):
        """What a connected RIStorageServer looks like to the client."""
        def __init__(self, sid, log, maxsize=2 ** 32 - 1):
            self.sid = sid; self.log = log; self._lost = []
            self.v = {b"http://allmydata.org/tahoe/protocols/storage/v1": {
                b"maximum-immutable-share-size": maxsize, b"available-space": 10 ** 9},
                b"application-version": b"fake"}
        def callRemote(self, name, *args, **kw):
            if name == "get_version":
                return defer.succeed(self.v)
            self.log.append((name, self.sid))
            if name == "get_buckets":
                return defer.succeed({})
            if name == "allocate_buckets":
                return defer.succeed((set(), {sh: FakeBucketWriter() for sh in args[3]}))
            return defer.succeed(None)
        def notifyOnDisconnect(self, cb, *a, **kw):
            self._lost.append(cb)
        def getDataLastReceivedAt(self): return None
        def lose(self):
            cbs, self._lost = self._lost, []
            for cb in cbs:
                cb()

    # The only substitution on the HTTP side: the wire-level client classes storage_client.py instantiates.  Server
    # objects, their polling (_connect -> _got_version / _failed_to_connect) and _HTTPStorageServer stay real.
    http_down = set()       # ports that currently refuse get_version
    http_log = []           # (call, port)
    HTTP_VERSION = {b"http://allmydata.org/tahoe/protocols/storage/v1": {
        b"maximum-immutable-share-size": 2 ** 32 - 1, b"available-space": 10 ** 9}, b"application-version": b"fake-http"}

    class FakeGeneral(object):
        def __init__(self, client): self.port = client._base_url.port
        def get_version(self):
            # answered in a later turn, as a network would: _connect() stores its Deferred only after building the
            # chain, so a synchronous answer would leave it "still connecting" for ever
            d = defer.Deferred()
            if self.port in http_down:
                eventually(d.errback, ConnectionRefusedError("vf: port %d down" % self.port))
            else:
                eventually(d.callback, HTTP_VERSION)
            return d

    class FakeImmutables(object):
        def __init__(self, client): self.port = client._base_url.port
        def create(self, storage_index, share_numbers, allocated_size, upload_secret, renew, cancel):
            http_log.append(("allocate_buckets", self.port))
            return defer.succeed(ImmutableCreateResult(already_have=set(), allocated=set(share_numbers)))
        def list_shares(self, storage_index):
            http_log.append(("get_buckets", self.port))
            return defer.succeed(set())
    real_http = (sc_mod.StorageClientGeneral, sc_mod.StorageClientImmutables)
    sc_mod.StorageClientGeneral, sc_mod.StorageClientImmutables = FakeGeneral, FakeImmutables

    def drain():
        n = 0
        while env.evq.pending() and n < 50:
            env.evq._turn(); n += 1

    class BrokerHarness(object):
        """One real StorageFarmBroker plus the fake network under it."""
        def __init__(self, mode, preferred, configured, force_foolscap):
            self.mode = mode
            self.force_foolscap = force_foolscap
            self.http = {}          # sid -> this broker holds an HTTPNativeStorageServer for it
            ff = "force_foolscap = %s\n" % ("true" if force_foolscap else "false")
            self.registry = []      # (furl, got_connection cb) from FakeTub.connectTo
            self.rrefs = {}         # sid -> FakeRref
            self.log = []           # remote calls seen by fake storage servers
            self.paths = {}         # sid -> how this broker learnt of the server
            if mode == "direct":
                node_cfg = config_from_string("/nonexistent-vf", "tub.port", "[client]\n" + ff, _valid_config())
                scc = StorageClientConfig(preferred_peers=tuple(preferred),
                                          grid_manager_keys=[ed25519.verifying_key_from_string(k.pub_s) for k in configured])
            else:
                txt = "[client]\n" + ff
                if preferred:
                    txt += "peers.preferred = %s\n" % ", ".join(p.decode("ascii") for p in preferred)
                if configured:
                    txt += "[grid_managers]\n" + "".join("gm%d = %s\n" % (i, k.pub_s.decode("ascii"))
                                                         for i, k in enumerate(configured))
                node_cfg = config_from_string("/nonexistent-vf", "tub.port", txt, _valid_config())
                scc = StorageClientConfig.from_node_config(node_cfg)
                ck.hit("config-via-tahoe-cfg")
            self.sb = StorageFarmBroker(True, lambda overrides: FakeTub(self.registry), node_cfg, scc)

        def add(self, ms):
            ann = ms.ann()
            self.paths[ms.sid] = ms.path
            self.http[ms.sid] = bool(ms.nurls) and not self.force_foolscap
            if self.http[ms.sid]:
                # start_connecting() polls at once: the fake HTTP endpoint answers or refuses according to http_down
                (http_down.discard if ms.connected else http_down.add)(ms.port)
                ck.hit("http-server-object")
            if ms.path == "announce":
                self.sb._got_announcement(ms.sid, ann)
                ck.hit("path:announcement")
            elif ms.path == "static":
                a = dict(ann); a.pop("service-name")
                self.sb.set_static_servers({ms.sid.decode("ascii"): {"ann": a}})
                ck.hit("path:static")
            else:
                rref = FakeRref(ms.sid, self.log)
                rref.version = rref.v
                self.sb.test_add_rref(ms.sid, rref, ann)
                self.rrefs[ms.sid] = rref
                ck.hit("path:test_add_rref")
                return
            if self.http[ms.sid]:
                drain()
                obj = self.server(ms)
                if type(obj).__name__ != "HTTPNativeStorageServer":
                    raise RuntimeError("expected an HTTP server object for %r" % ms.sid)
                return
            if ms.connected:
                self.connect(ms)

        def server(self, ms):
            return [s for s in self.sb.get_known_servers() if s.get_serverid() == ms.sid][0]

        def connect(self, ms):
            """the tub calls the got_connection callback it was given in connectTo"""
            if self.http[ms.sid]:
                http_down.discard(ms.port)
                self.server(ms).try_to_connect()          # public IServer method: poll now
                drain()
                ck.hit("connected-via-http-poll")
                return
            cbs = [cb for furl, cb in self.registry if furl == ms.furl.encode("utf-8")]
            if not cbs:
                raise RuntimeError("no connectTo seen for %r" % ms.sid)
            rref = FakeRref(ms.sid, self.log)
            self.rrefs[ms.sid] = rref
            cbs[-1](rref)
            drain()
            ck.hit("connected-via-got_connection")

        def can_disconnect(self, ms):
            if self.http[ms.sid]:
                return True
            r = self.rrefs.get(ms.sid)
            return r is not None and bool(r._lost)

        def disconnect(self, ms):
            if self.http[ms.sid]:
                http_down.add(ms.port)
                self.server(ms).try_to_connect()          # the next poll fails -> _failed_to_connect
                drain()
                ck.hit("disconnected-via-http-poll")
                return
            self.rrefs[ms.sid].lose()            # foolscap fires the notifyOnDisconnect callbacks
            ck.hit("disconnected-via-notifyOnDisconnect")

        def ids(self, psi, for_upload=False):
            if for_upload:
                res = self.sb.get_servers_for_psi(psi, for_upload=True)
            else:
                res = self.sb.get_servers_for_psi(psi)
            return [s.get_serverid() for s in res], res

    class RecordingBroker(object):
        """delegates to the real broker, records how get_servers_for_psi is asked"""
        def __init__(self, sb): self._sb = sb; self.asked = []
        def get_servers_for_psi(self, psi, for_upload=False):
            self.asked.append(for_upload)
            return self._sb.get_servers_for_psi(psi, for_upload=for_upload)
        def __getattr__(self, n): return getattr(self._sb, n)

    class FakeNode(object):
        def __init__(self, si): self.si = si
        def get_storage_index(self): return self.si
        def get_version(self): return SDMF_VERSION

    def wit(servers, preferred, configured, mode, psi, now_us):
        return {"mode": mode, "psi": psi, "now_us": now_us, "preferred": list(preferred),
                "grid_manager_keys": [k.pub_s for k in configured],
                "servers": [{"id": s.sid, "seed": s.seed(), "connected": s.connected, "path": s.path,
                             "nurls": s.nurls,
                             "certs": [(c[0], c[4] - T0) for c in s.certs]} for s in servers]}

    def check_broker(h, servers, preferred, configured, psi, tag):
        """all oracles for one broker, one psi, current clock"""
        now_us = now_box[0]
        conn = [s for s in servers if s.connected]
        want, wkeys = model_order(conn, set(preferred), psi)
        got, objs = h.ids(psi)
        ck.mon("order-oracle")
        ok, tie = same_modulo_ties(got, want, wkeys)
        if tie:
            ck.skip("order-inside-equal-seed-group")      # counted whenever the model has a tie (deterministic evidence)
        if not ok:
            nopref, nkeys = model_order(conn, set(), psi)
            if h.mode == "node-config" and preferred and same_modulo_ties(got, nopref, nkeys)[0]:
                ck.violation("preferred-peers-from-config-ignored",
                             "broker configured through tahoe.cfg `peers.preferred` orders servers as if no server were preferred "
                             "(StorageClientConfig.from_node_config yields str ids, get_longname() is bytes)",
                             dict(wit(servers, preferred, configured, h.mode, psi, now_us), got=got, want=want))
            elif set(got) != set(want):
                ck.violation("server-set-mismatch", "get_servers_for_psi returned a different server set than the connected servers",
                             dict(wit(servers, preferred, configured, h.mode, psi, now_us), got=got, want=want))
            else:
                ck.violation("server-order-mismatch", "get_servers_for_psi order differs from preferred-first then sha1(psi+seed)",
                             dict(wit(servers, preferred, configured, h.mode, psi, now_us), got=got, want=want))
        # seeds as the IServer API reports them
        for s in objs:
            ms = next(m for m in servers if m.sid == s.get_serverid())
            kind = type(s).__name__
            ck.mon("server-seeds-oracle")
            if kind == "HTTPNativeStorageServer":
                ck.hit("http-server-in-order")
            if s.get_permutation_seed() != ms.seed():
                ck.violation("permutation-seed-mismatch", "%s.get_permutation_seed() differs from the announced/derived seed" % kind,
                             {"id": ms.sid, "class": kind, "got": s.get_permutation_seed(), "want": ms.seed(),
                              "tubid": ms.tubid_raw, "announcement": ms.ann()})
            if s.get_lease_seed() != ms.tubid_raw or s.get_foolscap_write_enabler_seed() != ms.tubid_raw:
                ck.violation("lease-or-write-enabler-seed-mismatch",
                             "%s lease seed / write-enabler seed differ from the tub id in the announced FURL" % kind,
                             {"id": ms.sid, "class": kind, "lease_seed": s.get_lease_seed(),
                              "write_enabler_seed": s.get_foolscap_write_enabler_seed(), "want": ms.tubid_raw})
        # upload filter
        gotu, objsu = h.ids(psi, for_upload=True)
        ck.mon("upload-filter-oracle")
        perm_api = {s.get_serverid(): s.upload_permitted() for s in objs}
        want_api = [i for i in got if perm_api[i]]
        if gotu != want_api:
            ck.violation("for_upload-not-exactly-permitted-subsequence",
                         "for_upload=True result is not the for_upload=False order minus servers whose upload_permitted() is False",
                         dict(wit(servers, preferred, configured, h.mode, psi, now_us), all=got, upload=gotu, permitted=perm_api))
        perm_model = {m.sid: m.permitted(configured, now_us) for m in conn}
        for i in got:
            if i not in perm_model:
                continue
            ck.mon("certificate-oracle")
            if bool(perm_api[i]) != perm_model[i]:
                ms = next(m for m in servers if m.sid == i)
                key = "uploads-to-server-without-valid-certificate" if perm_api[i] else "excludes-server-with-valid-certificate"
                ck.violation(key, "upload_permitted()=%r but the certificate model says %r (cert kinds %s)"
                             % (perm_api[i], perm_model[i], [c[0] for c in ms.certs]),
                             dict(wit(servers, preferred, configured, h.mode, psi, now_us), server=i))
        if configured and any(not v for v in perm_model.values()):
            ck.hit("upload-filter-excluded-a-server")
        if configured and any(perm_model.values()):
            ck.hit("upload-filter-kept-a-server")
        return got, gotu, perm_model

    def drive_immutable(h, servers, configured, psi, rng):
        """real Tahoe2ServerSelector against the broker; the fake storage servers record what reaches them"""
        now_us = now_box[0]
        del h.log[:]
        del http_log[:]
        timers_before = set(env.reactor.getDelayedCalls())
        port2sid = {m.port: m.sid for m in servers}
        rb = RecordingBroker(h.sb)
        sel = Tahoe2ServerSelector(b"vf", None, UploadStatus(), reactor=env.reactor)
        total = rng.choice([1, 3, 5, 10])
        k = rng.randint(1, total)
        happy = rng.randint(1, total)
        out = []
        d = sel.get_shareholders(rb, SecretHolder(b"lease", b"conv"), psi, 1000, 100, 10, total, k, happy, 500)
        d.addBoth(out.append)
        drain()
        for dc in list(env.reactor.getDelayedCalls()):
            if dc not in timers_before and dc.active():
                dc.cancel()                       # the selector's own 15 s timeouts, not the HTTP servers' polling
        if not out:
            ck.observe("immutable-selection-did-not-finish")
            return
        ck.mon("immutable-upload-oracle")
        if rb.asked and all(rb.asked):
            ck.hit("immutable-asks-for_upload")
        perm = {m.sid: m.permitted(configured, now_us) for m in servers}
        conn = {m.sid for m in servers if m.connected}
        if any(h.http.get(m.sid) and m.connected and perm[m.sid] for m in servers):
            ck.hit("immutable-selection-over-http-servers")     # model-derived: which server gets a share is not deterministic
        for name, sid in h.log + [(n, port2sid.get(p)) for n, p in http_log]:
            if name == "allocate_buckets":
                ck.hit("allocate_buckets-observed")
                if not perm[sid]:
                    ck.violation("immutable-upload-allocates-on-unpermitted-server",
                                 "Tahoe2ServerSelector sent allocate_buckets to a server without a valid certificate",
                                 dict(wit(servers, [], configured, h.mode, psi, now_us), server=sid, asked_for_upload=rb.asked))
                if sid not in conn:
                    ck.observe("allocate-on-disconnected")

    def drive_mutable(h, servers, configured, psi, rng):
        """real Publish.update_goal with the planning state publish() would have set"""
        now_us = now_box[0]
        rb = RecordingBroker(h.sb)
        p = Publish(FakeNode(psi), rb, None)
        # TODO(lead): replace this attribute set-up by a full MutableFileNode publish once vf.grid exists;
        # these are exactly the assignments Publish.publish() makes before calling update_goal().
        p.total_shares = rng.choice([1, 3, 5, 10])
        p.full_serverlist = list(rb.get_servers_for_psi(psi))
        p.bad_servers = set()
        p._new_seqnum = 1
        p.goal = set()
        byid = {s.get_serverid(): s for s in p.full_serverlist}
        perm = {m.sid: m.permitted(configured, now_us) for m in servers}
        # pre-existing shares (from a servermap), some on servers that have since lost their certificate
        for sh in range(p.total_shares):
            if byid and rng.random() < .3:
                p.goal.add((byid[rng.choice(sorted(byid))], sh))
        if byid and rng.random() < .3:
            p.bad_servers.add(byid[rng.choice(sorted(byid))])
        before = set(p.goal)
        try:
            p.update_goal()
        except NotEnoughServersError:
            ck.hit("mutable-no-permitted-server")
            ck.mon("mutable-goal-oracle")
            if any(perm[i] and byid[i] not in p.bad_servers for i in byid) and \
                    len(set(sh for (_, sh) in before if _ not in p.bad_servers)) < p.total_shares:
                ck.violation("mutable-goal-refuses-although-permitted-server-exists",
                             "update_goal raised NotEnoughServersError although a permitted, non-bad server is connected",
                             wit(servers, [], configured, h.mode, psi, now_us))
            return
        ck.mon("mutable-goal-oracle")
        for (srv, sh) in p.goal - before:
            ck.hit("mutable-new-placement")
            if not perm[srv.get_serverid()]:
                ck.violation("mutable-goal-adds-unpermitted-server",
                             "Publish.update_goal placed a new share on a server without a valid certificate",
                             dict(wit(servers, [], configured, h.mode, psi, now_us), server=srv.get_serverid(), share=sh))
            if srv in p.bad_servers:
                ck.observe("mutable-new-placement-on-bad-server")
        homed = set(sh for (_, sh) in p.goal)
        if len(homed) != p.total_shares:
            ck.observe("mutable-goal-incomplete")

    ncases = 400 if ck.tier == "quick" else 1500
    chatter = io.StringIO()     # grid_manager's default bad_cert callback print()s every failed signature
    redirect = contextlib.redirect_stdout(chatter)
    redirect.__enter__()
    try:
        for ci in range(ncases):
            if ck.out_of_time():
                break
            n = rng.choice([1, 2, 3, 4, 5, 6, 8, 10])
            ncfg = rng.choice([0, 0, 1, 1, 1, 2])
            configured = [Key(rng, "M%d" % j) for j in range(ncfg)]
            foreign = Key(rng, "Mx")
            horizon = rng.choice([1000, 3600 * 10 ** 6, 10 ** 13])
            servers = [MServer(rng, i, horizon) for i in range(n)]
            if len(set(x.port for x in servers)) != len(servers):
                raise RuntimeError("harness: two model servers share an HTTP port")
            if n >= 2 and rng.random() < .12:
                servers[1].seed_ann = servers[0].seed()          # two servers announcing the same seed (tie)
            # certificates
            exps = set()
            for s in servers:
                for _ in range(rng.choice([0, 1, 1, 2, 3])):
                    kind = rng.choice(["valid", "valid", "soon", "soon", "expired", "other-server", "foreign-signer",
                                       "tampered", "sig-flipped", "unparseable"])
                    signer = rng.choice(configured) if configured else foreign
                    subject = s.key.pub_s
                    exp = T0 + horizon + 2 * rng.randrange(1, 10 ** 9)
                    if kind == "soon":
                        exp = T0 + 2 * rng.randrange(1, max(2, horizon // 2))
                    elif kind == "expired":
                        exp = T0 - 2 * rng.randrange(0, 10 ** 9)
                    elif kind == "other-server":
                        subject = rng.choice(servers).key.pub_s if n > 1 else Key(rng).pub_s
                        if subject == s.key.pub_s:
                            subject = Key(rng).pub_s
                    elif kind == "foreign-signer":
                        signer = foreign
                    cb = cert_bytes(subject, exp)
                    sig = signer.sign(cb)
                    if kind == "tampered":
                        other = Key(rng).pub_s
                        cb = cert_bytes(other, exp); sig = signer.sign(cb)
                        cb = cb.replace(other, s.key.pub_s)              # re-targeted at this server, signature stale
                    elif kind == "sig-flipped":
                        b = bytearray(sig); b[rng.randrange(64)] ^= 1 << rng.randrange(8); sig = bytes(b)
                    s.certs.append((kind, cb, sig, subject, exp))       # exp always even
                    exps.add(exp)
                    ck.hit("cert:" + kind)
            ids = [s.sid for s in servers]
            preferred = rng.sample(ids, rng.choice([0, 0, 1, 1, 2, 3]) if n > 3 else rng.choice([0, 1]))
            if rng.random() < .2:
                preferred.append(Key(rng).v0)                            # a preferred id nobody announced
            mode = rng.choice(["direct", "direct", "node-config"])
            now_box[0] = T0 + 1
            # an HTTP client and a Foolscap client looking at the same announcements must agree
            ffa, ffb = rng.choice([(False, True), (True, False), (False, False), (True, True)])
            A = BrokerHarness(mode, preferred, configured, ffa)
            B = BrokerHarness(mode, preferred, configured, ffb)
            ck.hit("force_foolscap:%s/%s" % (ffa, ffb))
            order_a = list(servers); order_b = list(servers)
            rng.shuffle(order_a); rng.shuffle(order_b)
            for s in order_a:
                A.add(s)
            for s in order_b:
                keep = s.path
                if rng.random() < .5:                 # B learns of it another way
                    s.path = rng.choice(["announce", "static", "test_add_rref"] if s.connected and not s.nurls
                                        else ["announce", "static"])
                B.add(s)
                s.path = keep
            psis = [bytes(rng.getrandbits(8) for _ in range(rng.choice([16, 16, 16, 20, 32, 0, 1])))
                    for _ in range(rng.randint(3, 5))]
            # clock values: odd microseconds (never equal to an even expiry), around the expiries inside the walk
            walk = sorted(set([T0 + 1] + [e + d for e in sorted(exps) if T0 < e <= T0 + horizon for d in (-1, 1)][:4]
                              + [T0 + 1 + 2 * rng.randrange(0, horizon)]))
            step_done = False
            for wi, now_us in enumerate(walk):
                now_box[0] = now_us
                for psi in psis:
                    ra = check_broker(A, servers, preferred, configured, psi, "A")
                    rb_ = check_broker(B, servers, preferred, configured, psi, "B")
                    ck.mon("cross-broker-agreement")
                    conn = [s for s in servers if s.connected]
                    want, wkeys = model_order(conn, set(preferred), psi)
                    if len(set(k[1] for k in wkeys)) != len(wkeys):
                        ck.skip("cross-broker-tie-order")
                    for which, (xa, xb) in (("all", (ra[0], rb_[0])), ("upload", (ra[1], rb_[1]))):
                        if xa != xb:
                            # identical up to tie groups?
                            # (hash part only: each broker is judged against the preferred-first model separately)
                            pos = {i: k[1] for i, k in zip(want, wkeys)}
                            if sorted(xa) == sorted(xb) and [pos.get(i) for i in xa] == [pos.get(i) for i in xb]:
                                pass        # differs only inside a group of equal sha1(psi+seed): statement leaves it open
                            else:
                                ck.violation("brokers-disagree",
                                             "two brokers built from the same servers (different insertion order/path) disagree (%s)" % which,
                                             dict(wit(servers, preferred, configured, mode, psi, now_us), a=xa, b=xb))
                    ck.case("order", key=(tuple((s.sid, s.seed(), s.connected) for s in servers), tuple(preferred),
                                          tuple(k.pub_s for k in configured), psi, now_us, mode),
                            nontrivial=len(conn) >= 2,
                            sample={"mode": mode, "servers": len(servers), "connected": len(conn),
                                    "preferred": len(preferred), "gm_keys": len(configured),
                                    "order": [i[3:11].decode() for i in ra[0]], "upload": [i[3:11].decode() for i in ra[1]]})
                psi = rng.choice(psis)
                # own stream: what these draw must not depend on what the code under test returned
                drive_immutable(rng.choice([A, B]), servers, configured, psi, ck.rng("imm", ci, wi))
                drive_mutable(rng.choice([A, B]), servers, configured, psi, ck.rng("mut", ci, wi))
                # one history step in the middle of the walk
                if not step_done and (wi >= len(walk) // 2):
                    step_done = True
                    s = rng.choice(servers)
                    act = rng.choice(["disconnect", "reconnect", "reannounce", "none"])
                    if act == "disconnect" and s.connected and A.can_disconnect(s) and B.can_disconnect(s):
                        s.connected = False
                        A.disconnect(s); B.disconnect(s)
                        ck.hit("history:disconnect")
                    elif act == "reconnect" and not s.connected:
                        s.connected = True
                        A.connect(s); B.connect(s)
                        ck.hit("history:reconnect")
                    elif act == "reannounce" and A.paths[s.sid] == "announce" and B.paths[s.sid] == "announce":
                        # a newer announcement with a fresh seed and without certificates replaces the server object
                        s.seed_ann = bytes(rng.getrandbits(8) for _ in range(20))
                        s.certs = []
                        s.nick += "'"
                        keep, s.path = s.path, "announce"
                        A.add(s); B.add(s)
                        s.path = keep
                        ck.hit("history:reannounce")
    finally:
        redirect.__exit__(None, None, None)
        ck.extra["bad_cert_messages_printed"] = chatter.getvalue().count("signature failed")
        gm.current_datetime_with_zone = real_now
        sc_mod.StorageClientGeneral, sc_mod.StorageClientImmutables = real_http
        for dc in list(env.reactor.getDelayedCalls()):
            if dc.active():
                dc.cancel()
        env.evq.reset()

    ck.require_monitor("server-seeds-oracle", "order-oracle", "upload-filter-oracle", "certificate-oracle", "cross-broker-agreement",
                       "immutable-upload-oracle", "mutable-goal-oracle")
    ck.require_reach("path:announcement", "path:static", "path:test_add_rref", "connected-via-got_connection",
                     "http-server-object", "http-server-in-order", "connected-via-http-poll", "immutable-selection-over-http-servers",
                     "force_foolscap:False/True", "force_foolscap:True/False",
                     "config-via-tahoe-cfg", "upload-filter-excluded-a-server", "upload-filter-kept-a-server",
                     "immutable-asks-for_upload", "allocate_buckets-observed", "mutable-new-placement")
    ck.exhaustive = False


# MUST_CATCH -- planted in a scratch copy (VF_REPO=/var/tmp/auth_st/... ./check C32), removed afterwards.
# (`preferred-peers-from-config-ignored` was a genuine finding on the original tree; fixed in /repo since.)
# The same list lives in selftest/breaks_c32.py (tools/selftest.py --prop C32): 13/13 caught.
#   util/hashutil.py   permute_server_hash without the storage index ........ caught: server-order-mismatch
#   storage_client.py  `if for_upload:` -> `if False:` ........................ caught: for_upload-not-exactly-permitted-subsequence,
#                                                                                      immutable-upload-allocates-on-unpermitted-server
#   storage_client.py  `if for_upload:` -> `if True:` (filters reads too) ..... caught: server-set-mismatch
#   storage_client.py  is_unpreferred = False (preferred ignored) ............. caught: server-order-mismatch
#   storage_client.py  sorted(..., reverse=True) .............................. caught: server-order-mismatch
#   storage_client.py  no sort (frozenset order) .............................. caught: brokers-disagree, server-order-mismatch
#   storage_client.py  announced permutation-seed-base32 ignored .............. caught: permutation-seed-mismatch, server-order-mismatch
#   storage_client.py  get_connected_servers returns all known servers ........ caught: server-set-mismatch, brokers-disagree
#   storage_client.py  verifier bound to an upper-cased server identity ....... caught: excludes-server-with-valid-certificate,
#                                                                                      mutable-goal-refuses-although-permitted-server-exists
#   mutable/publish.py update_goal: `if not server.upload_permitted():` -> `if False:`  caught: mutable-goal-adds-unpermitted-server
#   immutable/upload.py get_servers_for_psi(storage_index) without for_upload=True ..... caught: immutable-upload-allocates-on-unpermitted-server
#   storage_client.py  HTTPNativeStorageServer.get_lease_seed returns the permutation seed  caught: lease-or-write-enabler-seed-mismatch
#   storage_client.py  HTTPNativeStorageServer.upload_permitted always True ...  caught: brokers-disagree(upload), immutable-upload-allocates-on-unpermitted-server
#   seeded/C32-2       HTTPNativeStorageServer.get_permutation_seed returns the tub id  caught: permutation-seed-mismatch, server-order-mismatch, brokers-disagree
