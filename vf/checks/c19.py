"""C19 directory contents round-trip."""
META = {
    "level": "exploration",
    "technique": "round-trip oracle on the real pack_children/_pack_contents/_unpack_contents (grid-less NodeMaker) and on real create/list of SDMF, MDMF and immutable directories; independent entry parser, rwcap decryptor, NFC and JSON comparison",
    "text": "Random child sets (<= 50 entries; names with NFC-changing sequences, empty, ':' ',' NUL, astral, very long; nested JSON metadata with floats, huge ints, unicode, empty containers; caps of every kind incl. alleged-prefixed and unknown future caps in rw/ro/both slots) are packed by the real code for SDMF/MDMF writeable directories and unpacked by writeable and read-only directory nodes: the result must equal {NFC(name): (rw cap, ro cap, metadata)} (read-only view: no rw caps); names that collide after normalisation must yield exactly one of the colliding inputs. The packed bytes are also read by an independent parser (stored names are NFC UTF-8, metadata is JSON equal to the input, the rwcap slot decrypts under the writekey to the write-cap). Directory bytes written by an independent legacy writer with un-normalised names must unpack to normalised names. Immutable packing must raise MustBeDeepImmutableError iff the model says some child is mutable / write-capable / unknown-with-rw, and otherwise round-trip through an immutable directory node with only immutable children. Edits of an unpacked (cached) child dict must show after re-packing. The result of one directory's unpack / list() is also handed, as is, to the packer of another directory and to create_dirnode / create_subdirectory(initial_children) / create_immutable_dirnode (clone and snapshot must equal the source; snapshot refused iff a child is mutable). Every public entry point that takes a name (set_nodes, set_children, set_node, set_uri, add_file, create_subdirectory, move_child_to) is called with a non-NFC spelling of an existing NFC name: overwrite=False must be refused, overwrite=True must replace exactly that entry, the stored bytes hold one NFC entry per name. MDMF-family caps (files and directories, write and read) are also given with the legacy Tahoe 1.9 extension hints (':3:131073' and other ':'-suffixes) and legacy directory bytes store them verbatim: such a child must be accepted, listed, and still be there after another entry is modified and the directory re-packed (caps compared modulo the hints). A grid part repeats the round trip through create_dirnode/set_children/list and create_immutable_dirnode on real servers.",
    "note": "Trusts unicodedata, json and the `cryptography` AES primitive as second opinions; verifier caps and nodes carrying a recorded error are outside the input space (pack must refuse the latter).",
}
LEVEL = "exploration"
BUDGET = {"quick": 40, "thorough": 200}
SHARDS = {"quick": 1, "thorough": 4}

from vf import env  # noqa
from vf.checks import _dir as D
from vf.checks import _caps as M

KNOWN = ["CHK", "LIT", "SSK", "SSK-RO", "MDMF", "MDMF-RO", "DIR2", "DIR2-RO", "DIR2-CHK", "DIR2-LIT", "DIR2-MDMF",
         "DIR2-MDMF-RO"]
VERIFIERS = ["SSK-Verifier", "MDMF-Verifier", "DIR2-Verifier", "DIR2-CHK-Verifier", "DIR2-MDMF-Verifier"]


class Child(object):
    """One generated child: the real node plus what the model expects to read back."""
    __slots__ = ("node", "rw", "ro", "imm_ok", "cls", "desc", "md", "unknownish", "ext")


def strip_ext(cap):
    """MDMF-family cap without its extension hints (whether the hints survive re-serialisation is left open)."""
    if not cap:
        return cap
    pre, body = M.strip_alleged(cap)
    kind = M.kind_of_prefix(body)
    if kind is None or kind.shape != "mdmf":
        return cap
    f = body[len(kind.prefix):].split(b":")
    return pre + kind.prefix + b":".join(f[:2])


def strengthen(ro, imm=False):
    if imm:
        return b"imm." + M.strip_alleged(ro)[1]
    return ro if M.strip_alleged(ro)[0] else b"ro." + ro


def gen_child(rng, nm, tagno, only_immutable=False):
    """-> Child or None (input outside the API: node with a recorded error)."""
    ch = Child()
    r = rng.random()
    ch.unknownish = False
    ch.ext = b""
    if r < .62:
        names = KNOWN if not only_immutable else ["CHK", "LIT", "DIR2-CHK", "DIR2-LIT"]
        kname = rng.choice(names)
        kind = M.BY_NAME[kname]
        s = D.fake_cap(rng, kname)
        info = D.CapInfo(s)
        prefix = b""
        if rng.random() < .3:
            prefix = b"imm." if (not kind.mutable and rng.random() < .5) else (b"ro." if kind.level != "w" else b"")
        slot = rng.choice(["rw", "ro", "both"] if kind.level == "w" else ["rw", "ro"])
        ext = b""
        if kind.shape == "mdmf" and rng.random() < .4:
            # Tahoe 1.9 wrote MDMF caps with extension hints (k and segment size); the grammar still accepts any ':'-suffix
            ext = rng.choice([b":3:131073", b":3:131073", b":1:1", b":131073", b":"])
        if slot == "both":
            args = (s + ext, info.readonly + ext)
        elif slot == "rw":
            args = (prefix + s + ext, None)
        else:
            args = (None, prefix + s + ext)
        ch.ext = ext
        ch.rw = s if kind.level == "w" else None
        ch.ro = info.readonly
        ch.imm_ok = not kind.mutable
        ch.cls = "known-" + kname
        ch.desc = "%s via %s slot%s%s" % (kname, slot, " prefix " + prefix.decode() if prefix else "",
                                          " with extension hints %r" % ext.decode() if ext else "")
    elif r < .72:
        kname = rng.choice(VERIFIERS)
        s = D.fake_cap(rng, kname)
        prefix = rng.choice([b"", b"ro.", b"imm."])
        args = (None, prefix + s)
        ch.rw, ch.ro = None, strengthen(prefix + s)
        ch.imm_ok, ch.unknownish = True, True
        ch.cls = "verifier-as-unknown"
        ch.desc = "%s%s in ro slot" % (prefix.decode(), kname)
    else:
        rw, ro = D.gen_unknown_pair(rng, b"%d" % tagno)
        if only_immutable:
            rw = None
            ro = ro or b"imm.x-tahoe-future:R-%d" % tagno
        args = (rw, ro)
        if rw and ro:
            ch.rw, ch.ro = rw, strengthen(ro)
        elif rw:
            ch.rw, ch.ro = None, rw
        else:
            ch.rw, ch.ro = None, strengthen(ro)
        ch.imm_ok, ch.unknownish = ch.rw is None, True
        ch.cls = "unknown-" + ("both" if rw and ro else "rw" if rw else "ro")
        ch.desc = "unknown rw=%r ro=%r" % (D.show(rw), D.show(ro))
    ch.node = nm.create_from_cap(args[0], args[1], name="child")
    if getattr(ch.node, "error", None) is not None:
        return ch, False
    return ch, True


def run(ck):
    from allmydata.dirnode import pack_children
    from allmydata.interfaces import MustBeDeepImmutableError, CapConstraintError
    from allmydata.util.dictutil import AuxValueDict

    ck.rule = ("case = (directory flavour: SDMF/MDMF writeable + read-only reader, immutable CHK/LIT, legacy bytes, grid) x "
               "child set (<=50; name class x cap kind x slot x prefix x metadata shape); distinct = distinct (flavour, names, "
               "child classes); non-trivial = at least one non-ASCII name and one child with a write-cap")
    env.set_thread_sync(True)
    rng = ck.rng("c19")
    tagno = [0]

    def mkchildren(crng, nm, n, only_immutable=False, pool=None):
        """-> {namex: (Child)} plus error-node list"""
        kids, errs = {}, []
        for _ in range(n):
            tagno[0] += 1
            ch, okk = gen_child(crng, nm, tagno[0], only_immutable)
            name = D.gen_unstable(crng) if crng.random() < .2 else D.gen_name(crng, pool)
            if not okk:
                if ch.cls.startswith("known-"):
                    ck.violation("valid-capability-refused", "create_from_cap for %s records %s: %s" % (
                        ch.desc, type(ch.node.error).__name__, str(ch.node.error)[:120]), {"child": ch.desc})
                errs.append((name, ch))
                continue
            if ch.ext:
                ck.hit("mdmf-cap-with-extension-hints")
            ch.md = D.gen_metadata(crng, allow_tahoe=True, allow_no_write=True)
            kids[name] = ch
        return kids, errs

    def group(kids):
        """normalised name -> [candidate Child]"""
        out = {}
        for namex, ch in kids.items():
            out.setdefault(D.nfc(namex), []).append(ch)
        return out

    def matches(child, md, cand, view, imm=False):
        rw, ro = D.node_caps(child)
        rw, ro = strip_ext(rw), strip_ext(ro)
        want_ro = cand.ro
        if imm and cand.unknownish:
            want_ro = strengthen(cand.ro, imm=True)
        want_rw = cand.rw if view == "writer" else None
        return rw == want_rw and ro == want_ro and D.json_equal(md, cand.md)

    def compare(result, kids, view, wit, imm=False):
        """result: dict name -> (node, md) from the real unpack; kids: {namex: Child}"""
        groups = group(kids)
        ck.mon("roundtrip-%s" % view)
        got_names, want_names = set(result), set(groups)
        if imm:
            # the x-tahoe-future-test-* schemes simulate a FUTURE reader that recognises the cap as mutable/writeable:
            # the packer (today's code) cannot know, the deep-immutable reader drops the entry.  Left open by the statement.
            droppable = {n_ for n_, cs in groups.items() if any(c_.unknownish and b"x-tahoe-future-test-" in c_.ro for c_ in cs)}
            dropped = (want_names - got_names) & droppable
            if dropped:
                ck.skip("simulated-future-mutable-cap-dropped-by-immutable-reader", len(dropped))
                want_names = want_names - dropped
        if got_names != want_names:
            lost, extra = sorted(want_names - got_names), sorted(got_names - want_names)
            not_nfc = [n for n in extra if D.nfc(n) != n]
            if not_nfc:
                ck.violation("unpacked-name-not-normalized", "%s view: names %r come back un-normalised" % (view, not_nfc), wit)
            else:
                ck.violation("children-lost-or-invented-in-roundtrip", "%s view: missing %r, unexpected %r" % (view, lost[:4], extra[:4]),
                             dict(wit, lost_classes=[groups[n][0].desc for n in lost[:4]]))
            return False
        good = True
        for name, (child, md) in result.items():
            cands = groups[name]
            if len(cands) > 1:
                ck.skip("which-of-colliding-names-survives")
                ck.hit("names-collide-after-normalisation")
            if not any(matches(child, md, c_, view, imm) for c_ in cands):
                good = False
                c0 = cands[0]
                rw, ro = D.node_caps(child)
                rw, ro = strip_ext(rw), strip_ext(ro)
                if len(cands) == 1 and (rw, ro) == (c0.rw if view == "writer" else None, c0.ro if not (imm and c0.unknownish) else strengthen(c0.ro, True)):
                    ck.violation("metadata-changed-in-roundtrip", "%s view: child %r metadata %r, stored %r" % (view, name, _short(md), _short(c0.md)),
                                 dict(wit, child=name))
                else:
                    ck.violation("capability-changed-in-roundtrip" if len(cands) == 1 else "collision-yields-a-mixture",
                                 "%s view: child %r (%s) reads back as rw=%r ro=%r; expected rw=%r ro=%r" % (
                                     view, name, c0.desc, D.show(rw), D.show(ro), D.show(c0.rw if view == "writer" else None), D.show(c0.ro)),
                                 dict(wit, child=name))
        return good

    def independent_bytes_oracle(data, kids, writekey, wit, imm=False):
        ck.mon("stored-bytes-oracle")
        try:
            entries = D.parse_dir(data)
        except ValueError as e:
            ck.violation("packed-bytes-not-a-netstring-list", "independent parser: %s" % e, wit)
            return
        groups = group(kids)
        names = []
        for e in entries:
            try:
                nm_ = e.name_utf8.decode("utf-8")
            except UnicodeDecodeError:
                ck.violation("packed-bytes-not-a-netstring-list", "stored name is not UTF-8", wit)
                continue
            names.append(nm_)
            if D.nfc(nm_) != nm_:
                ck.violation("stored-name-not-normalized", "name %r is stored un-normalised" % (nm_,), dict(wit, child=nm_))
                continue
            cands = groups.get(nm_)
            if not cands:
                ck.violation("children-lost-or-invented-in-roundtrip", "stored name %r was never given" % (nm_,), wit)
                continue
            try:
                md = __import__("json").loads(e.metadata_s.decode("utf-8"))
            except ValueError as ex:
                ck.violation("metadata-changed-in-roundtrip", "stored metadata of %r is not UTF-8 JSON: %s" % (nm_, ex), wit)
                continue
            if not any(D.json_equal(md, c_.md) for c_ in cands):
                ck.violation("metadata-changed-in-roundtrip", "stored metadata of %r decodes (stdlib json) to %r, given %r"
                             % (nm_, _short(md), _short(cands[0].md)), dict(wit, child=nm_))
            if imm or writekey is None:
                if e.rwcapdata != b"":
                    ck.violation("immutable-directory-stores-rwcap", "rwcap slot of %r not empty in an immutable directory" % (nm_,), wit)
            else:
                plain = D.decrypt_rwcap(e.rwcapdata, writekey)
                wants = [(c_.rw or b"") for c_ in cands]
                if plain is None or strip_ext(plain.rstrip(b" ")) not in wants:
                    ck.violation("capability-changed-in-roundtrip", "rwcap slot of %r decrypts (specification decryptor) to %r, expected %r"
                                 % (nm_, D.show((plain or b"")[:70]), D.show(wants[0][:70])), dict(wit, child=nm_))
        if names != sorted(names) or len(set(names)) != len(names):
            ck.observe("stored-entries-not-sorted-unique")

    # ------------------------------------------------------------------ (D) real directories on a grid
    nD = 16 if ck.tier == "quick" else 400
    nD_min = 6
    for i in range(nD):
        if not ck.mine(i):
            continue
        if not ck.more(min_cases=nD_min):
            break
        env.set_thread_sync(False)
        with ck.watchdog(180, "grid case %d" % i):
            grid_case(ck, ck.rng("D", i), i, mkchildren, compare, independent_bytes_oracle)

    env.set_thread_sync(True)

    # ------------------------------------------------------------------ (A) pure pack / unpack
    nA = 700 if ck.tier == "quick" else 30000
    for i in range(nA):
        if not ck.mine(i):
            continue
        if not ck.more(min_cases=nD_min + 120):
            break
        crng = ck.rng("A", i)
        nm = D.gridless_nodemaker()
        fam = crng.choice(["DIR2", "DIR2-MDMF"])
        dcap = D.fake_cap(crng, fam)
        dinfo = D.CapInfo(dcap)
        dn_w, dn_r = nm.create_from_cap(dcap), nm.create_from_cap(dinfo.readonly)
        n = crng.choice([0, 1, 2, 5, 10, 20, 50]) if crng.random() < .7 else crng.randint(0, 50)
        u_ = D.gen_unstable(crng)
        pool = [D.gen_name(crng) for _ in range(3)] + [crng.choice(D.NFC_CHANGING), u_, D.nfc(u_)]
        kids, errs = mkchildren(crng, nm, n, pool=pool)
        wit = {"directory": fam, "names": [repr(x)[:40] for x in list(kids)[:12]], "n": len(kids),
               "children": [c_.desc[:80] for c_ in list(kids.values())[:12]]}
        nontrivial = any(not x.isascii() for x in kids) and any(c_.rw for c_ in kids.values())
        for namex in kids:
            if D.nfc(namex) != namex:
                ck.hit("name-changes-under-nfc")
            if D.mark_is_max(namex):
                ck.hit("non-nfc-name-whose-largest-code-point-is-the-combining-mark")
                if max(namex) == "\u0300":
                    ck.hit("non-nfc-name-with-U+0300-as-largest-code-point")
            if namex == "":
                ck.hit("empty-name")
            if any(ch_ in namex for ch_ in ":,\x00"):
                ck.hit("name-with-delimiter-or-nul")
            if len(namex) >= 200:
                ck.hit("very-long-name")
        for c_ in kids.values():
            ck.hit("child:" + c_.cls.split("-")[0])
        # error nodes are not storable: pack must refuse them
        for (name, ch) in errs[:2]:
            ck.mon("error-node-refused")
            try:
                pack_children({name: (ch.node, {})}, dinfo.writekey)
            except CapConstraintError:
                ck.hit("pack-refuses-error-node")
            except Exception as e:  # noqa
                ck.observe("pack-refuses-error-node-with-" + type(e).__name__)
            else:
                ck.violation("opaque-node-stored", "pack_children stored a node that records %s" % type(ch.node.error).__name__,
                             dict(wit, child=ch.desc))
        real_children = {namex: (c_.node, c_.md) for namex, c_ in kids.items()}
        try:
            data = pack_children(real_children, dinfo.writekey)
        except Exception as e:  # noqa
            ck.violation("pack-raised-on-valid-children", "pack_children: %s: %s" % (type(e).__name__, str(e)[:200]), wit)
            ck.case("pack-unpack-mutable", key=("A", i))
            continue
        ck.mon("pack-deterministic")
        if pack_children(dict(reversed(list(real_children.items()))), dinfo.writekey) != data and len(group(kids)) == len(kids):
            ck.violation("pack-depends-on-insertion-order", "same children, different bytes", wit)
        independent_bytes_oracle(data, kids, dinfo.writekey, wit)
        unpacked = {}
        for view, dn in (("writer", dn_w), ("reader", dn_r)):
            try:
                unpacked[view] = dn._unpack_contents(data)
            except Exception as e:  # noqa
                ck.violation("unpack-raised-on-own-packing", "%s view: _unpack_contents: %s: %s" % (view, type(e).__name__, str(e)[:200]), wit)
                continue
            compare(unpacked[view], kids, view, wit)
        # the result of one directory's unpack (what list() returns) handed over as the children of ANOTHER directory
        if "writer" in unpacked:
            src = unpacked["writer"]
            ofam = crng.choice(["DIR2", "DIR2-MDMF"])
            oinfo = D.CapInfo(D.fake_cap(crng, ofam))
            o_w, o_r = nm.create_from_cap(oinfo.string), nm.create_from_cap(oinfo.readonly)
            ck.mon("clone-from-listing")
            ck.hit("listing-reused-as-children")
            try:
                cdata = pack_children(src, oinfo.writekey)
                for view, odn in (("writer", o_w), ("reader", o_r)):
                    cres = odn._unpack_contents(cdata)
                    prob = _clone_diff(src, cres, view)
                    if prob:
                        ck.violation("clone-of-listing-differs-from-source", "children taken from a %s listing and packed for a new %s, %s view: %s"
                                     % (fam, ofam, view, prob), wit)
            except Exception as e:  # noqa
                ck.violation("clone-of-listing-differs-from-source", "children taken from a listing: %s: %s" % (type(e).__name__, str(e)[:200]), wit)
            grp_ = group(kids)
            if all(c_.imm_ok for cs in grp_.values() for c_ in cs):
                ck.hit("listing-reused-as-immutable-children")
                try:
                    sdata = pack_children(src, None, deep_immutable=True)
                    sres = nm.create_from_cap(D.fake_cap(crng, "DIR2-CHK"))._unpack_contents(sdata)
                    if set(sres) - set(src) or any(b"x-tahoe-future-test-" not in (src[n_][0].get_readonly_uri() or b"") for n_ in set(src) - set(sres)):
                        ck.violation("clone-of-listing-differs-from-source", "immutable snapshot of a listing: names %r vs %r" % (sorted(sres)[:4], sorted(src)[:4]), wit)
                except Exception as e:  # noqa
                    ck.violation("clone-of-listing-differs-from-source", "immutable snapshot of a listing of immutable children: %s: %s"
                                 % (type(e).__name__, str(e)[:200]), wit)
        # re-pack through the node (cached entries) is byte-identical; edits of the unpacked dict show up
        if "writer" in unpacked:
            u = unpacked["writer"]
            ck.mon("repack-cached")
            try:
                again = dn_w._pack_contents(u)
            except Exception as e:  # noqa
                again = None
                ck.violation("pack-raised-on-valid-children", "_pack_contents(unpacked): %s: %s" % (type(e).__name__, str(e)[:200]), wit)
            if again is not None and again != data:
                ck.violation("repack-of-unpacked-differs", "pack(unpack(pack(x))) != pack(x) (%d vs %d bytes)" % (len(again), len(data)), wit)
            if u and again is not None:
                victim = crng.choice(sorted(u))
                tagno[0] += 1
                repl, okk = gen_child(crng, nm, tagno[0])
                if okk:
                    repl.md = D.gen_metadata(crng)
                    survivors = {}
                    for namex, c_ in kids.items():
                        nn = D.nfc(namex)
                        if nn == victim:
                            continue
                        # after the first round trip exactly one candidate per name is stored: take what the writer view holds
                        survivors.setdefault(nn, []).append(c_)
                    u[victim] = (repl.node, repl.md)
                    gone = None
                    others = [x for x in sorted(u) if x != victim]
                    if others and crng.random() < .5:
                        gone = crng.choice(others)
                        del u[gone]
                    ck.hit("edit-unpacked-dict")
                    try:
                        d2 = dn_w._pack_contents(u)
                        r2 = dn_w._unpack_contents(d2)
                        ck.mon("roundtrip-after-edit")
                        want = set(u)
                        if set(r2) != want:
                            ck.violation("edit-of-unpacked-children-not-stored", "after replacing %r%s: names %r vs %r" % (
                                victim, " and deleting %r" % gone if gone else "", sorted(r2)[:5], sorted(want)[:5]), wit)
                        elif not matches(r2[victim][0], r2[victim][1], repl, "writer"):
                            ck.violation("edit-of-unpacked-children-not-stored",
                                         "child %r replaced in the unpacked dict still reads back as the old entry (%r)" % (
                                             victim, D.show(r2[victim][0].get_readonly_uri())), wit)
                    except Exception as e:  # noqa
                        ck.violation("pack-raised-on-valid-children", "after edit: %s: %s" % (type(e).__name__, str(e)[:200]), wit)
        ck.case("pack-unpack-mutable", key=("A", fam, tuple(sorted(kids)), tuple(sorted(c_.cls for c_ in kids.values()))),
                nontrivial=nontrivial, sample={"directory": fam, "n": len(kids), "names": wit["names"][:5], "children": wit["children"][:4]})

        # ---- immutable packing of the same children: refusal iff the model says so
        ck.mon("immutable-refusal-oracle")
        # names that collide after normalisation: which input survives is left open, so a name is an offender only
        # when EVERY candidate for it is mutable / write-capable; it is 'maybe' when only some are
        grp = group(kids)
        offenders = sorted(n_ for n_, cs in grp.items() if all(not c_.imm_ok for c_ in cs))
        maybe = sorted(n_ for n_, cs in grp.items() if any(not c_.imm_ok for c_ in cs) and any(c_.imm_ok for c_ in cs))
        try:
            idata = pack_children(real_children, None, deep_immutable=True)
            raised = None
        except MustBeDeepImmutableError as e:
            raised = e
            idata = None
        except Exception as e:  # noqa
            ck.violation("pack-raised-on-valid-children", "immutable pack: %s: %s" % (type(e).__name__, str(e)[:200]), wit)
            continue
        if maybe and not offenders:
            ck.skip("immutable-refusal-depends-on-which-colliding-name-survives")
        elif offenders and raised is None:
            ck.violation("immutable-directory-accepts-mutable-child",
                         "pack_children(deep_immutable=True) stored %r (%s)" % (offenders[0], [c_.desc for nx, c_ in kids.items() if D.nfc(nx) == offenders[0]][0]),
                         wit)
        elif not offenders and raised is not None:
            ck.violation("immutable-directory-refuses-immutable-children", "MustBeDeepImmutableError %s although every child is immutable / read-only unknown"
                         % (raised.args[:2],), wit)
        elif raised is not None:
            ck.hit("immutable-pack-refused")
        else:
            ck.hit("immutable-pack-accepted")

    # ------------------------------------------------------------------ (B) immutable directories round-trip
    nB = 300 if ck.tier == "quick" else 10000
    for i in range(nB):
        if not ck.mine(i):
            continue
        if not ck.more(min_cases=nD_min + 120 + 60):
            break
        crng = ck.rng("B", i)
        nm = D.gridless_nodemaker()
        fam = crng.choice(["DIR2-CHK", "DIR2-LIT"])
        dn_i = nm.create_from_cap(D.fake_cap(crng, fam))
        n = crng.choice([0, 1, 3, 10, 50]) if crng.random() < .7 else crng.randint(0, 50)
        kids, errs = mkchildren(crng, nm, n, only_immutable=True)
        wit = {"directory": fam, "names": [repr(x)[:40] for x in list(kids)[:12]], "n": len(kids),
               "children": [c_.desc[:80] for c_ in list(kids.values())[:12]]}
        real_children = {namex: (c_.node, c_.md) for namex, c_ in kids.items()}
        try:
            idata = pack_children(real_children, None, deep_immutable=True)
        except Exception as e:  # noqa
            ck.violation("immutable-directory-refuses-immutable-children" if isinstance(e, MustBeDeepImmutableError)
                         else "pack-raised-on-valid-children", "immutable pack: %s: %s" % (type(e).__name__, str(e)[:200]), wit)
            continue
        independent_bytes_oracle(idata, kids, None, wit, imm=True)
        try:
            res = dn_i._unpack_contents(idata)
        except Exception as e:  # noqa
            ck.violation("unpack-raised-on-own-packing", "immutable view: %s: %s" % (type(e).__name__, str(e)[:200]), wit)
            continue
        compare(res, kids, "immutable", wit, imm=True)
        for name, (child, md) in res.items():
            ck.mon("immutable-children-immutable")
            if child.is_unknown():
                if child.get_write_uri() is not None or not (child.get_readonly_uri() or b"imm.").startswith(b"imm."):
                    ck.violation("immutable-directory-accepts-mutable-child", "unknown child %r of an immutable dir: rw=%r ro=%r" % (
                        name, D.show(child.get_write_uri()), D.show(child.get_readonly_uri())), wit)
                if [c_ for nx, c_ in kids.items() if D.nfc(nx) == name and not M.strip_alleged(c_.ro)[0] == b"imm."]:
                    ck.skip("unknown-ro-cap-strengthened-to-imm")
            elif child.is_mutable() or not child.is_readonly():
                ck.violation("immutable-directory-accepts-mutable-child", "child %r of an immutable dir is mutable" % (name,), wit)
        ck.case("pack-unpack-immutable", key=("B", fam, tuple(sorted(kids)), tuple(sorted(c_.cls for c_ in kids.values()))),
                nontrivial=bool(kids), sample={"directory": fam, "n": len(kids)})

    # ------------------------------------------------------------------ (C) bytes from an independent (legacy) writer
    nC = 300 if ck.tier == "quick" else 10000
    for i in range(nC):
        if not ck.mine(i):
            continue
        if not ck.more(min_cases=nD_min + 120 + 60 + 60):
            break
        crng = ck.rng("C", i)
        nm = D.gridless_nodemaker()
        fam = crng.choice(["DIR2", "DIR2-MDMF"])
        dinfo = D.CapInfo(D.fake_cap(crng, fam))
        dn_w, dn_r = nm.create_from_cap(dinfo.string), nm.create_from_cap(dinfo.readonly)
        kids, _ = mkchildren(crng, nm, crng.randint(1, 12), pool=[crng.choice(D.NFC_CHANGING), D.gen_unstable(crng)])
        # only children whose stored form is unambiguous for a hand-written directory: known caps
        kids = {nx: c_ for nx, c_ in kids.items() if not c_.unknownish}
        groups = group(kids)
        kids = {nx: c_ for nx, c_ in kids.items() if len(groups[D.nfc(nx)]) == 1}
        if not kids:
            continue
        rows = []
        pad = crng.random() < .3
        for nx, c_ in sorted(kids.items()):
            sp = b"   " if pad else b""
            ex = c_.ext if crng.random() < .8 else b""      # an old writer stored the hints verbatim
            if ex:
                ck.hit("legacy-stored-cap-with-extension-hints")
            rows.append((nx.encode("utf-8"), c_.ro + ex + sp, D.encrypt_rwcap(dinfo.writekey, ((c_.rw + ex) if c_.rw else b"") + (sp if c_.rw else b"")),
                         __import__("json").dumps(c_.md).encode("utf-8")))
        raw = D.build_dir(rows)
        wit = {"directory": fam, "names": [repr(x)[:40] for x in kids], "legacy_bytes": True, "space_padded_caps": pad}
        if any(D.nfc(nx) != nx for nx in kids):
            ck.hit("legacy-unnormalised-name")
        for view, dn in (("writer", dn_w), ("reader", dn_r)):
            try:
                res = dn._unpack_contents(raw)
            except Exception as e:  # noqa
                ck.violation("unpack-raised-on-specification-bytes", "%s view: %s: %s" % (view, type(e).__name__, str(e)[:200]), wit)
                continue
            compare(res, kids, "legacy-" + view if False else view, wit)
            if view == "writer" and len(res) >= 1:
                # another entry is modified and the directory re-packed: everything else must still be there
                try:
                    victim = crng.choice(sorted(res))
                    res[victim] = (res[victim][0], {"touched": True})
                    again = dn._unpack_contents(dn._pack_contents(res))
                    ck.mon("legacy-entries-survive-repack")
                    if set(again) != set(res):
                        ck.violation("children-lost-or-invented-in-roundtrip", "after modifying %r in a directory written by an older client and "
                                     "re-packing: lost %r" % (victim, sorted(set(res) - set(again))[:3]), wit)
                except Exception as e:  # noqa
                    ck.violation("pack-raised-on-valid-children", "re-pack of legacy directory: %s: %s" % (type(e).__name__, str(e)[:200]), wit)
        ck.case("legacy-bytes", key=("C", fam, tuple(sorted(kids))), nontrivial=any(not x.isascii() for x in kids))

    env.set_thread_sync(False)
    ck.exhaustive = False
    ck.require_monitor("roundtrip-writer", "roundtrip-reader", "roundtrip-immutable", "stored-bytes-oracle", "immutable-refusal-oracle",
                       "roundtrip-after-edit", "grid-roundtrip", "clone-from-listing", "nfc-unstable-name-at-entry-point")
    ck.require_reach("name-changes-under-nfc", "empty-name", "name-with-delimiter-or-nul", "very-long-name",
                     "names-collide-after-normalisation", "immutable-pack-refused", "immutable-pack-accepted",
                     "legacy-unnormalised-name", "child:known", "child:unknown", "child:verifier", "grid-immutable-refused",
                     "listing-reused-as-children", "listing-reused-as-immutable-children", "entry-point:set_nodes",
                     "non-nfc-name-whose-largest-code-point-is-the-combining-mark", "non-nfc-name-with-U+0300-as-largest-code-point",
                     "mdmf-cap-with-extension-hints", "legacy-stored-cap-with-extension-hints")


def grid_case(ck, rng, caseno, mkchildren, compare, independent_bytes_oracle):
    from vf.grid import VGrid, KEYPOOL
    from allmydata.interfaces import MustBeDeepImmutableError
    KEYPOOL.rewind()
    g = VGrid(nservers=4, seed=rng.getrandbits(32), profile=rng.choice(["fifo", "per-server-fifo", "free"]), keep_log=False)
    try:
        c = g.make_client(k=2, happy=1, n=4)
        nm = c.nodemaker
        version = rng.choice([D.SDMF, D.MDMF])
        n = rng.choice([0, 1, 5, 20, 50])
        kids, _ = mkchildren(rng, nm, n)
        half = dict(list(kids.items())[: len(kids) // 2])
        rest = dict(list(kids.items())[len(kids) // 2:])
        for c_ in rest.values():
            c_.md.pop("no-write", None)     # Adder would diminish the child: C20's subject, not a round trip
        for c_ in half.values():
            if not isinstance(c_.md.get("tahoe", {}), dict):
                c_.md.pop("tahoe")          # a later Adder update of such an entry raises TypeError: judged by C20
        wit = {"grid": True, "version": "MDMF" if version else "SDMF", "n": len(kids), "names": [repr(x)[:40] for x in list(kids)[:10]]}
        try:
            dn = D.ok(g, c.create_dirnode({nx: (c_.node, c_.md) for nx, c_ in half.items()}, version=version), "create_dirnode")
            stored = dict(half)
            if rest and rng.random() < .7:
                # set_nodes keeps metadata but adds the 'tahoe' timestamps: compare caps/names, metadata modulo 'tahoe'
                D.ok(g, dn.set_nodes({nx: (c_.node, c_.md) for nx, c_ in rest.items()}), "set_nodes")
                later = set(D.nfc(x) for x in rest)
            else:
                later = set()
                rest = {}
        except D.OpFailed as e:
            ck.violation("directory-operation-failed-on-honest-grid", str(e)[:300], wit)
            return
        info = D.CapInfo(dn.get_uri())
        reader = g.make_client(k=1, happy=1, n=4)
        views = (("writer", reader.create_node_from_uri(dn.get_uri())), ("reader", reader.create_node_from_uri(info.readonly)))
        for view, node in views:
            try:
                res = D.ok(g, node.list(), "list")
            except D.OpFailed as e:
                ck.violation("directory-operation-failed-on-honest-grid", str(e)[:300], wit)
                continue
            ck.mon("grid-roundtrip")
            # entries added through set_nodes: Adder rewrites metadata (tahoe timestamps, no-write) -> C20's business
            res1 = {k: v for k, v in res.items() if k not in later}
            exp1 = {nx: c_ for nx, c_ in half.items() if D.nfc(nx) not in later}
            compare(res1, exp1, view, wit)
            if set(res) != set(D.nfc(x) for x in list(half) + list(rest)):
                ck.violation("children-lost-or-invented-in-roundtrip", "%s view on the grid: names differ" % view, wit)
        if not later:
            plain = D.read_backing_bytes(g, reader, info.readonly)
            independent_bytes_oracle(plain, half, info.writekey, wit)
        # immutable directory on the grid
        ikids, _ = mkchildren(rng, nm, rng.choice([0, 1, 4, 12]), only_immutable=True)
        try:
            idn = D.ok(g, c.create_immutable_dirnode({nx: (c_.node, c_.md) for nx, c_ in ikids.items()}), "create_immutable_dirnode")
            res = D.ok(g, reader.create_node_from_uri(idn.get_uri()).list(), "list immutable")
            ck.mon("grid-roundtrip")
            compare(res, ikids, "immutable", dict(wit, immutable=True), imm=True)
            ck.hit("grid-literal-directory" if idn.get_uri().startswith(b"URI:DIR2-LIT:") else "grid-chk-directory")
        except D.OpFailed as e:
            ck.violation("directory-operation-failed-on-honest-grid", str(e)[:300], wit)
        # ... and its refusal of a mutable child
        bad = [c_ for c_ in kids.values() if not c_.imm_ok]
        if bad:
            mixed = {nx: (c_.node, c_.md) for nx, c_ in ikids.items()}
            mixed["intruder"] = (bad[0].node, {})
            ck.mon("immutable-refusal-oracle")
            try:
                st, res = g.wait(c.create_immutable_dirnode(mixed))
            except MustBeDeepImmutableError:
                st = "refused"
            except Exception as e:   # noqa  anything else is not the documented refusal
                st = "raised " + type(e).__name__
            if st == "err" and res.check(MustBeDeepImmutableError):
                st = "refused"
            if st == "refused":
                ck.hit("grid-immutable-refused")
            else:
                ck.violation("immutable-directory-accepts-mutable-child", "create_immutable_dirnode with %s: %s" % (bad[0].desc, st), wit)
        try:
            clone_from_listing(ck, g, c, reader, rng, dn, wit, "mixed children")
            if ikids:
                src2 = D.ok(g, c.create_dirnode({nx: (c_.node, c_.md) for nx, c_ in ikids.items()}, version=rng.choice([D.SDMF, D.MDMF])),
                            "create_dirnode(immutable children)")
                clone_from_listing(ck, g, c, reader, rng, src2, wit, "immutable children only")
            nfc_entry_points(ck, g, c, reader, rng, wit)
        except D.OpFailed as e:
            ck.violation("directory-operation-failed-on-honest-grid", str(e)[:300], wit)
        ck.case("grid", key=("D", caseno, version, tuple(sorted(kids))), nontrivial=bool(kids),
                sample={"version": wit["version"], "n": len(kids)})
    finally:
        g.close()


def _clone_diff(src, res, view):
    """src / res: name -> (node, metadata).  None when res is a faithful copy of src (read-only view: no write caps)."""
    if set(src) != set(res):
        return "names %r vs source %r" % (sorted(set(res) - set(src))[:3], sorted(set(src) - set(res))[:3])
    for n_, (node, md) in src.items():
        rw, ro = D.node_caps(node)
        rw2, ro2 = D.node_caps(res[n_][0])
        if view != "writer":
            rw = None
        if (rw2, ro2) != (rw, ro):
            return "child %r reads back as rw=%r ro=%r (%s), source rw=%r ro=%r" % (
                n_, D.show(rw2)[:50] if rw2 else None, D.show(ro2)[:50] if ro2 else None, type(res[n_][0]).__name__,
                D.show(rw)[:50] if rw else None, D.show(ro)[:50] if ro else None)
        if not D.json_equal(md, res[n_][1]):
            return "metadata of %r differs" % (n_,)
    return None


def clone_from_listing(ck, g, c, reader, rng, src_dn, wit, label):
    """dirnode.list() of one directory is handed, as is, to the calls that create a new directory (clone / snapshot)."""
    from allmydata.interfaces import MustBeDeepImmutableError
    listing = D.ok(g, src_dn.list(), "list source")
    ck.hit("listing-reused-as-children")
    how = rng.choice(["create_dirnode", "create_subdirectory"])
    if how == "create_dirnode":
        clone = D.ok(g, c.create_dirnode(listing, version=rng.choice([D.SDMF, D.MDMF])), "create_dirnode(listing)")
    else:
        parent = D.ok(g, c.create_dirnode(), "create_dirnode")
        clone = D.ok(g, parent.create_subdirectory("clone", listing, mutable_version=rng.choice([D.SDMF, D.MDMF])), "create_subdirectory(listing)")
    info = D.CapInfo(clone.get_uri())
    w = dict(wit, source=label, how=how)
    for view, cap in (("writer", clone.get_uri()), ("reader", info.readonly)):
        ck.mon("clone-from-listing")
        st, res = g.wait(reader.create_node_from_uri(cap).list())
        if st != "ok":
            ck.violation("clone-of-listing-differs-from-source", "%s(<list() of another directory>): listing the clone (%s view) fails: %s"
                         % (how, view, D.fdesc(res)), w)
            continue
        prob = _clone_diff(listing, res, view)
        if prob:
            ck.violation("clone-of-listing-differs-from-source", "%s(<list() of another directory>), %s view: %s" % (how, view, prob), w)
    # immutable snapshot of the same listing
    def immutable_ok(node):
        if node.is_unknown():
            return node.get_write_uri() is None
        return not D.CapInfo(node.get_uri()).is_mutable
    all_imm = all(immutable_ok(n_) for (n_, _md) in listing.values())
    ck.mon("immutable-refusal-oracle")
    try:
        st, res = g.wait(c.create_immutable_dirnode(listing))
    except MustBeDeepImmutableError:
        st, res = "refused", None
    except Exception as e:   # noqa
        st, res = "raised " + type(e).__name__, None
    if st == "err" and res.check(MustBeDeepImmutableError):
        st = "refused"
    if not all_imm:
        if st == "refused":
            ck.hit("grid-immutable-refused")
        else:
            ck.violation("immutable-directory-accepts-mutable-child", "create_immutable_dirnode(<list() holding mutable children>): %s" % st, w)
        return
    if st != "ok":
        ck.violation("immutable-directory-refuses-immutable-children", "create_immutable_dirnode(<list() of immutable children>): %s" % st, w)
        return
    ck.hit("listing-reused-as-immutable-children")
    st, res2 = g.wait(reader.create_node_from_uri(res.get_uri()).list())
    if st != "ok":
        ck.violation("clone-of-listing-differs-from-source", "immutable snapshot of a listing cannot be listed: %s" % D.fdesc(res2), w)
        return
    lost = [n_ for n_ in listing if n_ not in res2 and b"x-tahoe-future-test-" not in (listing[n_][0].get_readonly_uri() or b"")]
    if lost or set(res2) - set(listing):
        ck.violation("clone-of-listing-differs-from-source", "immutable snapshot of a listing: lost %r, invented %r" % (lost[:3], sorted(set(res2) - set(listing))[:3]), w)
    for n_, (node, md) in res2.items():
        a, b = M.strip_alleged(node.get_readonly_uri() or b"")[1], M.strip_alleged(listing[n_][0].get_readonly_uri() or b"")[1]
        if a != b or node.get_write_uri() is not None or not D.json_equal(md, listing[n_][1]):
            ck.violation("clone-of-listing-differs-from-source", "immutable snapshot: child %r differs from the source entry" % (n_,), w)
            break


NFC_PAIRS = [("\u00e9", "e\u0301"), ("\u00c5", "A\u030a"), ("\u00c5", "\u212b"), ("\uac00", "\u1100\u1161"), ("\u00f1", "n\u0303"),
             ("\u1e69", "s\u0323\u0307"), ("\u03a9", "\u2126")]
ENTRY_POINTS = ["set_nodes", "set_children", "set_node", "set_uri", "add_file", "create_subdirectory", "move_child_to"]


def nfc_entry_points(ck, g, c, reader, rng, wit):
    """Every public call that takes a child name is given a non-NFC spelling of a name that already exists (stored NFC)."""
    from allmydata.dirnode import ONLY_FILES  # noqa
    from allmydata.interfaces import ExistingChildError
    from allmydata.immutable.upload import Data
    pairs = list(NFC_PAIRS)
    rng.shuffle(pairs)
    pairs = pairs[:3]
    for x in [rng.choice(D.UNSTABLE_U0300_IS_MAX), rng.choice(D.UNSTABLE_MARK_IS_MAX), rng.choice(D.UNSTABLE_MARK_IS_MAX), D.gen_unstable(rng)]:
        pairs.append((D.nfc(x), x))
    rng.shuffle(pairs)
    names = {}
    for nfc_, other in pairs:
        names.setdefault(nfc_, other)
    if any(D.mark_is_max(x) for x in names.values()):
        ck.hit("non-nfc-name-whose-largest-code-point-is-the-combining-mark")
    init = {}
    for k, nfc_ in enumerate(sorted(names)):
        init[nfc_] = (c.create_node_from_uri(D.lit_cap(b"old-%d" % k)), {"old": k})
    version = rng.choice([D.SDMF, D.MDMF])
    T = D.ok(g, c.create_dirnode(init, version=version), "create_dirnode")
    S = D.ok(g, c.create_dirnode({"src%d" % k: (c.create_node_from_uri(D.lit_cap(b"moved-%d" % k)), {}) for k in range(3)}), "create_dirnode")
    tinfo = D.CapInfo(T.get_uri())
    model = {n_: (None, D.lit_cap(b"old-%d" % k)) for k, n_ in enumerate(sorted(names))}
    eps = ["set_nodes"] + rng.sample(ENTRY_POINTS[1:], 4)
    rng.shuffle(eps)
    moved = [0]

    def call(ep, namex, ow, tagb):
        newcap = D.lit_cap(b"new-" + tagb)
        node = c.create_node_from_uri(newcap)
        if ep == "set_nodes":
            return T.set_nodes({namex: (node, {})}, overwrite=ow), (None, newcap)
        if ep == "set_children":
            return T.set_children({namex: (None, newcap, {})}, overwrite=ow), (None, newcap)
        if ep == "set_node":
            return T.set_node(namex, node, {}, overwrite=ow), (None, newcap)
        if ep == "set_uri":
            return T.set_uri(namex, None, newcap, {}, overwrite=ow), (None, newcap)
        if ep == "add_file":
            return T.add_file(namex, Data(b"new-" + tagb, convergence=b""), {}, overwrite=ow), (None, newcap)
        if ep == "create_subdirectory":
            return T.create_subdirectory(namex, overwrite=ow), "LEARN"
        k = moved[0]
        return S.move_child_to("src%d" % k, T, namex, overwrite=ow), (None, D.lit_cap(b"moved-%d" % k))

    def judge_listing(what, ep):
        res = D.ok(g, reader.create_node_from_uri(tinfo.string).list(), "list")
        w = dict(wit, entry_point=ep)
        if set(res) != set(model):
            ck.violation("equivalent-name-not-recognised-at-entry-point", "%s: listing has %r, expected %r" % (
                what, sorted(set(res) ^ set(model))[:4], "the same names as before"), w)
            return
        for n_, caps in model.items():
            if D.node_caps(res[n_][0]) != caps:
                ck.violation("equivalent-name-not-recognised-at-entry-point", "%s: entry %r holds rw=%r ro=%r, expected %r" % (
                    what, n_, D.show(res[n_][0].get_write_uri()), D.show(res[n_][0].get_readonly_uri()), D.show(caps[1])), w)
                return
        plain = D.read_backing_bytes(g, reader, tinfo.readonly)
        stored = [e.name_utf8.decode("utf-8") for e in D.parse_dir(plain)]
        if len(stored) != len(model) or any(D.nfc(x) != x for x in stored):
            ck.violation("equivalent-name-not-recognised-at-entry-point", "%s: the stored directory holds %d entries for %d names (un-normalised: %r)"
                         % (what, len(stored), len(model), [x for x in stored if D.nfc(x) != x][:3]), w)

    for j, ep in enumerate(eps):
        nfc_ = sorted(names)[j % len(names)]
        namex = names[nfc_]
        ck.hit("entry-point:" + ep)
        # (1) no-overwrite must recognise the existing entry
        ck.mon("nfc-unstable-name-at-entry-point")
        try:
            d, caps = call(ep, namex, False, b"a%d" % j)
            st, res = g.wait(d)
        except ExistingChildError:
            st, res = "refused", None
        if st == "ok":
            ck.violation("equivalent-name-not-recognised-at-entry-point",
                         "%s(%r, overwrite=False) succeeds although %r exists" % (ep, namex, nfc_), dict(wit, entry_point=ep))
            if ep == "move_child_to":
                moved[0] += 1
        elif st == "err" and not res.check(ExistingChildError):
            ck.observe("entry-point-refusal-" + res.type.__name__)
        judge_listing("after the refused %s(%r, overwrite=False)" % (ep, namex), ep)
        # (2) overwrite=True replaces exactly that entry
        ck.mon("nfc-unstable-name-at-entry-point")
        d, caps = call(ep, namex, True, b"b%d" % j)
        st, res = g.wait(d)
        if st != "ok":
            ck.violation("directory-operation-failed-on-honest-grid", "%s(%r, overwrite=True): %s" % (ep, namex, D.fdesc(res)), dict(wit, entry_point=ep))
            continue
        if ep == "move_child_to":
            moved[0] += 1
        if caps == "LEARN":
            ci = D.CapInfo(res.get_uri())
            caps = (res.get_uri(), ci.readonly)
        model[nfc_] = caps
        judge_listing("after %s(%r, overwrite=True)" % (ep, namex), ep)


def _short(x):
    s = repr(x)
    return s if len(s) < 160 else s[:160] + "..."


# MUST_CATCH (selftest/breaks_c19.py; each exits 1, the unchanged tree exits 0):
#   c19-unpack-does-not-normalize   _unpack_contents keeps the stored name             -> unpacked-name-not-normalized
#   c19-pack-does-not-normalize     pack_children keeps namex                          -> stored-name-not-normalized
#   c19-netstring-length-in-chars   entry name framed with len(name) characters        -> unpack-raised-on-own-packing,
#                                                                                         packed-bytes-not-a-netstring-list
#   c19-metadata-ascii-replace      metadata dumped ensure_ascii=False, encoded ascii/replace -> metadata-changed-in-roundtrip
#   c19-metadata-floats-truncated   metadata floats parsed with parse_float=int-ish     -> metadata-changed-in-roundtrip
#   c19-immutable-check-skipped     deep_immutable child check removed                 -> immutable-directory-accepts-mutable-child
#   c19-aux-cache-not-cleared       AuxValueDict.__setitem__ keeps the cached entry    -> edit-of-unpacked-children-not-stored
#   c19-ro-prefix-always-stripped   strip_prefix_for_ro strips imm. in mutable dirs    -> capability-changed-in-roundtrip
#   c19-rw-uri-lost-for-unknown     _pack stores no rw cap for unknown nodes           -> capability-changed-in-roundtrip
#   seeded/C19-3   Adder normalises only in set_node(); set_nodes() bypasses it   -> equivalent-name-not-recognised-at-entry-point
#   seeded/C19-4   pack_children reuses another directory's cached packed entries -> clone-of-listing-differs-from-source
#   seeded/C19-8   MDMF cap regexps end in '$' (extension hints refused)           -> valid-capability-refused, children-lost-or-invented-in-roundtrip
