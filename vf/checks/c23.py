"""C23 mutable share containers behave like growable byte arrays; data writes never alter leases."""
META = {
    "level": "exploration",
    "technique": "history + executable model: seeded slot_testv_and_readv_and_writev / slot_readv histories on the real StorageServer compared with a bytearray model and an independent container parser after every operation",
    "text": "Drives the real StorageServer.slot_testv_and_readv_and_writev / slot_readv on a temp dir with histories of <=40 operations per share (1..3 shares per storage index): writes inside, at the end, past the end and far past the end, several vectors per operation including overlapping ones (container growth with relocation of the extra-lease area), smaller/equal/larger/zero new_length, passing and failing test vectors, reads at boundary ranges; containers are v2 or v1 (created by the repo's own v1 schema object) and pre-loaded with 0..10 leases through add_lease. After every operation the return value, a full read of every share, existence of share file and bucket directory, and the lease records (parsed independently from the documented layout, and through get_leases) are compared with a bytearray + lease-list model.",
    "note": "Trusts the bytearray model (apply(): zero-extend, slice-assign, truncate), the independent parser in _storage.py; zero-length writes past the end are generated but not judged (the statement leaves them open); write vectors of one operation may overlap (nested, identical range, reversed, later one reaching further): interfaces.py forbids overlapping vectors and leaves their order unspecified, so any application order is accepted and adopted into the model (seeded change C23-5, which sorts overlapping vectors, is therefore not a violation), while a result that corresponds to no order is still judged.",
}
LEVEL = "exploration"
BUDGET = {"quick": 40, "thorough": 240}
SHARDS = {"quick": 1, "thorough": 8}

import os
from vf import env  # noqa
from vf.checks import _storage as S

RENEW = 31 * 24 * 60 * 60


apply_writes = S.apply_writes


def overlapping_pairs(datav):
    return [(i, j) for i in range(len(datav)) for j in range(i + 1, len(datav))
            if len(datav[i][1]) and len(datav[j][1])
            and datav[i][0] < datav[j][0] + len(datav[j][1]) and datav[j][0] < datav[i][0] + len(datav[i][1])]


def classify_data(pre, datav, new_length, model_post, real):
    """mechanism class of a data mismatch (deterministic)."""
    if overlapping_pairs(datav):
        return "overlapping-vectors-result-is-no-application-order"
    if len(real) != len(model_post):
        after = len(apply_writes(pre, datav, None))
        if new_length is not None and new_length < after and len(real) > new_length:
            return "truncate-not-applied"
        if new_length is not None and new_length > after and len(real) == new_length:
            return "larger-new-length-extends"
        return "length-mismatch"
    covered = bytearray(len(real))
    for off, w in datav:
        for i in range(off, min(len(real), off + len(w))):
            covered[i] = 1
    for i in range(len(real)):
        if real[i] != model_post[i]:
            if i >= len(pre) and not covered[i]:
                return "gap-not-zero-filled"
            if not covered[i]:
                return "unwritten-byte-changed"
            return "written-bytes-differ"
    return "data-mismatch"


def run(ck):
    from allmydata.storage.mutable import MutableShareFile
    ck.rule = ("one case = fresh server, one storage index with 1..3 shares (v1 or v2 container each), 0..10 "
               "pre-loaded leases, then <=40 ops per share; distinct = distinct (setup, op history); "
               "non-trivial = history grew a container past its extra-lease offset and truncated or deleted")
    ncases = 150 if ck.tier == "quick" else 4000
    for ci in range(ncases):
        if not ck.mine(ci):
            continue
        if ck.out_of_time():
            break
        rng = ck.rng("case", ci)
        case = S.Case(rng)
        try:
            _one_case(ck, rng, case, MutableShareFile)
        except Exception as e:      # the real code raised during set-up / state comparison
            import traceback
            tb = traceback.extract_tb(e.__traceback__)[-1]
            ck.violation("op-raises-%s" % type(e).__name__, "%s: %s at %s:%d (outside a judged operation)" % (
                type(e).__name__, e, os.path.basename(tb.filename), tb.lineno), {"case": ci})
            ck.case("history", key=("raised", ci), nontrivial=False)
        finally:
            case.close()
    for m in ("share-data", "write-result", "read-result", "existence", "leases-unchanged-by-write", "container-layout"):
        ck.require_monitor(m)
    for r in ("container-growth", "growth-with-extra-leases", "gap-fill", "truncate", "larger-new-length",
              "delete-share", "bucket-dir-removed", "testv-fail", "testv-on-missing-share", "read-clipped",
              "v1-container", "v2-container", "write-exactly-to-container-end", "regrow-after-truncate",
              "leases>4", "overlapping-vectors", "overlap-later-ends-further", "overlap-nested",
              "overlap-identical-range", "overlap-reversed-order"):
        ck.require_reach(r)
    ck.exhaustive = False


def _one_case(ck, rng, case, MutableShareFile):
    ss = case.ss
    si = S.rand_si(rng)
    we = S.rand_bytes(rng, 32)
    nshares = rng.choice([1, 1, 2, 3])
    shnums = sorted(rng.sample(range(6), nshares))
    model = {}      # shnum -> bytearray (absent = no share)
    leases = {}     # shnum -> list of dict(owner, expiry, renew, cancel)
    version = {}
    history = []
    flags = set()
    bad = [False]
    ctx = {}
    bucketdir = case.bucket_dir(si)

    def viol(key, what, **w):
        bad[0] = True
        w["setup"] = setup
        w["history_tail"] = history[-10:]
        ck.violation(key, what, w)

    def tick():
        env.reactor.advance(rng.choice([0, 1, 1, 5, 3600, 86400]))

    # ---- setup: create the shares
    for sh in shnums:
        v = rng.choice([1, 2])
        version[sh] = v
        if v == 1:
            os.makedirs(bucketdir, exist_ok=True)
            MutableShareFile(case.final_path(si, sh), ss, schema=S.schema_v1("mutable")).create(case.nodeid, we)
            model[sh] = bytearray()
            ck.hit("v1-container")
        else:
            init = S.rand_bytes(rng, rng.choice([1, 5, 100, 1000]))
            ok, _rd = ss.slot_testv_and_readv_and_writev(si, (we, b"r" * 32, b"c" * 32),
                                                        {sh: ([], [(0, init)], None)}, [], renew_leases=False)
            assert ok
            model[sh] = bytearray(init)
            ck.hit("v2-container")
        leases[sh] = []
    nleases = rng.choice([0, 0, 1, 3, 4, 5, 6, 8, 10])
    for i in range(nleases):
        tick()
        rs, cs = S.rand_bytes(rng, 32), S.rand_bytes(rng, 32)
        ss.add_lease(si, rs, cs)
        for sh in shnums:
            leases[sh].append({"owner": 1, "expiry": int(env.reactor.seconds() + RENEW), "renew": rs, "cancel": cs})
    if nleases > 4:
        ck.hit("leases>4")
    setup = {"shares": {sh: "v%d" % version[sh] for sh in shnums}, "preloaded_leases": nleases}

    def raw_of(sh):
        return S.parse_mutable(case.final_path(si, sh))

    def lease_records(raw):
        return sorted((l["owner"], l["expiry"], l["renew"], l["cancel"], l["nodeid"]) for l in raw.leases)

    def check_leases_vs_model(sh, raw, after):
        """count / expiry / secret-match of the real leases equal the model's."""
        real = list(MutableShareFile(case.final_path(si, sh)).get_leases())
        want = leases[sh]
        if len(real) != len(want) or len(raw.leases) != len(want):
            viol("lease-count-changed", "share %d has %d leases (raw records: %d), model has %d (after %s)"
                 % (sh, len(real), len(raw.leases), len(want), after))
            return
        for w in want:
            m = [l for l in real if l.is_renew_secret(w["renew"])]
            if len(m) != 1 or int(m[0].get_expiration_time()) != w["expiry"] or m[0].owner_num != w["owner"]:
                viol("lease-record-changed", "share %d: lease %s not found unchanged (after %s): matches=%r"
                     % (sh, w["renew"][:4].hex(), after,
                        [(l.owner_num, int(l.get_expiration_time())) for l in m]), want_expiry=w["expiry"])
                return

    def check_state(after, touched=()):
        for sh in sorted(set(shnums) | set(model)):
            path = case.final_path(si, sh)
            ck.mon("existence")
            if (sh in model) != os.path.exists(path):
                if sh in model:
                    viol("share-vanished", "share %d should exist with %d bytes but its file is gone (after %s)"
                         % (sh, len(model[sh]), after))
                else:
                    viol("share-not-deleted", "share %d was deleted (new_length=0) but its file still exists (after %s)"
                         % (sh, after))
                return
            if sh not in model:
                continue
            raw = raw_of(sh)
            ck.mon("container-layout")
            if not raw.wellformed() or raw.version != version[sh] or raw.write_enabler != we:
                viol("container-malformed", "share %d: data_length=%d extra_offset=%d file=%d slots=%d version=%r (after %s)"
                     % (sh, raw.data_length, raw.extra_offset, len(raw.raw), len(raw.slots), raw.version, after))
                return
            ck.mon("share-data")
            if raw.data != bytes(model[sh]):
                viol("raw-data-differs", "share %d data region on disk differs from the model (after %s): len %d vs %d"
                     % (sh, after, len(raw.data), len(model[sh])))
                return
            if ss.get_mutable_share_length(si, sh) != len(model[sh]):
                viol("length-mismatch", "get_mutable_share_length=%d model %d" % (
                    ss.get_mutable_share_length(si, sh), len(model[sh])))
                return
            check_leases_vs_model(sh, raw, after)
        ck.mon("existence")
        if os.path.isdir(bucketdir) and not model and "deleted" in flags:
            viol("bucket-dir-not-removed", "all shares deleted but bucket directory still exists (after %s)" % after)
        # full read through the API
        got = ss.slot_readv(si, [], [(0, max([len(d) for d in model.values()] + [0]) + 7)])
        ck.mon("read-result")
        want = {sh: [bytes(d)] for sh, d in model.items()}
        if got != want:
            viol("full-read-differs", "slot_readv of everything differs from the model (after %s): shares %r vs %r"
                 % (after, sorted(got), sorted(want)))

    def gen_offsets(cur, container):
        """boundary-biased offset for a write into a share of length cur whose
        container (extra-lease offset - 468) is `container`."""
        return rng.choice([
            0, rng.randint(0, max(0, cur)), max(0, cur - 1), cur, cur + 1, cur + rng.randint(2, 40),
            cur + rng.choice([500, 4096, 70000]), max(0, container - rng.randint(0, 3)), container, container + 1,
            max(0, container - 10)])

    def gen_request(multi):
        targets = [rng.choice(shnums)]
        if multi:
            targets = sorted(rng.sample(shnums, rng.randint(1, len(shnums))))
            if rng.random() < .2:
                targets.append(max(shnums) + 1 + rng.randint(0, 2))   # a share that does not exist (yet)
        tw = {}
        info = {}
        for sh in targets:
            cur = len(model[sh]) if sh in model else 0
            container = cur
            if sh in model:
                container = raw_of(sh).extra_offset - 468
            pre = bytes(model.get(sh, b""))
            # tests
            testv = []
            will_fail = False
            for _ in range(rng.choice([0, 0, 1, 1, 2])):
                o = rng.choice([0, rng.randint(0, cur + 2), max(0, cur - 1), cur, cur + 5])
                l = rng.choice([0, 1, 4, cur + 1, rng.randint(0, cur + 3)])
                spec = pre[o:o + l]
                if rng.random() < .12:
                    will_fail = True
                    if spec and rng.random() < .7:
                        j = rng.randrange(len(spec))
                        spec = spec[:j] + bytes([spec[j] ^ 1]) + spec[j + 1:]
                    else:
                        spec = spec + b"x"
                testv.append((o, l, b"eq", spec))
            if sh not in model and testv:
                ck.hit("testv-on-missing-share")
            # writes (non-overlapping, random order)
            datav = []
            taken = []
            for _ in range(rng.choice([0, 1, 1, 1, 2, 3])):
                o = gen_offsets(cur, container)
                n = rng.choice([1, 1, 2, 7, 50, 300, rng.randint(1, 2000)])
                if rng.random() < .15 and o < container:
                    n = max(1, container - o + rng.choice([-1, 0, 0, 1]))     # end exactly at / around the container end
                if rng.random() < .04:
                    n = 0
                if any(o < b and a < o + max(n, 1) for a, b in taken):
                    continue
                taken.append((o, o + max(n, 1)))
                datav.append((o, S.rand_bytes(rng, n)))
                cur = max(cur, o + n)
            # overlapping vectors inside ONE operation: successive slice assignments, the later-listed one wins
            if rng.random() < .25:
                if datav and len(datav[-1][1]) >= 2 and rng.random() < .7:
                    bo, bw = datav[-1]
                else:
                    bo = gen_offsets(cur, container)
                    bw = S.rand_bytes(rng, rng.choice([2, 4, 9, 60]))
                    datav.append((bo, bw))
                for _ in range(rng.choice([1, 1, 2])):
                    k = rng.randint(1, len(bw) - 1)
                    kind = rng.choice(["later-ends-further", "later-ends-further", "nested", "identical-range",
                                       "reversed", "same-start-longer"])
                    if kind == "later-ends-further":
                        datav.append((bo + k, S.rand_bytes(rng, len(bw) - k + rng.choice([1, 2, 30]))))
                    elif kind == "nested":
                        datav.append((bo + k, S.rand_bytes(rng, rng.randint(1, len(bw) - k))))
                    elif kind == "identical-range":
                        datav.append((bo, S.rand_bytes(rng, len(bw))))
                    elif kind == "same-start-longer":
                        datav.append((bo, S.rand_bytes(rng, len(bw) + rng.choice([1, 5]))))
                    else:   # the vector listed first starts later and ends further; the second one is applied on top
                        datav[-1:] = [(bo + k, S.rand_bytes(rng, len(bw))), (bo, bw)]
            after = len(apply_writes(pre, datav, None))
            r = rng.random()
            if r < .55:
                nl = None
            elif r < .75:
                nl = rng.choice([max(1, after - 1), max(1, after // 2), 1, max(1, after - rng.randint(0, after))])
            elif r < .85:
                nl = after
            elif r < .95:
                nl = after + rng.choice([1, 10, 5000])
            else:
                nl = 0
            tw[sh] = (testv, datav, nl)
            info[sh] = will_fail
        nread = rng.choice([0, 1, 2])
        mx = max([len(d) for d in model.values()] + [1])
        readv = [(rng.choice([0, rng.randint(0, mx), mx - 1, mx, mx + 3]),
                  rng.choice([0, 1, mx, mx + 1, rng.randint(0, mx + 5), 2 ** 40])) for _ in range(nread)]
        return tw, readv

    def do_writev():
        tw, readv = gen_request(multi=rng.random() < .3)
        renew = rng.random() < .12
        rs, cs = S.rand_bytes(rng, 32), S.rand_bytes(rng, 32)
        if renew and rng.random() < .5:
            known = [l for sh in model for l in leases[sh]]
            if known:
                k = rng.choice(known)
                rs, cs = k["renew"], k["cancel"]
        pre = {sh: bytes(d) for sh, d in model.items()}
        pre_leases = {sh: lease_records(raw_of(sh)) for sh in model}
        pre_container = {sh: raw_of(sh).extra_offset for sh in model}
        pre_nextra = {sh: raw_of(sh).num_extra for sh in model}
        ctx.update(pre_leases=pre_leases, pre_container=pre_container, pre_nextra=pre_nextra)
        # expectations
        exp_ok = True
        for sh, (testv, datav, nl) in tw.items():
            for (o, l, op, spec) in testv:
                if pre.get(sh, b"")[o:o + l] != spec:
                    exp_ok = False
        exp_read = {sh: [d[o:o + l] for (o, l) in readv] for sh, d in pre.items()}
        dontcare = False
        history.append(("writev", {sh: ([(o, l, len(s)) for (o, l, _op, s) in t], [(o, len(w)) for o, w in d], nl)
                                   for sh, (t, d, nl) in tw.items()}, readv, "renew" if renew else "norenew"))
        ok, rd = ss.slot_testv_and_readv_and_writev(si, (we, rs, cs), tw, readv, renew_leases=renew)
        ck.mon("write-result")
        if bool(ok) != exp_ok:
            viol("testv-outcome-wrong", "request returned %r, test vectors evaluate to %r on the pre-state" % (ok, exp_ok))
            return
        if not exp_ok:
            ck.hit("testv-fail")
        ck.mon("read-result")
        if rd != exp_read:
            viol("readv-not-prestate", "read vector results differ from the pre-request data",
                 got={k: [len(x) for x in v] for k, v in rd.items()},
                 want={k: [len(x) for x in v] for k, v in exp_read.items()})
            return
        if any(o + l > len(pre[sh]) for sh in pre for (o, l) in readv):
            ck.hit("read-clipped")
        if not exp_ok:
            return
        now = env.reactor.seconds()
        for sh, (testv, datav, nl) in tw.items():
            if nl == 0:
                if sh in model:
                    del model[sh]
                    leases[sh] = []
                    ck.hit("delete-share")
                    flags.add("deleted")
                    flags.add("shrunk")
                    if not model:
                        ck.hit("bucket-dir-removed")
                continue
            old = pre.get(sh, b"")
            if any(len(w) == 0 and o > len(apply_writes(old, datav[:i], None))
                   for i, (o, w) in enumerate(datav)):
                dontcare = True
            new = apply_writes(old, datav, nl)
            after = len(apply_writes(old, datav, None))
            if sh not in model:
                version[sh] = 2
                leases[sh] = []
            model[sh] = new
            if not dontcare and overlapping_pairs(datav):
                # interfaces.py RIStorageServer.slot_testv_and_readv_and_writev: "Write vectors must not overlap (if they
                # do, this will either cause an error or apply them in an unspecified order)".  Forbidden input: any
                # application order is accepted (adopted into the model); a result that is no order at all is judged.
                import itertools
                realdata = bytes(S.parse_mutable(case.final_path(si, sh)).data)
                if len(datav) <= 6 and any(bytes(apply_writes(old, list(perm), nl)) == realdata
                                           for perm in itertools.permutations(datav)):
                    ck.skip("overlapping-write-vectors-order-unspecified")
                    model[sh] = new = bytearray(realdata)
            if dontcare:
                ck.skip("zero-length-write-past-end")
                new = bytearray(S.parse_mutable(case.final_path(si, sh)).data)   # adopt, do not judge
                dontcare = False
                model[sh] = new
                judged = False
            else:
                judged = True
            if judged:
                _reach_and_compare(sh, old, datav, nl, new, after)
                if bad[0]:
                    return
            if renew:
                hit = [l for l in leases[sh] if l["renew"] == rs]
                if hit:
                    hit[0]["expiry"] = max(hit[0]["expiry"], int(now + RENEW))
                else:
                    leases[sh].append({"owner": 1, "expiry": int(now + RENEW), "renew": rs, "cancel": cs})
        if not renew:
            _leases_unchanged(tw)

    def _leases_unchanged(tw):
        pre_leases, pre_container, pre_nextra = ctx["pre_leases"], ctx["pre_container"], ctx["pre_nextra"]
        if True:
            ck.mon("leases-unchanged-by-write")
            for sh in model:
                if sh in pre_leases and sh in tw and tw[sh][2] != 0:
                    post = lease_records(raw_of(sh))
                    if post != pre_leases[sh]:
                        grew = raw_of(sh).extra_offset != pre_container[sh]
                        viol("leases-changed-by-growth" if grew else "leases-changed-by-write",
                             "share %d: lease records differ after a data write with renew_leases=False "
                             "(%d -> %d records, container %s)" % (sh, len(pre_leases[sh]), len(post),
                                                                  "relocated" if grew else "not relocated"),
                             extra_leases_before=pre_nextra[sh])
                        return

    def _reach_and_compare(sh, old, datav, nl, new, after):
        pre_container, pre_nextra = ctx["pre_container"], ctx["pre_nextra"]
        if True:
            # reach counters
            if sh in pre_container and 468 + after > pre_container[sh]:
                ck.hit("container-growth")
                flags.add("grown")
                if pre_nextra[sh] > 0:
                    ck.hit("growth-with-extra-leases")
            if sh in pre_container and any(468 + o + len(w) == pre_container[sh] for o, w in datav):
                ck.hit("write-exactly-to-container-end")
            for (i, j) in overlapping_pairs(datav):
                (oi, wi), (oj, wj) = datav[i], datav[j]
                ck.hit("overlapping-vectors")
                if oj + len(wj) > oi + len(wi):
                    ck.hit("overlap-later-ends-further")
                if oi <= oj and oj + len(wj) <= oi + len(wi) and (oi, len(wi)) != (oj, len(wj)):
                    ck.hit("overlap-nested")
                if (oi, len(wi)) == (oj, len(wj)):
                    ck.hit("overlap-identical-range")
                if oj < oi:
                    ck.hit("overlap-reversed-order")
            cur = len(old)
            for o, w in datav:
                if o > cur:
                    ck.hit("gap-fill")
                    if "shrunk-%d" % sh in flags:
                        ck.hit("regrow-after-truncate")
                cur = max(cur, o + len(w))
            if nl is not None and nl < after:
                ck.hit("truncate")
                flags.add("shrunk")
                flags.add("shrunk-%d" % sh)
            if nl is not None and nl > after:
                ck.hit("larger-new-length")
            # API-level read of this share vs model, with mechanism classification
            ck.mon("share-data")
            real = ss.slot_readv(si, [sh], [(0, len(new) + after + 16)]).get(sh, [None])[0]
            if real is None:
                viol("share-vanished", "share %d written but slot_readv does not return it" % sh)
                return
            if real != bytes(new):
                viol(classify_data(old, datav, nl, new, real),
                     "share %d after write: read returns %d bytes, model %d bytes; first difference at %r"
                     % (sh, len(real), len(new), next((i for i in range(min(len(real), len(new)))
                                                       if real[i] != new[i]), None)),
                     pre_len=len(old), writes=[(o, len(w)) for o, w in datav], new_length=nl)
                return

    def do_readv():
        which = rng.choice([[], [rng.choice(shnums)], shnums, [rng.choice(shnums), 99]])
        mx = max([len(d) for d in model.values()] + [1])
        readv = [(rng.choice([0, rng.randint(0, mx), mx - 1, mx, mx + 3]),
                  rng.choice([0, 1, mx, mx + 1, rng.randint(0, mx + 5), 2 ** 40])) for _ in range(rng.randint(1, 3))]
        history.append(("readv", which, readv))
        got = ss.slot_readv(si, which, readv)
        ck.mon("read-result")
        want = {sh: [bytes(d[o:o + l]) for (o, l) in readv] for sh, d in model.items() if not which or sh in which}
        if any(o + l > len(d) for d in model.values() for (o, l) in readv):
            ck.hit("read-clipped")
        if got != want:
            viol("read-not-clipped-or-wrong", "slot_readv(%r, %r) differs from the model" % (which, readv),
                 got={k: [len(x) for x in v] for k, v in got.items()},
                 want={k: [len(x) for x in v] for k, v in want.items()})

    check_state("setup")
    nops = rng.randint(10, 40) * nshares
    for _ in range(nops):
        if bad[0]:
            break
        tick()
        try:
            if rng.random() < .75:
                do_writev()
            else:
                do_readv()
        except Exception as e:
            import traceback
            tb = traceback.extract_tb(e.__traceback__)[-1]
            viol("op-raises-%s" % type(e).__name__, "%s: %s at %s:%d" % (
                type(e).__name__, e, os.path.basename(tb.filename), tb.lineno))
            break
        if bad[0]:
            break
        check_state(history[-1][0])
    ck.case("history", key=(tuple(sorted(setup["shares"].items())), nleases, repr(history)),
            nontrivial=("grown" in flags and "shrunk" in flags),
            sample={"setup": setup, "ops": len(history), "first_ops": history[:4]})


# MUST_CATCH -- planted breaks run against scratch copies (VF_REPO), quick tier, seed 0:
#  1. mutable.py _write_share_data: `offset+length >= data_length` -> `>`      NOT CAUGHT: equivalent mutant (when the write
#       ends exactly at data_length the block only re-writes the same length; nothing observable changes)
#  2. mutable.py _write_share_data: zero fill of the gap omitted               CAUGHT (gap-not-zero-filled)
#  3. mutable.py _change_container_size: extra leases re-written 4 bytes short / 4 bytes further
#                                                                               CAUGHT (leases-changed-by-growth)
#  4. mutable.py writev: truncation not applied                                CAUGHT (truncate-not-applied)
#  5. mutable.py _read_share_data: reads not clipped                           CAUGHT (op-raises-AssertionError: the code's own precondition)
#  6. server.py _evaluate_write_vectors: new_length == 0 does not unlink       CAUGHT (share-not-deleted)
#  7. mutable.py _change_container_size: leases_size forgets the count field   CAUGHT (leases-changed-by-growth)
#  8. mutable.py writev: `new_length < cur_length` -> `!=`                      CAUGHT (larger-new-length-extends)
#  9. mutable.py container test `> extra_lease_offset` -> `> extra_lease_offset + 1`  CAUGHT (op-raises-AssertionError)
# 10. server.py: empty bucket dir not removed                                  CAUGHT (bucket-dir-not-removed)
# 11. server.py: test vectors evaluated after the writes                       CAUGHT (testv-outcome-wrong, ...)
# 12. server.py _evaluate_write_vectors: write vectors of one operation sorted by end offset (seeded C23-5), sorted by
#     offset, or reversed                       CAUGHT (overlapping-vectors-not-applied-in-list-order)
#     -- was MISSED while vectors of one operation never overlapped; overlapping / nested / identical-range /
#        reversed-order vectors are now generated and modelled as slice assignments in list order.
# The list is kept runnable in selftest/breaks_c23.py (tools/selftest.py --prop C23: 13/13 caught).
