"""C12 concurrent writers are detected, never silently clobbered."""
META = {
    "level": "exploration",
    "technique": "runtime monitoring of real concurrent publishes on an in-process grid: stateless DFS over message-delivery orders (re-execution, sleep sets, visited set on per-process delivery projections) plus seeded random schedules; wire recorder reading each slot's pre-state from disk at delivery time, survey knowledge derived from the answers each client received",
    "text": "2-3 independent real clients (own NodeMaker each) hold the same write-cap and publish concurrently (overwrite, upload with own or stale servermap, modify with retry/backoff, in-place update) to real StorageServers. Refuting events: a server applies a write whose slot pre-state (parsed from the share file just before the server method runs) differs from what that client last observed for the slot in the answers it received; an operation succeeds although a write of its last publish attempt was refused, or although the server that processed one of its writes held at that moment (ground truth read from the share files, other share numbers included) a version the client had never been shown and was not writing there; after all writers finished with (publishes+1)*k <= distinct shares, no version has k distinct shares on disk (independent scan) or a fresh client's MODE_CHECK map update + download does not recover a written content; a lone writer fails. DFS is exhaustive only on the configurations counted in dfs_configs_exhausted.",
    "note": "Trusts the in-process Wire (stands in for foolscap/HTTP transport; per-connection FIFO emulated on the 'free' profile), the virtual reactor, greedy execution of client-local steps (eventual queue, thread completions) between deliveries in DFS mode, and the harness-side share-prefix parser. Salts are made reproducible by substituting publish.os.urandom per case.",
}
LEVEL = "exploration"
BUDGET = {"quick": 36, "thorough": 400}
SHARDS = {"quick": 1, "thorough": 14}

from vf import env  # noqa
import random as _random
import time as _time

FAIL_OK = ("UncoordinatedWriteError", "NotEnoughServersError")
READ_SIDE = ("NotEnoughSharesError", "UnrecoverableFileError")


class _DetOs(object):
    """`os` as seen by mutable/publish.py: urandom is reproducible per case, everything else is the real module."""

    def __init__(self, real, seed):
        self._real = real
        self._rng = _random.Random("urandom/%s" % (seed,))

    def urandom(self, n):
        return self._rng.randbytes(n)

    def __getattr__(self, name):
        return getattr(self._real, name)


def _f(res):
    try:
        return "%s: %s" % (res.type.__name__, str(res.value)[:200])
    except Exception:
        return repr(res)[:200]


def _tb(res):
    try:
        lines = [l for l in res.getTraceback().splitlines() if "site-packages" not in l]
        return lines[-14:]
    except Exception:
        return None


def outcome(box):
    if not box:
        return "pending"
    r = box[0]
    if hasattr(r, "type") and hasattr(r, "value") and hasattr(r, "trap"):
        return "err:" + r.type.__name__
    return "ok"


def content_closure(initial, ops, limit=4000):
    """Every content some sequence of the writers' operations can produce (the set a recovered version must be in)."""
    S = {initial}
    for op in ops:
        if op["kind"] in ("overwrite", "upload", "upload-stale"):
            S.add(op["content"])
    for _ in range(8):
        new = set()
        for s in S:
            for op in ops:
                if op["kind"] == "modify":
                    if op["tag"] not in s.split(b"|"):
                        new.add(s + b"|" + op["tag"])
                elif op["kind"] == "update":
                    # an offset beyond the end of a file another writer shortened meanwhile is not defined by the
                    # API; the lenient reading (data lands at the end) is accepted
                    off, d = op["offset"], op["data"]
                    new.add(s[:off] + d + s[off + len(d):])
        if new <= S or len(S) > limit:
            break
        S |= new
    return S


def describe_cfg(cfg):
    return {k: v for k, v in cfg.items() if k != "key"}


def run_case(ck, cfg, mode, chooser=None, sched_seed=0, deep=True, stats=None):
    """Execute one case from scratch.  mode: 'dfs' (chooser = DfsChooser) | 'random'.
    Returns dict(pruned, schedule, outcomes, ...)."""
    from vf.grid import VGrid, KEYPOOL
    from vf.checks import _mutmon as M
    from allmydata.mutable.publish import MutableData
    from allmydata.mutable.common import MODE_WRITE, MODE_CHECK
    import allmydata.mutable.publish as publish_mod

    fmt, k, n, nservers = cfg["fmt"], cfg["k"], cfg["n"], cfg["nservers"]
    kinds = cfg["kinds"]
    from vf.checks import _mutkeys
    _mutkeys.install(KEYPOOL)
    KEYPOOL.i = cfg.get("keyidx", 0) % len(_mutkeys.KEYS_B64)   # which fixed key = which storage index / placement
    _random.seed("c12/%s" % (sched_seed,))
    saved_os = publish_mod.os
    publish_mod.os = _DetOs(saved_os, "%s/%s" % (cfg.get("key"), sched_seed))
    g = VGrid(nservers=nservers, seed=sched_seed, profile=cfg.get("profile", "free"))
    out = dict(pruned=None, alarms=[], outcomes=None, schedule=None)
    monbox = [None]
    try:
        if chooser is not None:
            g.sched.chooser = chooser
        c0 = g.make_client(k=k, happy=1, n=n, mutable_format=fmt)
        initial = cfg["initial"]
        st, node0 = g.wait(c0.create_mutable_file(MutableData(initial)))
        if st != "ok":
            ck.observe("setup-create-failed")
            return out
        cap = node0.get_uri()
        si = node0.get_storage_index()
        dropped_holders = []
        for shnum in cfg.get("drop", ()):
            import os
            for (vs_, sh_, p) in g.find_shares(si):
                if sh_ == shnum:
                    os.unlink(p)
                    dropped_holders.append(vs_.name)
        mon = M.WireMon(g, si)
        monbox[0] = mon
        if stats is not None:
            stats["keyfn"][0] = mon.state_key
            stats["heads"][0] = mon.heads
        shnums_before = set(sh for (_, sh, _) in g.find_shares(si))
        if len(shnums_before) < k:
            ck.skip("initially-unrecoverable")
            return out
        ops = []
        for i, kind in enumerate(kinds):
            tag = "W%d" % i
            c = g.make_client(k=k, happy=1, n=n, mutable_format=fmt)
            hidden = [g.servers[j % nservers].name for j in cfg.get("hide", {}).get(i, ())]
            if i in cfg.get("hide_dropped_holder", ()):
                # this writer does not see the server that lost its share: it will place the missing share number
                # elsewhere than the others do, so write answers can reveal shares a writer did not know about
                hidden = sorted(set(hidden) | set(dropped_holders))
            M.tag_client(g, c, tag, monbox, hidden=hidden)
            node = c.create_node_from_uri(cap)
            op = dict(kind=kind, tag=tag.encode(), client=tag, node=node, box=[], modcalls=[])
            if kind in ("overwrite", "upload", "upload-stale"):
                op["content"] = (b"content-of-%s-" % tag.encode()) + b"x" * (7 * (i + 1) + cfg.get("pad", 0))
            elif kind == "update":
                op["data"] = b"<%s>" % tag.encode()
                op["offset"] = cfg.get("offsets", (3, 0, len(initial)))[i % 3]
            ops.append(op)
        # sequential preparation (not part of the explored phase)
        for op in ops:
            if op["kind"] == "upload-stale" and cfg.get("scenario") != "mid-publish-survey":
                st, sm = g.wait(op["node"].get_servermap(MODE_WRITE))
                if st != "ok":
                    ck.observe("setup-survey-failed")
                    return out
                op["smap"] = sm
            elif op["kind"] == "update":
                st, mfv = g.wait(op["node"].get_best_mutable_version())
                if st != "ok":
                    ck.observe("setup-survey-failed")
                    return out
                op["mfv"] = mfv

        for shnum in cfg.get("vanish", ()):
            # a share disappears (server lost it) after the writers with a prepared survey have seen it
            import os
            for (vs_, sh_, p) in g.find_shares(si):
                if sh_ == shnum:
                    os.unlink(p)
                    ck.hit("share-vanished-after-survey")

        def start(op):
            kind, node = op["kind"], op["node"]
            if kind == "overwrite":
                return node.overwrite(MutableData(op["content"]))
            if kind == "upload":
                d = node.get_servermap(MODE_WRITE)
                d.addCallback(lambda sm: node.upload(MutableData(op["content"]), sm))
                return d
            if kind == "upload-stale":
                return node.upload(MutableData(op["content"]), op["smap"])
            if kind == "modify":
                def modifier(old, servermap, first_time):
                    op["modcalls"].append((first_time, len(old)))
                    # the survey the published data will be derived from: what this client has been shown up to now
                    op.setdefault("derive", []).append((mon.tick, mon.snapshot(op["client"]), old))
                    if op.get("on_modifier"):
                        op["on_modifier"](first_time)
                    if op["tag"] in old.split(b"|"):
                        return None
                    return old + b"|" + op["tag"]
                return node.modify(modifier)
            if kind == "update":
                return op["mfv"].update(MutableData(op["data"]), op["offset"])
            raise ValueError(kind)

        first_write_idx = len(mon.writes)
        if chooser is not None and hasattr(chooser, "active"):
            chooser.active = True
        try:
            scenario = cfg.get("scenario")
            if scenario == "retry-window":
                # A.modify() collides with B1 (so it is on its retry path); while A is between "contents read and
                # modified" and "publish", B2 completes a whole write.  A's requests are held back meanwhile.
                a, nth = ops[0], [0]
                started = [a]

                def on_modifier(first_time):
                    nth[0] += 1
                    if nth[0] < len(ops):
                        nxt = ops[nth[0]]
                        key = M.hold(g, a["client"])
                        started.append(nxt)
                        d = start(nxt)
                        d.addBoth(nxt["box"].append)
                        d.addBoth(lambda _: M.release(g, key))
                a["on_modifier"] = on_modifier
                start(a).addBoth(a["box"].append)
                st = g.sched.run(until=lambda: all(op["box"] for op in started), max_steps=300000, horizon=6 * 3600.0)
                if len(started) == len(ops):
                    ck.hit("writer-completes-inside-retry-window-of-modify")
                ops = started
            elif scenario == "mid-publish-survey":
                # A surveys the file while B is part-way through its publish (B's write for share S still on its
                # way), B then finishes, A publishes from that survey
                b, a = ops[0], ops[1]
                holder = [vs_.name for (vs_, sh_, _) in g.find_shares(si) if sh_ == cfg["S"] % n][0]
                key = M.hold(g, b["client"], holder, M.WRITE)
                start(b).addBoth(b["box"].append)
                want = len([1 for (vs_, sh_, _) in g.find_shares(si) if vs_.name != holder])
                g.sched.run(until=lambda: M.held(g, key) >= 1 and sum(
                    1 for w in mon.writes if w["client"] == b["client"] and w["rec"]["state"] == "answered") >= want,
                    max_steps=100000, horizon=600.0)
                st_, sm = g.wait(a["node"].get_servermap(MODE_WRITE))
                M.release(g, key)
                g.sched.run(until=lambda: bool(b["box"]), max_steps=100000, horizon=600.0)
                if st_ != "ok" or not b["box"]:
                    ck.observe("setup-survey-failed")
                    return out
                a["smap"] = sm
                ck.hit("survey-taken-in-the-middle-of-another-publish")
                start(a).addBoth(a["box"].append)
                st = g.sched.run(until=lambda: bool(a["box"]), max_steps=300000, horizon=6 * 3600.0)
            else:
                for op in ops:
                    start(op).addBoth(op["box"].append)
                st = g.sched.run(until=lambda: all(op["box"] for op in ops), max_steps=300000, horizon=6 * 3600.0)
        except M.Prune as e:
            out["pruned"] = str(e)
            out["alarms"] = list(mon.alarms)
            return out
        finally:
            if chooser is not None and hasattr(chooser, "active"):
                chooser.active = False
        out["schedule"] = g.sched.schedule_hash()
        out["witness"] = ([p[1] for p in chooser.points] if hasattr(chooser, "points")
                          else dict(sched_seed=sched_seed, profile=cfg.get("profile")))
        out["alarms"] = list(mon.alarms)
        outcomes = [outcome(op["box"]) for op in ops]
        out["outcomes"] = outcomes
        out["sched_status"] = st
        evaluate(ck, cfg, g, mon, ops, outcomes, initial, shnums_before, c0, monbox, deep, out, first_write_idx)
        return out
    finally:
        publish_mod.os = saved_os
        g.pre_delivery = g.post_delivery = None
        g.close()


def evaluate(ck, cfg, g, mon, ops, outcomes, initial, shnums_before, c0, monbox, deep, out, first_write_idx):
    from vf.checks import _mutmon as M
    from allmydata.mutable.common import MODE_CHECK
    k = cfg["k"]
    desc = describe_cfg(cfg)
    W = len(ops)
    writes = mon.writes[first_write_idx:]
    applied = [w for w in writes if w["wrote"]]
    refused = [w for w in writes if w["wrote"] is False]
    ck.mon("applied-write-matches-survey", len(applied))
    if mon.lenient:
        ck.skip("write-on-empty-slot-conditional-on-emptiness", mon.lenient)
    if refused:
        ck.hit("write-refused-by-test-vector")
    if applied:
        ck.hit("write-applied")
    winners = set(w["client"] for w in applied)
    if len(winners) >= 2:
        ck.hit("writes-of-two-publishers-applied")
    by_client_slots = {}
    for w in applied:
        by_client_slots.setdefault((w["server"], w["shnum"]), set()).add(w["client"])
    if any(len(v) >= 2 for v in by_client_slots.values()):
        ck.hit("slot-rewritten-by-second-publisher-after-resurvey")

    # ---- a modify() publishes data derived from one survey: the slots it overwrites must still hold what THAT survey
    #      showed (a re-survey between reading and publishing would hide a writer that completed in between)
    if not cfg.get("vanish"):
        for op in ops:
            for w in [w for w in applied if w["client"] == op["client"]] if op.get("derive") else ():
                before = [dv for dv in op["derive"] if dv[0] < w["rec"].get("tick_send", 0)]
                if not before:
                    continue
                ck.mon("applied-write-matches-survey-the-data-derives-from")
                kn = mon.known_in(before[-1][1], w["server"], w["shnum"])
                kn_cs = kn[1] if kn[0] == "cs" else None
                if w["pre"] is not None and w["pre"] != kn_cs:
                    ck.violation("write-applied-over-version-newer-than-the-data-it-derives-from",
                                 "%s modify(): server %s applied its write to sh%d over %s (written by %s), but when the "
                                 "modifier was given the contents this client had last been shown %s there -- the slot "
                                 "changed after the survey the published data derives from and nobody noticed"
                                 % (op["client"], w["server"], w["shnum"], M.csid(w["pre"]), mon.owner.get(w["pre"]),
                                    M.csid(kn_cs) or kn[0]),
                                 dict(cfg=desc, outcomes=outcomes, event=mon.describe_write(w), wire=mon.log_tail(50),
                                      schedule=out.get("witness")))
    versions_written = set(w["new"] for w in writes if w["new"] is not None)
    any_pending = False
    for op, oc in zip(ops, outcomes):
        ck.observe("op-%s-%s" % (op["kind"], oc))
        mine = [w for w in writes if w["client"] == op["client"]]
        attempts = []
        for w in mine:
            if not attempts or attempts[-1][0] != w["new"]:
                if w["new"] in [a[0] for a in attempts]:
                    [a for a in attempts if a[0] == w["new"]][0][1].append(w)
                    continue
                attempts.append((w["new"], [w]))
            else:
                attempts[-1][1].append(w)
        if len(attempts) > 1:
            ck.hit("publish-retried-after-conflict")
        for (a_cs, a_writes) in attempts:
            if met_unknown(M, mon, op["client"], a_cs, a_writes, None):
                ck.hit("write-meets-unknown-version-on-server")
                if all(w["wrote"] for w in a_writes):
                    ck.hit("unknown-version-on-server-while-all-own-writes-applied")
            if revealed_unknown(M, mon, op["client"], a_cs, a_writes, None):
                ck.observe("write-answer-reveals-unknown-version")     # informational: depends on the server's answer
        if oc == "pending":
            any_pending = True
            ck.observe("writer-did-not-complete")
            continue
        if oc.startswith("err:"):
            et = oc[4:]
            if et == "UncoordinatedWriteError":
                ck.hit("uncoordinated-write-error-reported")
            met_conflict = any(w["wrote"] is False for w in mine)
            if met_conflict:
                ck.mon("conflict-reported-as-uncoordinated-write")
                if et in FAIL_OK:
                    pass
                elif et in READ_SIDE:
                    # the retry of modify()/update() could not read any version back in the middle of the race
                    ck.skip("conflict-then-%s-while-rereading" % et)
                else:
                    ck.violation("conflict-ends-in-internal-error-%s" % et,
                                 "%s %s had a write refused (another writer changed the shares) and then failed with %s "
                                 "instead of UncoordinatedWriteError" % (op["client"], op["kind"], _f(op["box"][0])),
                                 dict(cfg=desc, outcomes=outcomes, traceback=_tb(op["box"][0]), wire=mon.log_tail(40),
                                      schedule=out.get("witness")))
            elif et not in FAIL_OK and et not in READ_SIDE:
                ck.observe("failed-without-refused-write-%s" % et)
            if W == 1 and not cfg.get("drop") and not cfg.get("vanish"):
                ck.mon("lone-writer-succeeds")
                ck.violation("uncontended-publish-fails",
                             "a single writer with nobody else writing got %s" % _f(op["box"][0]),
                             dict(cfg=desc, wire=mon.log_tail(30)))
            continue
        # success
        ck.hit("writer-succeeded")
        ck.mon("success-implies-clean-answers")
        if W == 1:
            ck.mon("lone-writer-succeeds")
        if not attempts:
            ck.observe("success-without-any-write")
            continue
        last_cs, last = attempts[-1]
        bad = [w for w in last if w["wrote"] is not True]
        if bad:
            ck.violation("publish-succeeds-despite-refused-write",
                         "%s %s reported success although %d write(s) of its last publish %s were refused by the server"
                         % (op["client"], op["kind"], len(bad), M.csid(last_cs)),
                         dict(cfg=desc, refused=[mon.describe_write(w) for w in bad[:3]], outcomes=outcomes,
                              wire=mon.log_tail(40), schedule=out.get("witness")))
        ck.mon("success-implies-no-unknown-version-met")
        for (c_cs, sh, server) in met_unknown(M, mon, op["client"], last_cs, last, ck):
            ck.violation("publish-succeeds-despite-unknown-version-on-server",
                         "%s %s reported success although, when %s processed its write, that server held sh%d at %s -- a "
                         "version (written by %s) this publisher had never been shown and was not writing there"
                         % (op["client"], op["kind"], server, sh, M.csid(c_cs), mon.owner.get(c_cs)),
                         dict(cfg=desc, outcomes=outcomes, wire=mon.log_tail(40), schedule=out.get("witness")))
    # did any answer reveal a share the writer was not writing? (reach only)
    for w in writes:
        rec = w["rec"]
        if isinstance(rec.get("result"), tuple) and any(sh not in rec["args"][2] for sh in rec["result"][1]):
            ck.hit("answer-shows-other-shares-on-server")
            break

    # ---- final state
    if any_pending:
        ck.skip("recoverability-not-judged-writer-incomplete")
        return
    dv = M.disk_versions(g, cfg_si(mon))
    shnums_now = set()
    for e in dv.values():
        shnums_now |= e["shnums"]
    if cfg.get("vanish"):
        ck.skip("recoverability-not-judged-after-share-loss")
        return
    rec_disk = {p: e for p, e in dv.items() if e["info"] is not None and len(e["shnums"]) >= e["info"]["k"]}
    nver = len(versions_written | set(e["info"]["cs"] for e in dv.values() if e["info"]))
    bound = nver * k <= len(shnums_now)
    out["bound"] = bound
    ck.hit("bound-met" if bound else "bound-exceeded")
    ck.mon("recoverable-after-race")
    witness = dict(cfg=desc, outcomes=outcomes, versions_on_disk=[
        dict(version=M.csid(e["info"]["cs"]) if e["info"] else "?", shnums=sorted(e["shnums"]), slots=e["slots"])
        for e in dv.values()], wire=mon.log_tail(40), schedule=out.get("witness"))
    if not rec_disk:
        if bound:
            ck.violation("no-version-recoverable-after-concurrent-writes",
                         "all writers finished, %d versions x k=%d <= %d distinct shares, yet no version has k distinct shares on disk"
                         % (nver, k, len(shnums_now)), witness)
        else:
            ck.skip("unrecoverable-beyond-bound")
            ck.hit("race-left-no-recoverable-version-beyond-bound")
    if not deep:
        return
    # cross-check through a fresh real client
    cr = g.make_client(k=k, happy=1, n=cfg["n"], mutable_format=cfg["fmt"])
    M.tag_client(g, cr, "R", [None])
    rn = cr.create_node_from_uri(ops[0]["node"].get_uri())
    st, sm = g.wait(rn.get_servermap(MODE_CHECK))
    ck.mon("mapupdate-agrees-with-disk-scan")
    if st != "ok":
        ck.violation("final-mapupdate-fails", "MODE_CHECK map update of a fresh client: %s %s" % (st, _f(sm) if sm else ""), witness)
        return
    rv = set((v[0], v[1]) for v in sm.recoverable_versions())
    dvs = set((e["info"]["seqnum"], e["info"]["roothash"]) for e in rec_disk.values())
    if rv != dvs:
        ck.violation("mapupdate-disagrees-with-disk-scan",
                     "fresh MODE_CHECK map update reports recoverable versions %r, the share files say %r"
                     % (sorted((a, b[:4].hex()) for a, b in rv), sorted((a, b[:4].hex()) for a, b in dvs)), witness)
    if rv:
        st, data = g.wait(rn.download_best_version())
        ck.mon("recovered-content-was-written")
        if st != "ok":
            if bound:
                ck.violation("recoverable-version-does-not-download",
                             "map update found a recoverable version but download_best_version %s: %s" % (st, _f(data) if data else ""),
                             witness)
            else:
                ck.observe("download-failed-beyond-bound")
        else:
            cands = content_closure(initial, ops)
            if data not in cands:
                ck.violation("recovered-content-never-written",
                             "best version reads back %r which no writer (or chain of modifiers) produced" % (data[:80],),
                             witness)
            else:
                ok_mods = [op for op, oc in zip(ops, outcomes) if oc == "ok" and op["kind"] == "modify"]
                # with full visibility and either two writers or writers that follow one another, a modify() that
                # reported success cannot disappear: whoever overwrites it surveyed it and built on it
                strict = (all(op["kind"] == "modify" for op in ops) and not cfg.get("hide") and not cfg.get("drop")
                          and not cfg.get("vanish") and not cfg.get("hide_dropped_holder")
                          and (len(ops) == 2 or cfg.get("scenario") == "retry-window"))
                if strict:
                    ck.mon("successful-modify-survives")
                for op in ok_mods:
                    if op["tag"] not in data.split(b"|"):
                        if strict:
                            ck.violation("successful-modify-silently-lost",
                                         "%s modify() reported success, every operation reported success or an "
                                         "UncoordinatedWriteError it recovered from, yet the file reads %r: the "
                                         "update is gone" % (op["client"], data[:120]), witness)
                        else:
                            ck.observe("successful-modify-missing-from-best-version")
    elif bound:
        ck.violation("no-version-recoverable-by-client-after-concurrent-writes",
                     "fresh client finds no recoverable version although the bound holds", witness)


def met_unknown(M, mon, client, new_cs, attempt_writes, ck):
    """Ground truth, read from the share files just before the server ran each write of one publish attempt:
    (checkstring, shnum, server) of shares on that server which the publisher was not writing there and whose version
    is neither its own new one nor one it had been shown before that moment."""
    targeted = {}
    for w in attempt_writes:
        targeted.setdefault(w["server"], set()).add(w["shnum"])
    seen = mon.seen.get(client, {})
    done, out = set(), []
    for w in attempt_writes:
        rec = w["rec"]
        if id(rec) in done or "vf_pre_all" not in rec:
            continue
        done.add(id(rec))
        for sh, cs in rec["vf_pre_all"].items():
            if sh in targeted[w["server"]] or cs is None or cs == new_cs:
                continue
            first_seen = seen.get(cs)
            if first_seen is not None and first_seen < rec.get("tick_srv", 0):
                if ck is not None:
                    ck.skip("other-share-of-already-known-version-on-server")
                continue
            out.append((cs, sh, w["server"]))
    return out


def revealed_unknown(M, mon, client, new_cs, attempt_writes, ck):
    """(checkstring, shnum, server) of shares shown by the answers to one publish attempt that the publisher was
    not writing on that server, whose version is neither its own new one nor one it had been shown before."""
    targeted = {}
    for w in attempt_writes:
        targeted.setdefault(w["server"], set()).add(w["shnum"])
    seen = mon.seen.get(client, {})
    done, out = set(), []
    for w in attempt_writes:
        rec = w["rec"]
        if id(rec) in done or not isinstance(rec.get("result"), tuple):
            continue
        done.add(id(rec))
        for sh, datav in rec["result"][1].items():
            if sh in targeted[w["server"]]:
                continue
            c = M.parse_cs(datav[0]) if datav else None
            if c is None or c[4] == new_cs:
                continue
            first_seen = seen.get(c[4])
            if first_seen is not None and first_seen < rec.get("tick_rsp", 0):
                if ck is not None:
                    ck.skip("surprise-share-of-already-known-version")
                continue
            out.append((c[4], sh, w["server"]))
    return out


def cfg_si(mon):
    return mon.si


# ------------------------------------------------------------------ configuration spaces

def dfs_configs():
    """Small configurations for systematic exploration, smallest first."""
    out = []
    for W in (2, 3):
        for kindset in ("stale", "overwrite", "mixed"):
            for ns in (2, 3, 4):
                for (k, n) in ((1, 2), (1, 3), (2, 4), (2, 3), (1, 4), (2, 6), (1, 6), (2, 2)):
                    for fmt in ("SDMF", "MDMF"):
                        if kindset == "stale":
                            kinds = ("upload-stale",) * W
                        elif kindset == "overwrite":
                            kinds = ("overwrite",) * W
                        else:
                            kinds = ("overwrite", "upload-stale", "upload")[:W]
                        size = W * (len(kinds) + (0 if kindset == "stale" else ns)) * n
                        out.append(dict(fmt=fmt, k=k, n=n, nservers=ns, kinds=kinds, profile="free",
                                        initial=b"initial contents of the shared file", weight=W * n + (0 if kindset == "stale" else W * ns),
                                        key="dfs/%s/%d/%d/%d/%s/%s" % (fmt, k, n, ns, W, kindset)))
    for fmt in ("SDMF", "MDMF"):
        for (k, n, ns) in ((1, 2, 2), (1, 3, 3), (1, 3, 2), (2, 4, 3)):
            for kinds in (("upload-stale", "upload-stale"), ("overwrite", "overwrite")):
                for keyidx in range(4):
                    out.append(dict(fmt=fmt, k=k, n=n, nservers=ns, kinds=kinds, profile="free", drop=(n - 1,),
                                    hide_dropped_holder=(0,), initial=b"initial contents of the shared file",
                                    keyidx=keyidx,
                                    weight=2 * n + (0 if kinds[0] == "upload-stale" else 2 * ns) + 1,
                                    key="dfs-surprise/%s/%d/%d/%d/%s/key%d" % (fmt, k, n, ns, kinds[0], keyidx)))
    out.sort(key=lambda c: (c["weight"], c["key"]))
    return out


def random_cfg(rng, tier):
    W = rng.choice([1, 2, 2, 2, 3, 3])
    nservers = rng.choice([1, 2, 3, 4, 5, 6, 8, 10])
    k = rng.choice([1, 1, 2, 2, 3])
    side = rng.random()
    if side < .45:
        n = min(10, max(k, (W + 1) * k + rng.randint(0, 2)))          # bound met
    elif side < .9:
        n = max(k, min(10, (W + 1) * k - rng.randint(1, max(1, W * k))))  # bound exceeded
    else:
        n = rng.randint(k, 10)
    fmt = rng.choice(["SDMF", "MDMF"])
    pool = ["overwrite", "overwrite", "upload", "upload-stale", "modify", "modify", "update"]
    kinds = tuple(rng.choice(pool) for _ in range(W))
    if rng.random() < .25:
        kinds = ("modify",) * W
    initial = b"base" + bytes(rng.choice(b"abcdefgh") for _ in range(rng.choice([0, 1, 20, 200])))
    cfg = dict(fmt=fmt, k=k, n=n, nservers=nservers, kinds=kinds, initial=initial, keyidx=rng.randrange(8),
               profile=rng.choice(["free", "free", "per-server-fifo", "fifo"]), pad=rng.choice([0, 0, 100]),
               offsets=(rng.randint(0, len(initial)), 0, len(initial)))
    if W >= 2 and rng.random() < .3:
        # some shares are missing and the writers see different servers: they will place the same share numbers
        # on different servers, so write answers reveal shares a writer did not know about
        cfg["drop"] = tuple(sorted(rng.sample(range(n), rng.randint(1, n - k)))) if n > k else ()
        if nservers >= 3 and rng.random() < .4:
            cfg["hide"] = {i: (rng.randrange(nservers),) for i in range(W) if rng.random() < .6}
        elif nservers >= 2:
            cfg["hide_dropped_holder"] = tuple(i for i in range(W) if rng.random() < .5) or (0,)
    if "upload-stale" in kinds and n > k and rng.random() < .5:
        cfg["vanish"] = (rng.randrange(n),)
    cfg["key"] = "rnd/%s" % (sorted((kk, repr(v)) for kk, v in cfg.items()),)
    return cfg


def scenario_cfg(rng, which=None, fmt=None, S=None):
    """Directed histories (the interleaving that matters is produced by holding one client's requests back)."""
    which = which or rng.choice(["retry-window", "mid-publish-survey"])
    fmt = fmt or rng.choice(["SDMF", "MDMF"])
    k, n, ns = rng.choice([(1, 3, 3), (1, 2, 2), (2, 4, 4), (2, 5, 3), (1, 4, 2), (3, 6, 6)])
    cfg = dict(fmt=fmt, k=k, n=n, nservers=ns, initial=b"base", keyidx=rng.randrange(8), scenario=which,
               profile=rng.choice(["free", "per-server-fifo", "fifo"]))
    if which == "retry-window":
        cfg["kinds"] = ("modify", "modify", "modify")
    else:
        cfg["kinds"] = ("overwrite", "upload-stale")
        cfg["S"] = rng.randrange(n) if S is None else S
    cfg["key"] = "scn/%s" % (sorted((kk, repr(v)) for kk, v in cfg.items()),)
    return cfg


# ------------------------------------------------------------------ driver

def report_alarms(ck, cfg, alarms, witness):
    for (key, what, w) in alarms:
        ck.violation(key, what, dict(cfg=describe_cfg(cfg), event=w, schedule=witness))


def explore_config(ck, cfg, max_runs, deadline, totals):
    from vf.checks import _mutmon as M
    stats = dict(keyfn=[None], heads=[None])
    runs = [0]

    def run_fn(chooser):
        runs[0] += 1
        deep = (runs[0] % 5 == 1)
        with ck.watchdog(120, "dfs %s" % cfg["key"]):
            return run_case(ck, cfg, "dfs", chooser=chooser, sched_seed=0, deep=deep, stats=stats)
        return None

    dfs = M.Dfs(run_fn, stats["keyfn"], stats["heads"])
    while not dfs.finished():
        if dfs.runs >= max_runs or _time.time() > deadline:
            break
        ch, res = dfs.step()
        if res is None:
            break
        witness = [p[1] for p in ch.points]
        if res["alarms"]:
            report_alarms(ck, cfg, res["alarms"], witness)
        if res["pruned"] is None and res.get("schedule"):
            if res["schedule"] not in dfs.schedules:
                dfs.schedules.add(res["schedule"])
            ck.case("dfs-%s" % cfg["fmt"], key=(cfg["key"], res["schedule"]), nontrivial=True,
                    sample=dict(cfg=describe_cfg(cfg), outcomes=res["outcomes"], choice_points=len(ch.points)))
    totals["runs"] += dfs.runs
    totals["complete"] += dfs.complete
    totals["schedules"] += len(dfs.schedules)
    totals["pruned_visited"] += dfs.pruned_visited
    totals["pruned_sleep"] += dfs.pruned_sleep
    totals["diverged"] += dfs.diverged
    totals["states"] += len(dfs.visited)
    if dfs.finished() and dfs.diverged == 0:
        totals["exhausted"] += 1
        totals["exhausted_keys"].append(cfg["key"])
        return True
    totals["budgeted"] += 1
    return False


def run(ck):
    from vf.checks import _mutmon as M
    with M.fast_tmp():
        _run(ck)


def _run(ck):
    ck.rule = ("DFS: configuration = (format, k, N, servers, writers, operation kinds); within it every delivery order of "
               "the writers' requests and responses (per-connection FIFO) up to commutation of deliveries at different "
               "processes; distinct = distinct schedule hash. Random: configuration with k,N on both sides of "
               "(publishes+1)*k <= shares, 1..10 servers, mixed kinds incl. modify/update, missing shares and per-client "
               "server visibility, transport profile, scheduler seed; non-trivial = at least two writers")
    t0 = _time.time()
    budget = ck.budget_s or BUDGET[ck.tier]
    totals = dict(runs=0, complete=0, schedules=0, pruned_visited=0, pruned_sleep=0, diverged=0, states=0,
                  exhausted=0, budgeted=0, exhausted_keys=[])
    cfgs = dfs_configs()
    CORE = ("dfs/SDMF/1/2/2/2/stale", "dfs/MDMF/1/2/2/2/stale",
            "dfs-surprise/SDMF/1/2/2/upload-stale/key3", "dfs-surprise/MDMF/1/2/2/upload-stale/key3")
    core = [c for c in cfgs if c["key"] in CORE]
    rest = [c for c in cfgs if c["key"] not in CORE]
    if ck.tier == "quick":
        dfs_share = 0.55
        r = ck.rng("dfs-pick")
        small = [c for c in rest if c["weight"] <= 8]
        big = [c for c in rest if c["weight"] > 8]
        picked = r.sample(small, 3) + r.sample(big, 2)
        per_cfg_runs = 260
    else:
        dfs_share = 0.6
        picked = [c for i, c in enumerate(rest) if ck.mine(i)]
        per_cfg_runs = 1500
        if ck.shard != 0:
            core = []
    dfs_deadline = t0 + budget * dfs_share
    all_finished = True
    for cfg in core:
        # small, always explored completely (about 300 runs altogether), whatever the load of the machine
        done = explore_config(ck, cfg, 600, t0 + budget * 3, totals)
        all_finished = all_finished and done
    for j, cfg in enumerate(picked):
        if _time.time() > dfs_deadline or ck.out_of_time():
            all_finished = False
            ck.observe("dfs-config-not-started")
            continue
        left = len(picked) - j
        slot = max(2.0, (dfs_deadline - _time.time()) / left * (2.0 if left > 1 else 1.0))
        done = explore_config(ck, cfg, per_cfg_runs, min(dfs_deadline, _time.time() + slot), totals)
        all_finished = all_finished and done
    ck.exhaustive = bool(all_finished and totals["exhausted"] > 0)
    ck.extra["dfs_runs"] = totals["runs"]
    ck.extra["dfs_complete_runs"] = totals["complete"]
    ck.extra["dfs_distinct_complete_schedules"] = totals["schedules"]
    ck.extra["dfs_distinct_states"] = totals["states"]
    ck.extra["dfs_pruned_visited"] = totals["pruned_visited"]
    ck.extra["dfs_pruned_sleep_blocked"] = totals["pruned_sleep"]
    ck.extra["dfs_replay_divergences"] = totals["diverged"]
    ck.extra["dfs_configs_exhausted"] = totals["exhausted"]
    ck.extra["dfs_configs_budgeted"] = totals["budgeted"]
    ck.extra["dfs_exhausted_sample"] = totals["exhausted_keys"][:8]

    # ---- seeded random schedules
    i = 0
    rnd_schedules = set()
    min_cases = ck.evaluations + (120 if ck.tier == "quick" else 250)
    while ck.more(min_cases=min_cases):
        i += 1
        if not ck.mine(i):
            continue
        rng = ck.rng("rnd", i)
        if i <= 10 and ck.shard == 0:
            # the directed histories always run, whatever the load: both kinds, both formats, several shares
            cfg = scenario_cfg(rng, ("retry-window", "mid-publish-survey")[i % 2], ("SDMF", "MDMF")[(i // 2) % 2], S=i % 3)
        elif rng.random() < .08:
            cfg = scenario_cfg(rng)
        else:
            cfg = random_cfg(rng, ck.tier)
        seed = rng.getrandbits(32)
        with ck.watchdog(180, "random case %d" % i):
            res = run_case(ck, cfg, "random", chooser=None, sched_seed=seed, deep=True)
            if res["alarms"]:
                report_alarms(ck, cfg, res["alarms"], dict(sched_seed=seed, case=i))
            if res.get("schedule"):
                rnd_schedules.add(res["schedule"])
                ck.case("random-%s" % cfg["fmt"], key=(cfg["key"], res["schedule"]), nontrivial=len(cfg["kinds"]) >= 2,
                        sample=dict(cfg=describe_cfg(cfg), outcomes=res["outcomes"], bound_met=res.get("bound")))
    ck.extra["random_distinct_schedules"] = len(rnd_schedules)
    ck.extra["eventual_exceptions_last_case"] = len(env.evq.exceptions)
    ck.require_monitor("applied-write-matches-survey-the-data-derives-from", "successful-modify-survives",
                       "applied-write-matches-survey", "success-implies-clean-answers", "recoverable-after-race",
                       "mapupdate-agrees-with-disk-scan", "lone-writer-succeeds")
    ck.require_reach("write-refused-by-test-vector", "uncoordinated-write-error-reported", "writer-succeeded",
                     "writes-of-two-publishers-applied", "bound-met", "bound-exceeded",
                     "write-meets-unknown-version-on-server", "unknown-version-on-server-while-all-own-writes-applied",
                     "writer-completes-inside-retry-window-of-modify", "survey-taken-in-the-middle-of-another-publish")
    ck.assumptions.append("client-local steps (eventual queue turns, thread completions, due timers) run greedily "
                          "between message deliveries during DFS; random mode interleaves them freely")
    ck.assumptions.append("exhaustive=true refers to the DFS configurations listed in dfs_exhausted_sample/"
                          "dfs_configs_exhausted only; all other coverage is sampled")


# MUST_CATCH (/verif/selftest/breaks_c12.py; all 10 caught at quick tier, key other than the finding already present)
#   c12-server-testv-always-true                  storage/server.py   -> write-applied-over-version-changed-since-survey
#   c12-testv-compare-always-true                 storage/mutable.py  -> write-applied-over-version-changed-since-survey
#   c12-empty-slot-test-dropped                   storage/server.py   -> write-applied-over-version-changed-since-survey ("vanish" cases)
#   c12-publisher-ignores-refused-write           mutable/publish.py  -> publish-succeeds-despite-refused-write
#   c12-surprise-detection-dropped / -inverted    mutable/publish.py  -> publish-succeeds-despite-unknown-version-on-server
#   c12-sdmf-/mdmf-writes-carry-no-test           mutable/layout.py   -> write-applied-over-version-changed-since-survey
#   c12-set-checkstring-omitted-for-known-shares  mutable/publish.py  -> uncontended-publish-fails (writes fall back to "must not exist")
#   c12-sdmf-set-checkstring-noop                 mutable/layout.py   -> uncontended-publish-fails
# Present on the unchanged tree (reported to the lead): conflict-ends-in-internal-error-KeyError
#   MutableFileVersion._modify_once reads self._version although the refreshed servermap no longer holds it.
