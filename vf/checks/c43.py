"""C43 node and capability identity is consistent (==, != and hash agree with the cap string)."""
META = {
    "level": 'exploration',
    "technique": 'runtime all-pairs comparison of real cap and node objects (==, !=, hash) against equality of their capability strings',
    "text": 'Builds a pool of real capability objects of all 18 kinds (constructor, parser, derived by get_readonly/get_verify_cap, equal twins built by different routes, one-bit / one-field near misses, same fields under different kind headers) and of real node objects (ImmutableFileNode, LiteralFileNode, MutableFileNode, DirectoryNode over every directory kind, UnknownNode; built directly, by a shared NodeMaker (cache hits) and by independent NodeMakers) and evaluates a==b, a!=b, hash for every ordered pair of the pool, plus comparisons with foreign objects (None, ints, the cap string itself as bytes/str, tuples). Oracle: equality iff capability strings equal (same category), != is the negation of == for every pair, equal objects hash equally.',
    "note": 'Capability string of a node = get_uri(); of an UnknownNode = the pair (get_write_uri(), get_readonly_uri()); of a cap = to_string(). UnknownURI (no __eq__, not a _BaseURI) and cap-vs-node pairs are outside the statement: counted, only the ==/!= negation is judged there. Unhashable classes are reported as observations.',
}
LEVEL = "exploration"
BUDGET = {"quick": 40, "thorough": 240}
SHARDS = {"quick": 1, "thorough": 4}

from vf import env  # noqa
from vf.checks import _caps as M


class Item(object):
    __slots__ = ("obj", "cat", "ident", "label", "cls")

    def __init__(self, obj, cat, ident, label):
        self.obj, self.cat, self.ident, self.label = obj, cat, ident, label
        self.cls = type(obj).__name__


def run(ck):
    from allmydata import uri
    from allmydata.nodemaker import NodeMaker
    from allmydata.unknown import UnknownNode
    from allmydata.immutable.filenode import ImmutableFileNode
    from allmydata.immutable.literal import LiteralFileNode
    from allmydata.mutable.filenode import MutableFileNode
    from allmydata.dirnode import DirectoryNode

    ck.rule = ("pool = caps of every kind (constructor twin, parser twin, derived twin, near misses, cross-header) and nodes "
               "of every class (direct construction twice, shared NodeMaker twice = cache hit, independent NodeMaker) from "
               "seeded random fields; every ordered pair of the pool (including x with itself) and every pool object against "
               "foreign values is compared. distinct = (label a, label b); non-trivial = the two objects are different Python objects")
    rng = ck.rng("c43")
    ENC = {"k": 3, "n": 10}

    def mk():
        return NodeMaker(None, None, None, None, None, dict(ENC), None, None)

    def show(b):
        return b.decode("latin-1") if isinstance(b, bytes) else b

    pool = []

    def add_cap(c, label):
        if type(c).__name__ == "UnknownURI":
            pool.append(Item(c, "unknowncap", c.to_string(), label))
        else:
            pool.append(Item(c, "cap", c.to_string(), label))

    def add_node(n, label):
        if type(n).__name__ == "UnknownNode":
            pool.append(Item(n, "unknownnode", (n.get_write_uri(), n.get_readonly_uri()), label))
        elif hasattr(n, "get_uri"):
            pool.append(Item(n, "node", n.get_uri(), label))
        else:
            ck.skip("node-without-get_uri:" + type(n).__name__)

    def flip(b):
        if not b:
            return b"\x00"
        i = rng.randrange(len(b))
        return b[:i] + bytes([b[i] ^ (1 << rng.randrange(8))]) + b[i + 1:]

    def near(kind, fields):
        fs = list(fields)
        j = rng.randrange(len(fs))
        if isinstance(fs[j], int):
            fs[j] = fs[j] + 1
        else:
            fs[j] = flip(fs[j])
        return tuple(fs)

    def near_all(kind, fields):
        """Every single-field neighbour of `fields`: (tag, fields') differing from `fields` in EXACTLY one field of
        the cap string -- each base32 field (first bit, last bit, one random bit), k, N, size (+-1 and the boundary
        values k=1, k=N, N=k, N=255, size=0), LIT body (bit flip, one byte longer/shorter)."""
        out = []

        def put(tag, i, v):
            if v != fields[i] and (not isinstance(v, int) or v >= 0):
                fs = list(fields)
                fs[i] = v
                out.append((tag, tuple(fs)))
        names = {"chk": ["key", "ueb", "k", "N", "size"], "lit": ["data"], "ssk": ["key", "fingerprint"],
                 "mdmf": ["key", "fingerprint"]}[kind.shape]
        for i, f in enumerate(fields):
            nme = names[i]
            if isinstance(f, int):
                for tag, v in (("+1", f + 1), ("-1", f - 1)):
                    put("%s%s" % (nme, tag), i, v)
                if nme == "k":
                    put("k=1", i, 1)
                    put("k=N", i, fields[3])
                elif nme == "N":
                    put("N=k", i, fields[2])
                    put("N=255", i, 255)
                    put("N=256", i, 256)
                else:
                    put("size=0", i, 0)
                    put("size=2^32", i, 2 ** 32)
            else:
                if f:
                    put(nme + "-first-bit", i, bytes([f[0] ^ 0x80]) + f[1:])
                    put(nme + "-last-bit", i, f[:-1] + bytes([f[-1] ^ 0x01]))
                    put(nme + "-random-bit", i, flip(f))
                if kind.shape == "lit":
                    put("data-longer", i, f + b"\x00")
                    put("data-shorter", i, f[:-1])
                    put("data-empty", i, b"")
        seen, uniq = set(), []
        for tag, fs in out:
            if fs not in seen:
                seen.add(fs)
                uniq.append((tag, fs))
        return uniq

    nspec = 2 if ck.tier == "quick" else 5
    nm_shared = mk()
    nm_other = mk()
    serial = [0]

    def L(s):
        serial[0] += 1
        return "%s#%d" % (s, serial[0])

    def mutable_node(cap):
        return MutableFileNode(None, None, dict(ENC), None).init_from_cap(cap)

    def filenode_for(cap):
        n = type(cap).__name__
        if n == "LiteralFileURI":
            return LiteralFileNode(cap)
        if n == "CHKFileURI":
            return ImmutableFileNode(cap, None, None, None, None)
        return mutable_node(cap)

    for kind in M.KINDS:
        for j in range(nspec):
            fields = M.rand_fields(rng, kind, minimal=(j == 0 and ck.shard == 0))
            s = M.fmt(kind, fields)
            a = M.build(uri, kind, fields)
            add_cap(a, L(kind.name + "/ctor"))
            add_cap(M.build(uri, kind, fields), L(kind.name + "/ctor-twin"))
            add_cap(uri.from_string(s), L(kind.name + "/parsed"))
            add_cap(uri.from_string(s.decode("ascii")), L(kind.name + "/parsed-str"))
            add_cap(getattr(uri, kind.cls).init_from_string(s), L(kind.name + "/init_from_string"))
            if kind.shape == "mdmf":
                add_cap(uri.from_string(s + b":3:131073"), L(kind.name + "/parsed-with-extension"))
            nf = near(kind, fields)
            add_cap(M.build(uri, kind, nf), L(kind.name + "/near-miss"))
            add_cap(a.get_readonly(), L(kind.name + "/get_readonly"))
            v = a.get_verify_cap()
            if v is not None and kind.level != "v":
                add_cap(v, L(kind.name + "/get_verify_cap"))
                add_cap(a.get_readonly().get_verify_cap(), L(kind.name + "/ro.get_verify_cap"))
            # same fields under every other header of the same shape
            for k2 in M.KINDS:
                if k2 is not kind and k2.shape == kind.shape and j == 0:
                    add_cap(M.build(uri, k2, fields), L(k2.name + "/same-fields-as-" + kind.name))
            # unknown caps around it
            add_cap(uri.from_string(b"ro.ro." + s), L(kind.name + "/unknown-doubled-prefix"))
            add_cap(uri.from_string(b"ro.ro." + s), L(kind.name + "/unknown-doubled-prefix-twin"))
            # ---- nodes
            if kind.level == "v":
                for nm, tag in ((nm_shared, "nm"), (nm_shared, "nm-again"), (nm_other, "nm2")):
                    add_node(nm.create_from_cap(s), L(kind.name + "/node-" + tag))
                if j == 0:
                    for tag, nf1 in near_all(kind, fields):
                        add_cap(M.build(uri, kind, nf1), L(kind.name + "/neighbour-" + tag))
                continue
            for nm, tag in ((nm_shared, "nm"), (nm_shared, "nm-again"), (nm_other, "nm2")):
                add_node(nm.create_from_cap(s), L(kind.name + "/node-" + tag))
                add_node(nm.create_from_cap(None, s), L(kind.name + "/node-roslot-" + tag))
            add_node(nm_shared.create_from_cap(M.fmt(kind, nf)), L(kind.name + "/node-near-miss"))
            if j == 0 or kind.shape == "lit":
                # systematic single-field neighbours, each wrapped in every node class that can hold it
                for tag, nf1 in near_all(kind, fields):
                    ck.hit("single-field-neighbour:" + kind.shape + ":" + tag.split("-")[0].split("+")[0].split("=")[0])
                    nc = M.build(uri, kind, nf1)
                    add_cap(nc, L(kind.name + "/neighbour-" + tag))
                    add_node(nm_shared.create_from_cap(M.fmt(kind, nf1)), L(kind.name + "/node-neighbour-" + tag))
                    fn1 = filenode_for(nc.get_filenode_cap() if kind.is_dir else nc)
                    if kind.is_dir:
                        add_node(DirectoryNode(fn1, nm_other, None), L(kind.name + "/dirnode-neighbour-" + tag))
                    else:
                        add_node(fn1, L(kind.name + "/filenode-neighbour-" + tag))
                # the same fields under the sibling headers (SSK<->MDMF, DIR2 wrappers), as nodes too
                for k2 in M.KINDS:
                    if k2 is not kind and k2.shape == kind.shape and k2.level != "v":
                        add_node(nm_shared.create_from_cap(M.fmt(k2, fields)), L(k2.name + "/node-same-fields-as-" + kind.name))
            for rep in ("direct", "direct-twin"):
                fcap = a.get_filenode_cap() if kind.is_dir else a
                fn = filenode_for(fcap)
                if kind.is_dir:
                    add_node(DirectoryNode(fn, nm_shared, None), L(kind.name + "/dirnode-" + rep))
                    add_node(fn, L(kind.name + "/backing-filenode-" + rep))
                else:
                    add_node(fn, L(kind.name + "/filenode-" + rep))
                    if hasattr(fn, "get_readonly"):
                        add_node(fn.get_readonly(), L(kind.name + "/filenode.get_readonly-" + rep))
            if kind.mutable and kind.level == "w":
                ro_s = a.get_readonly().to_string()
                add_node(nm_shared.create_from_cap(ro_s), L(kind.name + "/node-from-derived-readcap"))
                add_node(nm_other.create_from_cap(None, b"ro." + ro_s), L(kind.name + "/node-from-ro.-readcap"))
    # unknown nodes
    for j in range(nspec + 1):
        u1 = b"x-tahoe-future:" + M.b32enc(M.rand_bytes(rng, 8))
        u2 = b"x-tahoe-future:" + M.b32enc(M.rand_bytes(rng, 8))
        combos = [(None, None, False), (u1, u2, False), (u1, b"ro." + u2, False), (u1, u1, False), (None, u2, False),
                  (None, b"ro." + u2, False), (None, b"imm." + u2, False), (None, u2, True), (None, b"imm." + u2, True),
                  (b"imm." + u2, None, False), (b"ro." + u2, None, False), (u1, None, False), (u1, None, True),
                  (u1, flip(u2), False), (flip(u1), u2, False), (b"ro." + u1, b"ro." + u2, False)]
        for rw, ro, deep in combos:
            for rep in ("a", "b"):
                add_node(UnknownNode(rw, ro, deep_immutable=deep), L("unknown-node/%s" % rep))
            add_node(nm_shared.create_from_cap(rw, ro, deep_immutable=deep), L("unknown-node/nm"))
        add_cap(uri.UnknownURI(u1), L("unknown-cap/ctor"))
        add_cap(uri.UnknownURI(u1), L("unknown-cap/ctor-twin"))
        add_cap(uri.from_string(u1), L("unknown-cap/parsed"))

    ck.extra["pool_size"] = len(pool)
    ck.extra["pool_by_class"] = {}
    for it in pool:
        ck.extra["pool_by_class"][it.cls] = ck.extra["pool_by_class"].get(it.cls, 0) + 1

    best = {}

    def bad(key, what, wit):
        e = best.get(key)
        size = len(repr(wit))
        if e is None:
            best[key] = [1, size, what, wit]
        else:
            e[0] += 1
            if size < e[1]:
                e[1], e[2], e[3] = size, what, wit

    def wit_of(x, y, **kw):
        d = {"a": {"class": x.cls, "built": x.label.split("#")[0], "cap": show(x.ident) if not isinstance(x.ident, tuple) else [show(i) for i in x.ident]},
             "b": {"class": y.cls, "built": y.label.split("#")[0], "cap": show(y.ident) if not isinstance(y.ident, tuple) else [show(i) for i in y.ident]},
             "same_object": x.obj is y.obj}
        d.update(kw)
        return d

    def definer(obj, name):
        """Name of the class that defines dunder `name` for obj: one key per root cause, not per subclass."""
        for c in type(obj).__mro__:
            if name in c.__dict__ and c.__dict__[name] is not None:
                return c.__name__
        return "object"

    def compare(x, y):
        a, b = x.obj, y.obj
        eq = a == b
        ne = a != b
        ck.mon("ne-is-negation-of-eq")
        if bool(ne) != (not bool(eq)):
            key = ("immutable-filenode-ne-inverted" if x.cls == "ImmutableFileNode"
                   else "ne-not-negation-of-eq/" + definer(a, "__ne__"))
            bad(key, "%s: (a == b) is %r but (a != b) is %r (cap strings %s)"
                % (x.cls, eq, ne, "equal" if x.ident == y.ident else "different"), wit_of(x, y, eq=eq, ne=ne))
        same_cat = x.cat == y.cat and x.cat in ("cap", "node", "unknownnode")
        if same_cat:
            same = x.ident == y.ident
            ck.mon("eq-iff-cap-strings-equal")
            if same and a is not b:
                ck.hit("equal-twins:" + x.cls)
            if bool(eq) != same:
                if x.cat == "unknownnode" and not same and eq:
                    key = "eq-true-for-different-cap-strings/UnknownNode"
                elif same:
                    key = ("directorynode-eq-is-object-identity" if x.cls == y.cls == "DirectoryNode"
                           else "eq-false-for-equal-cap-strings/" + definer(a, "__eq__"))
                else:
                    key = "eq-true-for-different-cap-strings/" + definer(a, "__eq__")
                bad(key, "%s vs %s: cap strings %s but (a == b) is %r"
                    % (x.cls, y.cls, "equal" if same else "different", eq), wit_of(x, y, eq=eq))
            elif x.cat == "unknownnode" and not same and x.ident[0] == y.ident[0] and x.ident[0] is not None:
                ck.skip("unknownnodes-same-get_uri-different-ro-slot")
        elif x.cat == "unknowncap" and y.cat == "unknowncap":
            ck.skip("unknownuri-pair-not-judged")
            if x.ident == y.ident and not eq:
                ck.observe("UnknownURI-equal-strings-compare-unequal")
        else:
            ck.skip("cross-category-eq-value-not-judged")
            if eq:
                ck.observe("cross-category-equal:%s/%s" % (x.cls, y.cls))
        if eq:
            ck.mon("equal-implies-equal-hash")
            try:
                ha, hb = hash(a), hash(b)
            except TypeError:
                ck.skip("unhashable-class")
                ck.observe("unhashable:" + x.cls)
            else:
                if ha != hb:
                    bad("equal-objects-hash-differently/" + definer(a, "__hash__"),
                        "%s: a == b but hash(a) != hash(b)" % x.cls, wit_of(x, y))
                # what callers actually rely on: an equal object is found in a set / dict keyed by the other
                ck.mon("equal-implies-set-and-dict-membership")
                if not (b in {a}) or not (b in {a: 1}) or len({a, b}) != 1:
                    bad("equal-objects-hash-differently/" + definer(a, "__hash__"),
                        "%s: a == b but b is not found in {a} / {a: 1} (len({a, b}) = %d)" % (x.cls, len({a, b})),
                        wit_of(x, y))
        ck.case("%s-%s" % (x.cat, y.cat), key=(x.label, y.label), nontrivial=a is not b,
                sample={"a": x.label, "b": y.label, "eq": bool(eq), "ne": bool(ne)})

    # ---- directed family A: one NodeMaker is handed BOTH caps of a mutable object (the way a writeable directory hands
    # over a child), the node is kept alive, then the same NodeMaker is asked for the read cap alone. The two requests
    # name different cap strings, so the nodes must be unequal (and must not collapse in a set); the node returned for
    # the read cap must carry the read cap string and (file nodes) equal an independent node of that same string.
    keep_alive = []
    for kind in M.KINDS:
        if not (kind.mutable and kind.level == "w"):
            continue
        wobj = M.build(uri, kind, M.rand_fields(rng, kind))
        wcap, rcap = wobj.to_string(), wobj.get_readonly().to_string()
        nm_a = mk()
        n_rw = nm_a.create_from_cap(wcap, rcap)
        keep_alive.append(n_rw)
        reference = mk().create_from_cap(rcap)
        for slot, n_ro in (("roslot", nm_a.create_from_cap(None, rcap)), ("single", nm_a.create_from_cap(rcap))):
            ck.hit("pair-then-readcap:" + type(n_rw).__name__)
            ck.mon("eq-iff-cap-strings-equal")
            w = {"class": type(n_rw).__name__, "kind": kind.name, "lookup": slot, "writecap": show(wcap),
                 "readcap": show(rcap), "same_object": n_rw is n_ro, "ro_node_get_uri": show(n_ro.get_uri())}
            if (n_rw == n_ro) or not (n_rw != n_ro):
                bad("eq-true-for-different-cap-strings/nodemaker-pair-then-readcap",
                    "%s: node made from (writecap, readcap) and node then made by the same NodeMaker from the readcap "
                    "alone compare equal although their cap strings differ" % type(n_rw).__name__, w)
            else:
                try:
                    collapsed = len({n_rw, n_ro}) != 2
                except TypeError:
                    collapsed = False
                if collapsed:
                    bad("eq-true-for-different-cap-strings/nodemaker-pair-then-readcap",
                        "%s: nodes of different cap strings collapse in a set" % type(n_rw).__name__, w)
            if n_ro.get_uri() == rcap and type(n_ro).__name__ != "DirectoryNode":
                # equal cap strings -> equal, equal hash (DirectoryNode identity-eq is already reported by the pool)
                if not (n_ro == reference) or (n_ro != reference) or hash(n_ro) != hash(reference):
                    bad("eq-false-for-equal-cap-strings/nodemaker-pair-then-readcap",
                        "%s: node returned for the readcap after a (writecap, readcap) request is unequal to / hashes "
                        "unlike an independent node of the same readcap string" % type(n_ro).__name__, w)

    # ---- directed family B: non-canonical spellings. Every base32 field of a canonical cap string gets every other
    # last character. The strings differ, so whenever the parser accepts the variant as a real cap, that cap (and the
    # node a NodeMaker builds from it) must NOT compare equal to the cap / node of the canonical string. Refusal
    # (UnknownURI / exception) is fine.
    b32chars = b"abcdefghijklmnopqrstuvwxyz234567"
    canon = []
    for kind in M.KINDS:
        canon.append((kind.name, M.fmt(kind, M.rand_fields(rng, kind))))
    for n in (2, 7):
        canon.append(("LIT-%dbytes" % n, uri.LiteralFileURI(M.rand_bytes(rng, n)).to_string()))
    for kname, s in canon:
        try:
            c0 = uri.from_string(s)
        except Exception:  # noqa
            continue
        if type(c0).__name__ == "UnknownURI":
            continue
        parts = s.split(b":")
        for fi, p in enumerate(parts):
            if fi < 2 or len(p) < 2 or p.isdigit() or any(ch not in b32chars for ch in p):
                continue
            for ch in b32chars:
                if ch == p[-1]:
                    continue
                s1 = b":".join(parts[:fi] + [p[:-1] + bytes([ch])] + parts[fi + 1:])
                ck.hit("noncanonical-last-char:%d-char-field" % len(p) if len(p) in (26, 52) else "noncanonical-last-char:lit")
                try:
                    c1 = uri.from_string(s1)
                except Exception:  # noqa
                    ck.hit("noncanonical-last-char-refused")
                    continue
                if type(c1).__name__ == "UnknownURI":
                    ck.hit("noncanonical-last-char-refused")
                    continue
                ck.hit("noncanonical-last-char-accepted")
                ck.mon("eq-iff-cap-strings-equal")
                w = {"class": type(c1).__name__, "kind": kname, "canonical_string": show(s), "variant_string": show(s1),
                     "variant_to_string": show(c1.to_string()), "field_chars": len(p)}
                if (c1 == c0) or not (c1 != c0):
                    bad("eq-true-for-different-cap-strings/noncanonical-base32-last-char",
                        "%s: cap parsed from a string that differs from the canonical one only in the last character of a "
                        "base32 field compares equal to the canonical cap" % type(c1).__name__, w)
                    try:
                        n0, n1 = mk().create_from_cap(s), mk().create_from_cap(s1)
                        if type(n1).__name__ not in ("UnknownNode", "DirectoryNode") and n0 == n1:
                            bad("eq-true-for-different-cap-strings/noncanonical-base32-last-char-node",
                                "%s: nodes made from two different cap strings (non-canonical last character) compare equal"
                                % type(n1).__name__, dict(w, node_class=type(n1).__name__))
                    except Exception:  # noqa
                        pass

    # thorough: every shard draws its own pool (ck.rng is per shard), so shards add pools, not slices
    for x in pool:
        if ck.out_of_time():
            ck.inconclusive_because("pair enumeration cut short by the time budget")
            break
        for y in pool:
            compare(x, y)
        # foreign values, both operand orders
        own = x.ident if isinstance(x.ident, bytes) else b""
        for f in (None, 0, 1, "", b"", own, own.decode("latin-1"), (own,), object(), [own], 3.5, True):
            a = x.obj
            for left, right in ((a, f), (f, a)):
                try:
                    eq = left == right
                    ne = left != right
                except Exception as e:  # noqa
                    bad("comparison-raises/" + x.cls, "%s compared with %r raised %s" % (x.cls, f, type(e).__name__),
                        {"class": x.cls, "other": repr(f)})
                    continue
                ck.mon("ne-is-negation-of-eq")
                if bool(ne) != (not bool(eq)):
                    bad("ne-not-negation-of-eq/" + definer(a, "__ne__"), "%s vs %r: == is %r, != is %r" % (x.cls, f, eq, ne),
                        {"class": x.cls, "other": repr(f), "cap": show(own)})
                if eq:
                    ck.observe("equal-to-foreign-value:" + x.cls)
                ck.case("foreign", key=(x.label, repr(type(f)), left is a), nontrivial=True)

    for key in sorted(best):
        cnt, _sz, what, wit = best[key]
        ck.violation(key, what, wit)
        ck.violations[key]["count"] = cnt
    ck.exhaustive = False
    ck.require_monitor("ne-is-negation-of-eq", "eq-iff-cap-strings-equal", "equal-implies-equal-hash",
                       "equal-implies-set-and-dict-membership")
    ck.require_reach(*["single-field-neighbour:" + t for t in
                       ("chk:key", "chk:ueb", "chk:k", "chk:N", "chk:size", "ssk:key", "ssk:fingerprint",
                        "mdmf:key", "mdmf:fingerprint", "lit:data")])
    ck.require_reach("pair-then-readcap:MutableFileNode", "pair-then-readcap:DirectoryNode",
                     "noncanonical-last-char:52-char-field", "noncanonical-last-char:26-char-field",
                     "noncanonical-last-char:lit", "noncanonical-last-char-refused")
    ck.require_reach(*["equal-twins:" + c for c in
                       ("ImmutableFileNode", "LiteralFileNode", "MutableFileNode", "DirectoryNode", "UnknownNode",
                        "CHKFileURI", "LiteralFileURI", "WriteableSSKFileURI", "ReadonlyMDMFFileURI",
                        "DirectoryURI", "ImmutableDirectoryURI", "MDMFDirectoryURIVerifier")])


# MUST_CATCH -- planted in scratch copies (VF_REPO), every one exits 1 with the listed key in addition to the two
# keys the unchanged tree already shows (keys carry the class that DEFINES the dunder, one per root cause):
#   1. _BaseURI.__hash__ includes id(self)                   -> equal-objects-hash-differently/_BaseURI (+ node classes that delegate)
#   2. MutableFileNode.__hash__ includes id(self)            -> equal-objects-hash-differently/MutableFileNode
#   3. MutableFileNode.__eq__ compares storage index only    -> eq-true-for-different-cap-strings/MutableFileNode
#   4. _ImmutableFileNodeBase.__ne__ = "is not"              -> ne-not-negation-of-eq/_ImmutableFileNodeBase
#   5. _BaseURI.__eq__ compares storage index                -> eq-true-for-different-cap-strings/_BaseURI
#   6. UnknownNode.__eq__ ignores rw_uri                     -> eq-true-for-different-cap-strings/UnknownNode
#   7. _BaseURI.__ne__ returns False for foreign types       -> ne-not-negation-of-eq/_BaseURI
#  10. seeded C43-6: ImmutableFileNode.__eq__ compares size/readkey/UEB hash only (caps differing in k or N only compare
#      equal, hash differently)                               -> eq-true-for-different-cap-strings/ImmutableFileNode,
#                                                                equal-objects-hash-differently/ImmutableFileNode
#   8. LiteralFileNode equality on data length               -> eq-true-for-different-cap-strings/_ImmutableFileNodeBase
#   9. ImmutableFileNode.__eq__ = identity                   -> eq-false-for-equal-cap-strings/ImmutableFileNode
# Fix validation: with ImmutableFileNode.__ne__ = "not self == other" and value __eq__/__ne__/__hash__ on DirectoryNode
# the check exits 0.
