"""C09 mutable files read back what one writer wrote."""
META = {
    "level": "exploration",
    "technique": "runtime monitoring of generated single-writer operation histories on an in-process grid against a bytearray reference model, under seeded delivery schedules",
    "text": "Runs the real MutableFileNode/MutableFileVersion/Publish/Retrieve/ServermapUpdater and real storage servers for histories of up to 8 operations by one client on one mutable file (create, overwrite, upload with a MODE_WRITE servermap, modify with append/prepend/replace/shrink/no-op modifiers, version-level overwrite/modify, in-place update and append at boundary-biased offsets and lengths: 0, middle, segment boundary +-1, EOF, growth across power-of-two segment counts) in SDMF and MDMF, k in 1..4, N<=8, 1..10 servers, three transport profiles, with re-used and freshly created node objects for the writer and for the reader. After every operation the whole file (download_best_version / version.read(0,None)), the version size and a boundary grid of partial reads version.read(consumer, offset, size) must equal the model; the bytes handed to a modifier must equal the model; every operation (all are within the documented preconditions: update offsets <= size, any data length including 0, empty files included) must call back - an errback on this honest, fully connected grid is a violation keyed by op class + structural feature (empty file, zero-length write, append at a segment-aligned EOF, growth across a power-of-two segment count, several shares per server, stale cached size) + exception type - and afterwards the content must still equal the model without that operation. Sampled histories, not exhaustive.",
    "note": "Trusts the in-process Wire (stands in for foolscap/TCP), the virtual reactor and the bytearray model. All servers are honest and up (faults are C10/C47). The MDMF segment size is the repository constant DEFAULT_MUTABLE_MAX_SEGMENT_SIZE (128 KiB) in part of the cases and the same module constant set to a smaller value in the others, so that many-segment files are cheap; reads beyond EOF and update offsets beyond EOF are forbidden by the API and not generated.",
}
LEVEL = "exploration"
BUDGET = {"quick": 42, "thorough": 330}
SHARDS = {"quick": 1, "thorough": 12}

from vf import env  # noqa

SMALL_SEGSIZES = [8, 24, 100, 1000, 4096, 16384]


def run(ck):
    ck.rule = ("case = (format, k<=4, N<=8, 1..10 servers, MDMF segment size, transport profile, schedule seed, history of "
               "<=8 ops with per-op writer-node policy (re-used object / fresh client+node) and reader policy (writer node / "
               "persistent second node / fresh node; read-cap or write-cap)); sizes, update offsets and update ends are "
               "boundary-biased in units of the effective segment size (0,1,k+-1,j*S+-1,EOF, pow2(segcount)*S+1); distinct = "
               "full parameter tuple + op list; non-trivial = at least one mutation after create succeeded")
    from allmydata.mutable import publish as publish_mod
    default_seg = publish_mod.DEFAULT_MUTABLE_MAX_SEGMENT_SIZE
    ck.extra["default_mdmf_segment_size"] = default_seg
    i = mined = 0
    try:
        while ck.more(min_cases=60):
            i += 1
            if not ck.mine(i):
                continue
            rng = ck.rng("case", i)
            mined += 1
            p = gen_case(rng, ck.tier, default_seg, pb_slot=mined if mined <= len(PB_FORCED) else None)
            publish_mod.DEFAULT_MUTABLE_MAX_SEGMENT_SIZE = p["segsize"]
            from vf.grid import VGrid, KEYPOOL
            KEYPOOL.rewind()
            g = VGrid(nservers=p["nservers"], seed=rng.getrandbits(32), profile=p["profile"], keep_log=False)
            try:
                with ck.watchdog(240, "case %d %r" % (i, p)):
                    History(ck, g, p, rng, default_seg).run()
            finally:
                g.close()
                publish_mod.DEFAULT_MUTABLE_MAX_SEGMENT_SIZE = default_seg
            if ck.tier == "quick" and ck.evaluations >= 400:
                break
    finally:
        publish_mod.DEFAULT_MUTABLE_MAX_SEGMENT_SIZE = default_seg
    ck.observe("eventual-exceptions", len(env.evq.exceptions))
    ck.require_monitor("operation-succeeds-on-honest-grid", "full-read-equals-model", "partial-read-equals-model", "modifier-sees-model")
    ck.require_reach("mdmf-in-place-update-ok", "sdmf-update-ok", "update-append-ok",
                     "update-straddles-segment-boundary", "update-grows-across-pow2-segment-count",
                     "modify-changed-content", "modify-no-op", "overwrite-ok", "upload-with-servermap-ok",
                     "writer-node-fresh", "writer-node-reused", "writer-client-defaults-differ-from-file", "reader-node-fresh", "reader-node-persistent",
                     "partial-read-straddles-segment-boundary", "default-segment-size-multi-segment",
                     "multi-segment-mdmf",
                     "prefix-boundary-mdmf-block-end-4001", "prefix-boundary-sdmf-block-end-4001",
                     "prefix-boundary-size-by-create", "prefix-boundary-size-by-update-append",
                     "prefix-boundary-size-by-overwrite", "prefix-boundary-size-by-modify")


# ------------------------------------------------------------------ generation

def next_multiple(n, k):
    return ((n + k - 1) // k) * k


def div_ceil(n, d):
    return (n + d - 1) // d


def pow2_roundup(n):
    p = 1
    while p < n:
        p *= 2
    return p


# Readers keep the first PREFIX bytes of every share (what the servermap update read) and answer later requests from
# that prefix when they fit: file sizes that put the end of a fetched region (a block, the block hash tree, the encrypted
# private key) at share offset PREFIX-1..PREFIX+2 are a boundary class of their own, independent of segment boundaries.
PREFIX = 4000
PB_TARGETS = (PREFIX + 1, PREFIX + 1, PREFIX, PREFIX - 1, PREFIX + 2)
# the first cases of every run/shard: (format, k, N); 3-of-10 is the default encoding
PB_FORCED = [("MDMF", 3, 10), ("SDMF", 3, 10), ("MDMF", 1, 1), ("SDMF", 2, 4), ("MDMF", 4, 8), ("SDMF", 1, 2),
             ("MDMF", 2, 3), ("SDMF", 3, 3)]


def gen_case(rng, tier, default_seg, pb_slot=None):
    if pb_slot is not None or rng.random() < .12:
        if pb_slot is not None:
            fmt, k, n = PB_FORCED[pb_slot - 1]
        else:
            fmt = rng.choice(["MDMF", "SDMF"])
            n = rng.choice([1, 2, 3, 4, 8, 10])
            k = rng.randint(1, min(4, n))
        segsize = default_seg if (fmt == "SDMF" or pb_slot is not None or rng.random() < .5) else rng.choice([100, 1000, 4096])
        return dict(fmt=fmt, k=k, n=n, nservers=rng.choice([1, 2, n, n + 1, 10]), profile=rng.choice(["fifo", "per-server-fifo", "free"]),
                    segsize=segsize, S=next_multiple(segsize, k), maxsize=k * 4200, nops=rng.randint(5, 8),
                    p_reuse=rng.choice([0.0, 0.5, 1.0]), reader=rng.choice(["writer", "persistent", "fresh", "mixed"]),
                    reader_cap=rng.choice(["rw", "ro"]), pb=True)
    fmt = rng.choice(["MDMF", "MDMF", "MDMF", "SDMF"])
    n = rng.randint(1, 8)
    k = rng.randint(1, min(4, n))
    nservers = rng.choice([1, 2, 3, n, n, n + 1, n + 2, 10])
    profile = rng.choice(["fifo", "per-server-fifo", "free"])
    thorough = tier != "quick"
    if fmt == "MDMF":
        if rng.random() < (0.5 if thorough else 0.3):
            segsize = default_seg
            r = rng.random()
            maxsegs = 3.6 if r < .6 else (5.3 if r < (.9 if thorough else .97) else 9.3)
        else:
            segsize = rng.choice(SMALL_SEGSIZES)
            r = rng.random()
            maxsegs = 5.3 if r < .4 else (9.3 if r < .8 else (17.3 if r < .95 or not thorough else 33.3))
        S = next_multiple(segsize, k)
    else:
        segsize = default_seg           # unused by SDMF publish (one segment); kept at the default
        S = next_multiple(rng.choice([10, 100, 1000, 40000]), k)   # only a unit for boundary-biased positions
        maxsegs = rng.choice([3.5, 5.3, 9.3])
    maxsize = int(maxsegs * S)
    # the client may have been reconfigured since the file was made (shares.needed / shares.total in tahoe.cfg): fresh
    # writer clients of such a history have other default encoding parameters than the file
    alt_kn = None
    if rng.random() < .25:
        n2 = n if rng.random() < .5 else rng.randint(1, 8)
        k2 = rng.randint(1, min(4, n2))
        if (k2, n2) != (k, n):
            alt_kn = (k2, n2)
    return dict(fmt=fmt, k=k, n=n, nservers=nservers, profile=profile, segsize=segsize, S=S, maxsize=maxsize, alt_kn=alt_kn,
                nops=rng.randint(2, 8), p_reuse=rng.choice([0.0, 0.5, 0.8, 1.0, 1.0]),
                reader=rng.choice(["writer", "persistent", "fresh", "mixed", "mixed"]),
                reader_cap=rng.choice(["rw", "ro"]))


def boundary_size(rng, S, k, maxsize):
    cands = [0, 1, 2, k - 1, k, k + 1, S - 1, S, S + 1, S // 2, int(3.5 * S), int(1.5 * S), int(2.5 * S)]
    for j in (2, 3, 4, 5, 8, 9, 16, 17):
        cands += [j * S - 1, j * S, j * S + 1]
    cands = [c for c in cands if 0 <= c <= maxsize]
    if rng.random() < .7:
        return rng.choice(cands)
    return rng.randint(0, maxsize)


def pick_pos(rng, L, S):
    """Boundary-biased position in [0, L]."""
    r = rng.random()
    if r < .2:
        return L
    if r < .75:
        cands = [0, 1, L // 2, L - 1, L]
        for j in range(1, div_ceil(L, S) + 1):
            cands += [j * S - 1, j * S, j * S + 1]
        cands = [c for c in cands if 0 <= c <= L]
        return rng.choice(cands)
    return rng.randint(0, L)


def pick_end(rng, off, L, S, maxsize):
    """Boundary-biased end position >= off of an update (end - off = data length)."""
    nb = (off // S + 1) * S
    segs = div_ceil(L, S)
    p2 = pow2_roundup(max(segs, 1)) * S
    cands = [off + 1, off + 2, nb - 1, nb, nb + 1, nb + S - 1, nb + S, nb + S + 1, L - 1, L, L + 1,
             p2 + 1, p2 + S // 2 + 1, p2 + S, 2 * S + 1, 4 * S + 1, 8 * S + 1, off + S, off + S + 1, off + S - 1]
    if rng.random() < .04:
        cands = [off]                       # zero-length update
    cands = [c for c in cands if off <= c <= maxsize]
    if not cands:
        return off + 1
    if rng.random() < .8:
        return rng.choice(cands)
    return rng.randint(off, min(maxsize, off + 3 * S))


def read_grid(rng, L, S, nreads):
    if L == 0:
        return [(0, None), (0, 0)][:nreads]
    offs = [0, 1, L - 1, L // 2]
    for j in range(1, div_ceil(L, S) + 1):
        offs += [j * S - 1, j * S, j * S + 1]
    offs = [o for o in offs if 0 <= o < L]
    out = []
    for _ in range(nreads):
        off = rng.choice(offs) if rng.random() < .75 else rng.randrange(L)
        rem = L - off
        nb = (off // S + 1) * S - off          # bytes up to the next segment boundary
        sizes = [1, 2, rem, rem - 1, S, S - 1, S + 1, nb - 1, nb, nb + 1, nb + S, nb + S + 1, 2 * S + 1]
        sizes = [s for s in sizes if 1 <= s <= rem]
        r = rng.random()
        if r < .12:
            size = None
        elif r < .8:
            size = rng.choice(sizes)
        else:
            size = rng.randint(1, rem)
        out.append((off, size))
    if rng.random() < .1:
        out.append((L, None))
    if rng.random() < .05:
        out.append((rng.randint(0, L), 0))
    return out


# ------------------------------------------------------------------ one history

class Abort(Exception):
    pass


class History(object):
    def __init__(self, ck, g, p, rng, default_seg):
        self.ck, self.g, self.p, self.rng = ck, g, p, rng
        self.default_seg = default_seg
        self.model = None
        self.ops = []
        self.writer = None
        self.writer_client = None
        self.wcap = None
        self.rcap = None
        self.persistent_reader = None
        self.mutations_ok = 0
        self.pb_sizes = []       # [(size, region, share offset of the region's end)]
        self.writer_kn = None    # default (k, N) of the current writer's client when they differ from the creator's
        self.alt_acted = False   # a client with other defaults has operated on the file in this history

    # -- helpers
    def client(self):
        p = self.p
        return self.g.make_client(k=p["k"], happy=1, n=p["n"])

    def desc(self, extra=None):
        d = dict(self.p)
        d["ops"] = self.ops
        if extra:
            d.update(extra)
        return d

    def wait(self, d):
        return self.g.wait(d, horizon=3600.0)

    def segs(self, L=None):
        L = len(self.model) if L is None else L
        if self.p["fmt"] == "SDMF":
            return 1 if L else 0
        return div_ceil(L, self.p["S"])

    # -- run
    def run(self):
        ck, p, rng = self.ck, self.p, self.rng
        try:
            if p.get("pb"):
                self.prepare_pb()
            self.op_create()
            how = ["update-append", "overwrite", "modify", "upload", "v-overwrite", "update-append", "modify"]
            rng.shuffle(how)
            for j in range(p["nops"] - 1):
                if self.pb_sizes and (j < 4 or rng.random() < .6):
                    self.next_op(pb=how[j % len(how)])
                else:
                    self.next_op()
        except Abort:
            pass
        multiseg = p["fmt"] == "MDMF" and any(o.get("segs_after", 0) > 1 for o in self.ops)
        ck.case("%s-%s" % (p["fmt"], "multiseg" if multiseg else "oneseg"),
                key=repr((sorted((k, v) for k, v in p.items()), [sorted(o.items()) for o in self.ops])),
                nontrivial=self.mutations_ok > 0,
                sample=dict(p, ops=[dict((k, v) for k, v in o.items() if k in ("op", "off", "len", "writer", "st", "segs_after", "mod"))
                                    for o in self.ops]))

    # -- prefix-boundary sizes, derived from the real share layout of this case
    def prepare_pb(self):
        from collections import Counter
        p, k, n = self.p, self.p["k"], self.p["n"]
        targets = set(PB_TARGETS)
        found = []
        if p["fmt"] == "MDMF":
            # the real write proxy computes the offset table of a share for (k, N, segment size, data length)
            from allmydata.mutable.layout import MDMFSlotWriteProxy
            for size in range(1, min(p["maxsize"], k * 2100) + 1):
                w = MDMFSlotWriteProxy(0, None, b"\0" * 16, (b"", b"", b""), 1, k, n, p["S"], size)
                sd = w._offsets["share_data"]
                for seg in range(w._num_segments):
                    e = sd + seg * w._actual_block_size + 16 + (
                        w._tail_block_size if seg == w._num_segments - 1 else w._block_size)
                    if e > PREFIX + 2:
                        break
                    if e in targets:
                        found.append((size, "block", e))
                e = w._offsets["block_hash_tree"] + 32 * (2 * pow2_roundup(w._num_segments) - 1)
                if e in targets:
                    found.append((size, "block-hash-tree", e))
        else:
            # SDMF offsets depend on key and hash-chain lengths: read them off the shares of a scratch file made by this
            # client (real unpack_header on the real share files)
            from allmydata.mutable.publish import MutableData
            from allmydata.mutable.layout import unpack_header
            from allmydata.storage.mutable import MutableShareFile
            from allmydata.interfaces import SDMF_VERSION
            st, probe = self.wait(self.client().create_mutable_file(MutableData(b"p" * k), version=SDMF_VERSION))
            if st != "ok":
                return
            offs = Counter()
            for (vs, shnum, path) in self.g.find_shares(probe.get_storage_index()):
                o = unpack_header(MutableShareFile(path).readv([(0, 200)])[0])[-1]
                offs[(o["share_data"], o["EOF"] - o["enc_privkey"])] += 1
            (sd, privlen), _ = offs.most_common(1)[0]
            for t in sorted(targets):
                for (region, b) in (("block", t - sd), ("encprivkey", t - sd - privlen)):
                    if b >= 1:
                        for size in range(k * (b - 1) + 1, k * b + 1):
                            found.append((size, region, t))
        self.pb_sizes = [f for f in found if f[0] <= p["maxsize"]]

    def pick_pb(self):
        """A boundary size, biased to 'region ends exactly one byte behind the prefix'."""
        rng = self.rng
        t = rng.choice(PB_TARGETS)
        c = [f for f in self.pb_sizes if f[2] == t and (f[1] == "block" or rng.random() < .3)] or self.pb_sizes
        return rng.choice(c)

    def hit_pb(self, how, size):
        for (sz, region, e) in self.pb_sizes:
            if sz == size:
                self.ck.hit("prefix-boundary-size-by-" + how)
                self.ck.hit("prefix-boundary-%s-%s-end-%d" % (self.p["fmt"].lower(), region, e))

    # -- operations
    def op_create(self):
        from allmydata.mutable.publish import MutableData
        from allmydata.interfaces import SDMF_VERSION, MDMF_VERSION
        p, rng = self.p, self.rng
        size = boundary_size(rng, p["S"], p["k"], p["maxsize"])
        if self.pb_sizes and rng.random() < .7:
            size = self.pick_pb()[0]
        data = rng.randbytes(size)
        self.writer_client = self.client()
        rec = dict(op="create", len=size, writer="new")
        self.ops.append(rec)
        ver = MDMF_VERSION if p["fmt"] == "MDMF" else SDMF_VERSION
        st, node = self.wait(self.writer_client.create_mutable_file(MutableData(data), version=ver))
        rec["st"] = st
        if st != "ok":
            if st == "err":
                self.note_failure("create", node, st, rec)
            else:
                self.ck.observe("op-did-not-complete:create:%s" % st)
            raise Abort()
        self.writer = node
        self.wcap = node.get_uri()
        self.rcap = node.get_readonly_uri()
        self.model = bytearray(data)
        rec["segs_after"] = self.segs()
        self.hit_pb("create", size)
        self.verify(rec, "create", ok=True, alt=None)

    def pick_writer(self, rec):
        rng = self.rng
        if rng.random() < self.p["p_reuse"]:
            rec["writer"] = "reused"
            self.ck.hit("writer-node-reused")
        else:
            alt = self.p.get("alt_kn")
            if alt and rng.random() < .6:
                self.writer_client = self.g.make_client(k=alt[0], happy=1, n=alt[1])
                self.writer_kn = alt
                self.ck.hit("writer-client-defaults-differ-from-file")
            else:
                self.writer_client = self.client()
                self.writer_kn = None
            self.writer = self.writer_client.create_node_from_uri(self.wcap)
            rec["writer"] = "fresh"
            self.ck.hit("writer-node-fresh")
        if self.writer_kn:
            rec["writer_kn"] = self.writer_kn
            self.alt_acted = True
        elif self.alt_acted:
            rec["after_reconfigured_client"] = True      # the file may by now carry the other client's parameters
        return self.writer

    def next_op(self, pb=None):
        """pb: reach a prefix-boundary size by the named method (update-append / modify / overwrite / upload / v-overwrite)."""
        from allmydata.mutable.publish import MutableData
        from allmydata.mutable.common import MODE_WRITE
        ck, p, rng = self.ck, self.p, self.rng
        L, S = len(self.model), p["S"]
        kind = rng.choice(["update"] * 9 + ["modify"] * 4 + ["overwrite"] * 2 + ["upload"] * 2 + ["v-overwrite", "v-modify"])
        pbt = None
        if pb is not None:
            pbt = self.pick_pb()[0]
            if pb == "update-append":
                bigger = [f for f in self.pb_sizes if f[0] > L]
                if bigger:
                    pbt = rng.choice(bigger)[0] if rng.random() < .5 else min(bigger)[0]
                    kind = "update"
                else:
                    pb, kind = "modify", "modify"       # cannot grow to a boundary size: shrink to one
            elif pb == "modify":
                kind = rng.choice(["modify", "v-modify"])
            else:
                kind = pb
        rec = dict(op=kind)
        if pb is not None:
            rec["pb"] = pb
        self.ops.append(rec)
        node = self.pick_writer(rec)
        rec["node_size_before"] = node.get_size()
        rec["len_before"] = L
        old = bytes(self.model)
        new = None           # model content if the operation takes effect
        modcalls = []
        opclass = kind

        def mk_modifier(fn, name):
            def modifier(oldc, servermap, first_time):
                modcalls.append((bytes(oldc), first_time))
                return fn(oldc)
            rec["mod"] = name
            return modifier

        if kind in ("modify", "v-modify"):
            mk = rng.choice(["append", "append", "prepend", "replace-middle", "shrink", "none", "same"])
            room = max(0, p["maxsize"] - L)
            if pbt is not None and pbt != L:
                mk = rng.choice(["append", "prepend"]) if pbt > L else "shrink"
            if mk in ("append", "prepend"):
                x = rng.randbytes(min(room, rng.choice([1, 2, S - 1, S, S + 1, rng.randint(1, 2 * S)])))
                if pbt is not None and pbt > L:
                    x = rng.randbytes(pbt - L)
                if mk == "append":
                    fn, new = (lambda o: o + x), old + x
                else:
                    fn, new = (lambda o: x + o), x + old
            elif mk == "replace-middle":
                a = pick_pos(rng, L, S)
                x = rng.randbytes(max(0, min(L - a, rng.choice([1, S, S + 1, rng.randint(0, S)]))))
                fn, new = (lambda o: o[:a] + x + o[a + len(x):]), old[:a] + x + old[a + len(x):]
            elif mk == "shrink":
                cut = pick_pos(rng, L, S) if pbt is None or pbt > L else pbt
                fn, new = (lambda o: o[:cut]), old[:cut]
            elif mk == "none":
                fn, new = (lambda o: None), old
            else:
                fn, new = (lambda o: o), old
            modifier = mk_modifier(fn, mk)
            rec["len"] = len(new)
            if kind == "modify":
                d = node.modify(modifier)
            else:
                st, best = self.wait(node.get_best_mutable_version())
                if st != "ok":
                    return self.finish_op(rec, opclass, st, best, old, new, modcalls)
                d = best.modify(modifier)
        elif kind in ("overwrite", "upload", "v-overwrite"):
            new = rng.randbytes(boundary_size(rng, S, p["k"], p["maxsize"]) if pbt is None else pbt)
            rec["len"] = len(new)
            if kind == "overwrite":
                d = node.overwrite(MutableData(new))
            elif kind == "upload":
                st, smap = self.wait(node.get_servermap(MODE_WRITE))
                if st != "ok":
                    return self.finish_op(rec, opclass, st, smap, old, new, modcalls)
                d = node.upload(MutableData(new), smap)
            else:
                st, best = self.wait(node.get_best_mutable_version())
                if st != "ok":
                    return self.finish_op(rec, opclass, st, best, old, new, modcalls)
                d = best.overwrite(MutableData(new))
        else:
            off = pick_pos(rng, L, S)
            end = pick_end(rng, off, L, S, p["maxsize"])
            if pbt is not None and pbt > L:
                off, end = (L if rng.random() < .7 else pick_pos(rng, L, S)), pbt
            x = rng.randbytes(end - off)
            rec["off"], rec["len"] = off, len(x)
            new = old[:off] + x + old[off + len(x):]
            opclass = "update-sdmf" if p["fmt"] == "SDMF" else "update-mdmf"
            st, best = self.wait(node.get_best_mutable_version())
            if st != "ok":
                return self.finish_op(rec, opclass, st, best, old, new, modcalls)
            d = best.update(MutableData(x), off)
        st, res = self.wait(d)
        return self.finish_op(rec, opclass, st, res, old, new, modcalls)

    def finish_op(self, rec, opclass, st, res, old, new, modcalls):
        ck, p = self.ck, self.p
        rec["st"] = st
        S = p["S"]
        if st in ("ok", "err"):
            ck.mon("operation-succeeds-on-honest-grid")
        # what the modifier was shown is a read of the file
        for (seen, first_time) in modcalls:
            ck.mon("modifier-sees-model")
            if seen != old:
                ck.violation("modifier-given-wrong-old-contents",
                             "modify() handed the modifier %d bytes that differ from the %d-byte model (first diff at %s)"
                             % (len(seen), len(old), firstdiff(seen, old)), self.desc())
                raise Abort()
        if st == "ok":
            self.model = bytearray(new)
            rec["segs_after"] = self.segs()
            if new != old:
                self.mutations_ok += 1
            self.count_reach(rec, opclass, old, new)
            if self.pb_sizes and len(new) != len(old):
                self.hit_pb({"update": "update-append", "modify": "modify", "v-modify": "modify", "overwrite": "overwrite",
                             "upload": "overwrite", "v-overwrite": "overwrite"}[rec["op"]], len(new))
            self.verify(rec, opclass, ok=True, alt=None)
        elif st == "err":
            rec["error"] = ferr(res)
            self.note_failure(opclass, res, st, rec, empty=(len(old) == 0))
            self.verify(rec, opclass, ok=False, alt=new)
        else:
            ck.observe("op-did-not-complete:%s:%s" % (opclass, st))
            raise Abort()

    def note_failure(self, opclass, res, st, rec=None, empty=False):
        """An operation that errbacks on an honest, fully connected grid within the documented preconditions does not
        do what the statement describes: judged.  One key per mechanism: op class + structural feature of the operation
        + exception type (the exception carried inside a NotEnoughServersError, if any)."""
        import re
        ck, p = self.ck, self.p
        name = res.type.__name__
        text = str(res.value)
        inner = re.findall(r"<class '(?:[\w.]*\.)?(\w+)'>", text)
        exc = name if not inner else "%s(%s)" % (name, inner[-1])
        rec = rec or {}
        feat = "any"
        if opclass.startswith("update"):
            S = p["S"]
            off, n, L0 = rec["off"], rec["len"], rec["len_before"]
            nsz = rec.get("node_size_before")
            s0, s1 = div_ceil(L0, S), div_ceil(max(L0, off + n), S)
            if L0 == 0:
                feat = "empty-file"
            elif opclass == "update-mdmf" and off == L0 and L0 % S == 0:
                feat = "append-at-segment-boundary-eof"
            elif n == 0:
                feat = "zero-length-write"
            elif opclass == "update-mdmf" and s1 > s0 and pow2_roundup(max(s0, 1)) < s1:
                feat = "segment-count-crosses-power-of-two"
            elif opclass == "update-mdmf" and nsz is not None and max(nsz, off + n) != max(L0, off + n):
                feat = "stale-cached-node-size"
            elif opclass == "update-mdmf" and p["nservers"] < p["n"]:
                feat = "several-shares-per-server"
            elif off + n > L0:
                feat = "extends-file"
            else:
                feat = "within-file"
        key = "%s-fails-%s-%s" % (opclass, feat, exc)
        frames = [l.strip() for l in res.getTraceback().splitlines() if "/src/allmydata/" in l][-4:]
        where = frames[-1].rsplit(" in ", 1)[-1] if frames else "?"
        differ = rec.get("writer_kn") or rec.get("after_reconfigured_client")
        if differ and opclass == "update-mdmf" and feat != "empty-file":
            # Publish.update() encodes with the node's default k/N instead of those of the version it updates
            key = "update-mdmf-fails-writer-defaults-differ"
        elif differ and opclass != "create":
            # a publish by a node that has not downloaded the file uses its client's default N while the goal still lists
            # the share numbers of the file's N (or stale shares beyond the new N left by such a publish)
            key = "publish-fails-client-default-n-differs-from-existing-shares"
        if differ:
            pass
        elif (opclass == "update-mdmf" and p["nservers"] < p["n"] and feat != "empty-file"
                and (exc, where) in (("AssertionError(int)", "_decode_blocks"), ("IndexError", "push_blockhashes"),
                                     ("LayoutInvalid", "put_signature"))
                or (opclass == "update-mdmf" and p["nservers"] < p["n"] and feat != "empty-file"
                    and exc == "NotEnoughServersError(KeyError)")):
            # all four are what an update sees when the servermap update finished before the boundary segments / block
            # hashes of every share of a multi-share server had been recorded: fewer than k blocks to decode, no
            # block-hash list for a share number that is re-encoded, or (nothing re-encoded) a share-hash list that is
            # shorter than N.  Classification only; the verdict is the errback.
            key = "update-mdmf-fails-update-data-incomplete-with-several-shares-per-server"
        ck.hit("failed-op")
        ck.violation(key, "%s%s on an honest, fully connected grid errbacked with %s: %s (at %s)" % (
            opclass, "" if not opclass.startswith("update") else "(offset=%d, %d bytes) on a %d-byte file (segment %d, k=%d, N=%d, "
            "%d servers)" % (rec["off"], rec["len"], rec["len_before"], p["S"], p["k"], p["n"], p["nservers"]),
            name, text[:200], frames[-1:] or "?"), self.desc(dict(error=ferr(res), frames=frames)))

    def count_reach(self, rec, opclass, old, new):
        ck, p = self.ck, self.p
        S = p["S"]
        L0, L1 = len(old), len(new)
        if p["fmt"] == "MDMF" and self.segs(L1) > 1:
            ck.hit("multi-segment-mdmf")
            if p["segsize"] == self.default_seg:
                ck.hit("default-segment-size-multi-segment")
        if opclass.startswith("update"):
            off, n = rec["off"], rec["len"]
            ck.hit("mdmf-in-place-update-ok" if opclass == "update-mdmf" else "sdmf-update-ok")
            if off == L0 and n:
                ck.hit("update-append-ok")
            if off + n > L0:
                ck.hit("update-extends-file")
            if n == 0:
                ck.hit("update-zero-length-ok")
            if opclass == "update-mdmf":
                if n and off // S != (off + n - 1) // S:
                    ck.hit("update-straddles-segment-boundary")
                if off % S in (0, 1, S - 1) or (off + n) % S in (0, 1, S - 1):
                    ck.hit("update-at-segment-boundary-pm1")
                s0, s1 = div_ceil(L0, S), div_ceil(L1, S)
                if s1 > s0 and pow2_roundup(max(s0, 1)) < s1:
                    ck.hit("update-grows-across-pow2-segment-count")
                    ck.hit("grow-%d-to-%d-segments" % (s0, s1) if (s0, s1) in ((2, 3), (4, 5), (8, 9)) else "grow-other")
                elif s1 > s0:
                    ck.hit("update-adds-segments-within-pow2")
                if 0 < off + n < L0 and (off + n) % S:
                    ck.hit("update-merges-old-tail-of-end-segment")
                if off % S:
                    ck.hit("update-merges-old-head-of-start-segment")
        elif opclass in ("modify", "v-modify"):
            ck.hit("modify-changed-content" if new != old else "modify-no-op")
            if L1 < L0:
                ck.hit("modify-shrinks-file")
        elif opclass in ("overwrite", "v-overwrite"):
            ck.hit("overwrite-ok")
            if self.segs(L1) < self.segs(L0):
                ck.hit("overwrite-reduces-segment-count")
        elif opclass == "upload":
            ck.hit("upload-with-servermap-ok")

    # -- reads
    def pick_reader(self):
        rng, p = self.rng, self.p
        pol = p["reader"]
        if pol == "mixed":
            pol = rng.choice(["writer", "persistent", "fresh"])
        if pol == "writer":
            self.ck.hit("reader-node-is-writer")
            return self.writer, "writer"
        cap = self.wcap if p["reader_cap"] == "rw" else self.rcap
        if pol == "persistent":
            if self.persistent_reader is None:
                self.persistent_reader = self.client().create_node_from_uri(cap)
            self.ck.hit("reader-node-persistent")
            return self.persistent_reader, "persistent"
        self.ck.hit("reader-node-fresh")
        return self.client().create_node_from_uri(cap), "fresh"

    def verify(self, rec, opclass, ok, alt):
        """Read the file back (whole + boundary grid) and compare with the model."""
        from allmydata.util.consumer import MemoryConsumer
        from vf.imm import RecordingConsumer
        ck, rng, p = self.ck, self.rng, self.p
        rnode, rkind = self.pick_reader()
        rec["reader"] = rkind
        expect = bytes(self.model)
        # whole file
        how = rng.choice(["download_best_version", "download_best_version", "version.read"])
        if how == "download_best_version":
            st, got = self.wait(rnode.download_best_version())
        else:
            st, v = self.wait(rnode.get_best_readable_version())
            if st == "ok":
                mc = MemoryConsumer()
                st, r = self.wait(v.read(mc, 0, None))
                got = b"".join(mc.chunks) if st == "ok" else r
            else:
                got = v
        ck.mon("full-read-equals-model")
        if st == "ok" and not ok and alt is not None and got != expect and got == alt:
            # the operation reported failure but took effect completely: the statement leaves this open
            ck.skip("failed-op-took-effect")
            self.model = bytearray(alt)
            expect = alt
        if st != "ok" or got != expect:
            self.report(rec, opclass, ok, "whole-file %s via %s node" % (how, rkind), st, got, expect)
            raise Abort()
        # size and partial reads on one version object
        st, v = self.wait(rnode.get_best_readable_version() if rng.random() < .8 or rnode.is_readonly()
                          else rnode.get_best_mutable_version())
        if st != "ok":
            self.report(rec, opclass, ok, "get version via %s node" % rkind, st, v, expect)
            raise Abort()
        ck.mon("size-equals-model")
        if v.get_size() != len(expect):
            ck.violation("version-size-differs-from-model-after-" + opclass,
                         "version.get_size()=%d, model has %d bytes" % (v.get_size(), len(expect)), self.desc())
            raise Abort()
        L, S = len(expect), p["S"]
        for (off, size) in read_grid(rng, L, S, rng.randint(1, 3)):
            cons = MemoryConsumer() if rng.random() < .5 else RecordingConsumer()
            st, r = self.wait(v.read(cons, off, size))
            ck.mon("partial-read-equals-model")
            want = expect[off:] if size is None else expect[off:off + size]
            got = b"".join(cons.chunks) if st == "ok" else r
            if want and S and off // S != (off + len(want) - 1) // S and p["fmt"] == "MDMF":
                ck.hit("partial-read-straddles-segment-boundary")
            if st != "ok" or got != want:
                self.report(rec, opclass, ok, "read(offset=%d, size=%r) via %s node" % (off, size, rkind), st, got, want,
                            partial=True)
                raise Abort()

    def report(self, rec, opclass, ok, what, st, got, want, partial=False):
        ck = self.ck
        # classification only (public IFilesystemNode.get_size() of the writer node, sampled before the operation):
        # Publish.update() sizes the new version from the node's cached size instead of the version being updated
        stale = (opclass == "update-mdmf" and rec.get("node_size_before") is not None
                 and max(rec["node_size_before"], rec["off"] + rec["len"]) != max(rec["len_before"], rec["off"] + rec["len"]))
        if st == "ok":
            detail = "returned %d bytes, model has %d (first difference at byte %s)" % (len(got), len(want), firstdiff(got, want))
        elif st == "err":
            detail = "failed with %s" % ferr(got)
        else:
            detail = "did not complete (%s)" % st
        w = self.desc(dict(read=what, status=st, detail=detail))
        if not ok:
            key = "content-changed-by-failed-" + opclass
            msg = "after %s errbacked (%s), %s %s; the model without the operation has %d bytes" % (
                opclass, rec.get("error", "?")[:120], what, detail, len(self.model))
        elif opclass == "update-mdmf" and (rec.get("writer_kn") or rec.get("after_reconfigured_client")):
            key = "mdmf-update-encodes-with-the-writers-default-k-n"
            wkn = rec.get("writer_kn") or (self.p["k"], self.p["n"])
            msg = ("in-place MDMF update(offset=%d, %d bytes) by a node object whose client defaults (k=%d N=%d) differ from the "
                   "parameters of the file (clients of this history: k=%d N=%d and k=%d N=%d) called back; afterwards %s %s" % (
                       rec["off"], rec["len"], wkn[0], wkn[1], self.p["k"], self.p["n"], self.p["alt_kn"][0],
                       self.p["alt_kn"][1], what, detail))
        elif stale:
            key = "mdmf-update-uses-stale-cached-node-size"
            msg = ("in-place MDMF update(offset=%d, %d bytes) on a node object whose cached get_size()=%r is stale (file has %d "
                   "bytes): afterwards %s %s" % (rec["off"], rec["len"], rec["node_size_before"], rec["len_before"], what, detail))
        elif st == "ok":
            key = ("wrong-bytes-in-partial-read-after-" if partial else "wrong-bytes-after-") + opclass
            msg = "after successful %s, %s %s" % (opclass, what, detail)
        else:
            key = "read-fails-after-" + opclass
            msg = "after successful %s, %s %s" % (opclass, what, detail)
        ck.violation(key, msg, w)


def ferr(res):
    try:
        return "%s: %s" % (res.type.__name__, str(res.value)[:300])
    except Exception:
        return repr(res)[:300]


def firstdiff(a, b):
    n = min(len(a), len(b))
    for i in range(n):
        if a[i] != b[i]:
            return i
    return n if len(a) != len(b) else None


# MUST_CATCH (selftest/breaks_c09.py; tools/selftest.py --prop C09).  Result of the last run, each applied on top of
# the one-line fix for the genuine finding below (so that only the planted break can fire): 13/13 caught.
#   c09-transforming-read-merge-off-by-one    wrong-bytes-after-update-mdmf
#   c09-transforming-read-start-shifted       wrong-bytes-after-update-mdmf
#   c09-set-segment-tail-trim                 wrong-bytes-(in-partial-read-)after-*
#   c09-set-segment-no-tail-trim-when-single  wrong-bytes-in-partial-read-after-*
#   c09-retrieve-last-segment-off-by-one      read-fails-after-* / wrong-bytes-in-partial-read-after-*
#   c09-publish-end-segment-off-by-one        wrong-bytes-after-update-mdmf
#   c09-update-end-segment-fetch              wrong-bytes-after-update-mdmf
#   c09-blockhash-reuse                       read-fails-after-update-mdmf
#   c09-servermap-update-range-swapped        wrong-bytes-after-update-mdmf
#   c09-modify-update-drops-byte              wrong-bytes-after-update-sdmf
#   c09-publish-starting-segment              wrong-bytes-/read-fails-after-update-mdmf
#   c09-update-datalength-never-grows         wrong-bytes-after-update-mdmf
#   c09-modify-publishes-old                  wrong-bytes-after-modify / -v-modify / -update-sdmf
# Tried and benign (documented in breaks_c09.py): SDMF IV reuse, tail decoded with the full-segment decoder, padded
# tail size in _decode_blocks, dropping `end_data -= 1`, dropping the last old block-hash leaf (turns into an errback).
#
#   c09-replant-stale-node-size               mdmf-update-uses-stale-cached-node-size (+ update-mdmf-fails-stale-...)
#   c09-replant-append-at-aligned-eof         update-mdmf-fails-append-at-segment-boundary-eof-IndexError
# (15/15 caught on top of the two patches below.)
#
# Seeded changes (tools/selftest.py --seeded --prop C09): C09-1..C09-6 all caught.  C09-6 (MDMFSlotReadProxy._read fencepost:
# a request ending one byte behind the 4000-byte cached share prefix is served one byte short) needs file sizes that put the
# end of a block at share offset 4001; the "prefix-boundary" cases (first 8 cases of every run/shard + 12 % of the rest)
# derive such sizes from the real offset tables (MDMFSlotWriteProxy / unpack_header of a scratch share) for region ends
# 3999..4002 and reach them by create, append, overwrite/upload and modify (required reach counters prefix-boundary-*).
#
# GENUINE, open as of /repo 940bcb8 (histories in which a client with other default k/N than the file's operates on it -
# a re-configured client; patches in /var/tmp/c47fix/):
#   mdmf-update-encodes-with-the-writers-default-k-n, update-mdmf-fails-writer-defaults-differ
#       mutable/publish.py Publish.update(): required_shares/total_shares come from the node (client defaults until the
#       node has downloaded the file) instead of the version being updated -> success + unreadable file (k' < k, same N)
#       or an errback (other combinations).  fix: version[5], version[6].
#   publish-fails-client-default-n-differs-from-existing-shares
#       mutable/publish.py Publish.publish(): a node that has not downloaded the file publishes with its client's default N
#       while the goal lists the existing share numbers of the file's N (MDMFSlotWriteProxy assert shnum < N / SDMF
#       KeyError).  fix: take k, N of the servermap's best recoverable version.
#
# Repaired in /repo after this check reported them: 0eb4d1b (Publish.update used the node's stale cached size),
# 1699424 (append at a segment-aligned EOF), 73ba509 (servermap update waited only for the last share of each server:
# key update-mdmf-fails-update-data-incomplete-with-several-shares-per-server), 7a3fd88 (update() of an empty file:
# keys update-mdmf-fails-empty-file-AssertionError(int), update-sdmf-fails-empty-file-ZeroDivisionError).
