"""C20 directory edits behave like a name map."""
META = {
    "level": "exploration",
    "technique": "model-based runtime monitoring: seeded operation histories on real SDMF/MDMF directories of an in-process grid, compared after every step with a name -> (caps, metadata) map model; virtual clock inside dirnode; injected storage-server failures",
    "text": "Histories of <= 30 operations (set_uri, set_node, set_children, add_file, create_subdirectory with overwrite in {True, False, ONLY_FILES}; delete with must_exist/must_be_directory/must_be_file; move_child_to within and across directories incl. self-rename; set_metadata_for; list/get/get_metadata_for/has_child) over <= 3 real directories, with a small pool of colliding and normalisation-equivalent names, known and unknown caps. After every operation the result (value or exception type) and the full listing of every directory are compared with a dict model. dirnode.time is replaced by the virtual reactor clock, advanced between operations: link-creation time must survive updates, link-modification time must be the `now` handed to that update and never go back, caller-supplied 'tahoe' metadata must not be stored, 'no-write' metadata must diminish the child. A two-writer family (two clients, own nodes for one directory, both linking the same normalised name without overwrite / ONLY_FILES against a directory; sequential, free and steered-collision orders where A's test-and-set writes are held in flight until B's add completed) requires that at most one add reports success and the listing holds the winner's child. Storage-server write failures are injected around some operations: a failed operation must leave a state the model allows (unchanged; for rename: source still linked), a failed rename never loses the child, a refused no-overwrite add changes nothing, ONLY_FILES never replaces a directory.",
    "note": "Histories use a single writer; the two-writer family races exactly two adds. Injected failures are clean refusals ('raise' before the server method runs), so a failed publish has no partial effect; partial-write recovery belongs to C09-C12/C47. Trusts unicodedata NFC and the hash chain in _caps.py for expected read-caps.",
}
LEVEL = "exploration"
BUDGET = {"quick": 40, "thorough": 240}
SHARDS = {"quick": 1, "thorough": 6}

import copy
import random
from vf import env  # noqa
from vf.checks import _dir as D
from vf.checks import _caps as M

WRITEV = "slot_testv_and_readv_and_writev"


class E(object):
    """Model entry."""
    __slots__ = ("rw", "ro", "user", "tahoe", "is_dir", "unknown", "rule", "alts")

    def __init__(self, rw, ro, user, tahoe, is_dir, unknown=False, rule=None):
        self.rw, self.ro, self.user, self.tahoe, self.is_dir, self.unknown = rw, ro, user, tahoe, is_dir, unknown
        self.rule = rule      # None (stored tahoe must be identical) | ("new",) | ("update", old_tahoe)
        self.alts = None

    def clone(self):
        e = E(self.rw, self.ro, copy.deepcopy(self.user), copy.deepcopy(self.tahoe), self.is_dir, self.unknown, self.rule)
        return e


class Src(object):
    """Something that can be linked: cap strings as given to the API and as expected to be stored."""

    def __init__(self, give_rw, give_ro, rw, ro, is_dir, unknown=False, desc=""):
        self.give_rw, self.give_ro, self.rw, self.ro, self.is_dir, self.unknown, self.desc = give_rw, give_ro, rw, ro, is_dir, unknown, desc


def strengthen(ro):
    return ro if M.strip_alleged(ro)[0] else b"ro." + ro


def run(ck):
    from vf.grid import VGrid, KEYPOOL
    ck.rule = ("case = history of <=30 operations over <=3 real directories (SDMF/MDMF) with a pool of <=8 colliding / "
               "NFC-equivalent names, overwrite modes, fault plans and clock steps; distinct = distinct operation sequence "
               "signature; non-trivial = history contains a refused add, a rename and a metadata update")
    shim, restore = D.install_dirnode_clock()
    try:
        i = 0
        ncases = 0
        while ck.more(min_cases=100):
            i += 1
            if not ck.mine(i):
                continue
            crng = ck.rng("case", i)
            KEYPOOL.rewind()
            g = VGrid(nservers=4, seed=crng.getrandbits(32), profile=crng.choice(["fifo", "per-server-fifo", "per-server-fifo", "free"]),
                      keep_log=False)
            try:
                with ck.watchdog(180, "history %d" % i):
                    History(ck, g, crng, i, shim).run()
            finally:
                g.close()
            # two writers (two clients) racing to link the same name without overwrite
            for j in range(3):
                trng = ck.rng("two-writers", i, j)
                KEYPOOL.rewind()
                random.seed(trng.getrandbits(32))     # BackoffAgent draws its retry delay from the global generator
                g = VGrid(nservers=4, seed=trng.getrandbits(32), profile=trng.choice(["fifo", "per-server-fifo", "per-server-fifo", "free"]),
                          keep_log=True)
                try:
                    with ck.watchdog(180, "two writers %d/%d" % (i, j)):
                        try:
                            two_writers(ck, g, trng, (i, j))
                        except D.OpFailed as e:
                            if e.st == "err":
                                ck.violation("directory-operation-failed-on-honest-grid", "two-writer setup: %s" % str(e)[:300], {"case": [i, j]})
                            else:
                                ck.inconclusive_because("two-writer scenario did not finish (%s): %s" % (e.st, e.what))
                finally:
                    g.close()
            ncases += 1
            if ck.tier == "quick" and ncases >= 34:
                break
    finally:
        restore()
    ck.exhaustive = False
    ck.require_monitor("listing-equals-model", "operation-result", "timestamps", "failed-op-state", "failed-rename-keeps-source",
                       "two-writers-at-most-one-no-overwrite-add-wins")
    ck.require_reach("two-writers-publish-collided", "two-writers-loser-got-ExistingChildError", "two-writers-sequential",
                     "two-writers-only-files-vs-directory", "two-writers-free-interleaving",
                     "non-nfc-name-whose-largest-code-point-is-the-combining-mark")
    ck.require_reach("no-overwrite-add-refused", "only-files-refused-directory", "only-files-replaced-file", "rename-across-directories",
                     "rename-within-directory", "self-rename", "rename-onto-existing", "rename-refused-target-exists",
                     "delete-wrong-type-refused", "delete-missing-refused", "metadata-updated", "no-write-diminished",
                     "caller-tahoe-ignored", "overwrite-preserved-linkcrtime", "nfc-equivalent-name-hit-existing-entry",
                     "op-failed-by-injected-fault", "rename-failed-by-injected-fault", "mdmf-directory", "sdmf-directory")


def two_writers(ck, g, rng, caseno):
    """Clients A and B hold their own nodes for one directory and both link the same (normalised) name without
    overwrite.  Orders: sequential, free interleaving, and a steered collision (A has read the directory and sent its
    test-and-set writes; they are held back until B's add has completed, then released, so A's publish collides and
    A has to retry)."""
    from allmydata.dirnode import ONLY_FILES
    cA, cB = g.make_client(k=2, happy=1, n=4), g.make_client(k=2, happy=1, n=4)
    version = rng.choice([D.SDMF, D.MDMF])
    d0 = D.ok(g, cA.create_dirnode(version=version), "create_dirnode")
    cap = d0.get_uri()
    existing = {}
    for k in range(rng.choice([0, 1, 3])):
        s_ = D.fake_cap(rng, rng.choice(["SSK", "CHK", "DIR2"]))
        existing["old%d" % k] = s_
    if existing:
        D.ok(g, d0.set_children({n_: ((c_, None) if D.CapInfo(c_).is_write else (None, c_)) for n_, c_ in existing.items()}), "set_children")
    nodeA, nodeB = cA.create_node_from_uri(cap), cB.create_node_from_uri(cap)
    mode = rng.choice(["no-overwrite", "no-overwrite", "only-files"])
    base = rng.choice(["n", "é", "Å", "x:y", D.gen_unstable(rng), D.gen_unstable(rng)])
    spell = [x for x in ("\u00e9", "e\u0301", "\u00c5", "A\u030a", "\u212b", base, D.nfc(base)) if D.nfc(x) == D.nfc(base)] or [base]
    nameA, nameB = rng.choice(spell), rng.choice(spell)
    name = D.nfc(base)
    X = D.fake_cap(rng, rng.choice(["SSK", "MDMF", "CHK"]))
    Y = D.fake_cap(rng, rng.choice(["DIR2", "DIR2-MDMF", "DIR2-CHK"]) if mode == "only-files" else rng.choice(["SSK", "CHK", "DIR2"]))
    owA, owA_l = (ONLY_FILES, "ONLY_FILES") if mode == "only-files" else (False, "False")
    if mode == "only-files":
        ck.hit("two-writers-only-files-vs-directory")
    order = rng.choice(["collide", "collide", "collide", "B-first", "A-first", "free", "free"])
    opA = rng.choice(["set_uri", "set_node", "set_children"])

    def give(cap_):
        return (cap_, None) if D.CapInfo(cap_).is_write else (None, cap_)

    def startA():
        rw, ro = give(X)
        if opA == "set_uri":
            return nodeA.set_uri(nameA, rw, ro, {"by": "A"}, overwrite=owA)
        if opA == "set_node":
            return nodeA.set_node(nameA, cA.create_node_from_uri(rw, ro), {"by": "A"}, overwrite=owA)
        return nodeA.set_children({nameA: (rw, ro, {"by": "A"})}, overwrite=owA)

    def startB():
        rw, ro = give(Y)
        return nodeB.set_uri(nameB, rw, ro, {"by": "B"}, overwrite=False)

    def watch(d):
        box = []
        d.addBoth(box.append)
        return box

    WR = ">" + WRITEV + "#"
    held = []
    desc = {"case": list(caseno), "order": order, "mode": mode, "opA": opA, "names": [nameA, nameB], "version": "MDMF" if version else "SDMF",
            "A_child": D.show(X)[:40], "B_child": D.show(Y)[:40]}
    if order == "A-first":
        ck.hit("two-writers-sequential")
        boxA = watch(startA())
        g.sched.run(until=lambda: bool(boxA), horizon=7200.0)
        boxB = watch(startB())
        g.sched.run(until=lambda: bool(boxB), horizon=7200.0)
    elif order == "B-first":
        ck.hit("two-writers-sequential")
        boxB = watch(startB())
        g.sched.run(until=lambda: bool(boxB), horizon=7200.0)
        boxA = watch(startA())
        g.sched.run(until=lambda: bool(boxA), horizon=7200.0)
    elif order == "free":
        ck.hit("two-writers-free-interleaving")
        boxA, boxB = watch(startA()), watch(startB())
        if rng.random() < .5:
            boxA, boxB = boxA, boxB
        g.sched.run(until=lambda: bool(boxA) and bool(boxB), horizon=7200.0)
    else:
        boxA = watch(startA())
        # A reads the directory, runs its modifier (the name is free) and sends its test-and-set writes ...
        g.sched.run(until=lambda: bool(boxA) or any(WR in m.label and m.direction == "req" for m in g.sched.net), horizon=7200.0)
        held = [m for m in g.sched.net if WR in m.label and m.direction == "req"]
        for m in held:
            g.sched.net.remove(m)          # ... which stay in flight
        desc["held_writes"] = len(held)
        boxB = watch(startB())
        g.sched.run(until=lambda: bool(boxB), horizon=7200.0)      # B's whole add happens meanwhile
        g.sched.net.extend(held)           # A's writes arrive now
        g.sched.run(until=lambda: bool(boxA), horizon=7200.0)
    if not boxA or not boxB:
        raise D.OpFailed("hang", None, "two writers (%s)" % order)
    from twisted.python.failure import Failure
    resA, resB = boxA[0], boxB[0]
    okA, okB = not isinstance(resA, Failure), not isinstance(resB, Failure)
    errA = None if okA else resA.type.__name__
    errB = None if okB else resB.type.__name__
    desc.update(A_result=errA or "success", B_result=errB or "success")
    collided = sum(1 for r in g.calls if r["method"] == WRITEV and isinstance(r.get("result"), tuple) and r["result"] and r["result"][0] is False)
    if collided:
        ck.hit("two-writers-publish-collided")
        desc["refused_test_and_set_writes"] = collided
    if "ExistingChildError" in (errA, errB):
        ck.hit("two-writers-loser-got-ExistingChildError")
    final = D.ok(g, g.make_client(k=2, happy=1, n=4).create_node_from_uri(cap).list(), "final listing")
    ck.mon("two-writers-at-most-one-no-overwrite-add-wins")
    got = final.get(name)
    got_caps = D.node_caps(got[0]) if got else None

    def caps_of(cap_):
        info = D.CapInfo(cap_)
        return (cap_ if info.is_write else None, info.readonly)

    who = "nobody" if got is None else "A" if got_caps == caps_of(X) else "B" if got_caps == caps_of(Y) else "?"
    desc["final_entry"] = who
    if okA and okB:
        ck.violation("no-overwrite-add-replaced-entry",
                     "two writers linked %r without overwrite (A: %s overwrite=%s, B: set_uri overwrite=False, order %s): BOTH report success; "
                     "the directory holds %s's child, the other writer's entry was replaced" % (name, opA, owA_l, order, who), desc)
    elif who == "?":
        ck.violation("child-differs-from-model", "two writers: final entry %r is neither writer's child: %r" % (name, got_caps), desc)
    elif (okA and who != "A") or (okB and who != "B"):
        ck.violation("listing-differs-from-model", "two writers: %s reports success but the directory holds %s's child under %r" % (
            "A" if okA else "B", who, name), desc)
    elif not okA and not okB:
        if order != "free":
            ck.violation("operation-result-differs-from-model", "two writers (%s): both adds of the free name %r failed (%s / %s)" % (order, name, errA, errB), desc)
        else:
            ck.skip("two-writers-both-gave-up")
    if order in ("collide", "B-first") and okB and okA is False and errA != "ExistingChildError":
        ck.observe("two-writers-loser-error-" + str(errA))
    # bystanders untouched, exactly one entry for the name
    want_names = set(existing) | ({name} if who != "nobody" else set())
    if set(final) != want_names:
        ck.violation("listing-differs-from-model", "two writers: names %r, expected %r" % (sorted(final), sorted(want_names)), desc)
    else:
        for n_, c_ in existing.items():
            if D.node_caps(final[n_][0]) != caps_of(c_):
                ck.violation("child-differs-from-model", "two writers: bystander %r changed" % (n_,), desc)
    ck.case("two-writers-" + order, key=(caseno, order, mode, opA, nameA, nameB), nontrivial=bool(collided),
            sample=desc)


class History(object):
    def __init__(self, ck, g, rng, caseno, shim):
        self.ck, self.g, self.rng, self.caseno, self.shim = ck, g, rng, caseno, shim
        self.log = []
        self.flags = set()

    # ------------------------------------------------------------------ helpers
    def wit(self, **kw):
        d = {"history": self.caseno, "ops": self.log[-12:]}
        d.update(kw)
        return d

    def src_known(self, kname):
        s = D.fake_cap(self.rng, kname)
        info = D.CapInfo(s)
        if info.is_write:
            how = self.rng.choice(["both", "rw", "ro-slot"])
            give = {"both": (s, info.readonly), "rw": (s, None), "ro-slot": (None, s)}[how]
            return Src(give[0], give[1], s, info.readonly, info.is_dir, desc=kname + "/" + how)
        how = self.rng.choice(["ro", "rw-slot", "alleged"])
        give = {"ro": (None, s), "rw-slot": (s, None), "alleged": (None, (b"imm." if not info.is_mutable else b"ro.") + s)}[how]
        return Src(give[0], give[1], None, info.readonly, info.is_dir, desc=kname + "/" + how)

    def src_unknown(self):
        self.tag += 1
        t = b"%d" % self.tag
        sch = self.rng.choice([b"x-tahoe-future:", b"lafs://from_the_future/"])
        kind = self.rng.choice(["both", "ro", "alleged-single"])
        if kind == "both":
            rw, ro = sch + b"W" + t, self.rng.choice([b"", b"ro."]) + sch + b"R" + t
            return Src(rw, ro, rw, strengthen(ro), False, True, "unknown/both")
        if kind == "ro":
            ro = self.rng.choice([b"", b"ro.", b"imm."]) + sch + b"R" + t
            return Src(None, ro, None, strengthen(ro), False, True, "unknown/ro")
        rw = self.rng.choice([b"ro.", b"imm."]) + sch + b"S" + t
        return Src(rw, None, None, rw, False, True, "unknown/alleged-single")

    def src_any(self, files_only=False, dirs_only=False):
        r = self.rng.random()
        if dirs_only or (not files_only and r < .35):
            if self.rng.random() < .4 and self.dirs:
                d = self.rng.choice(self.dirs)
                return Src(d.cap, None, d.cap, d.info.readonly, True, desc="real-dir")
            return self.src_known(self.rng.choice(["DIR2", "DIR2-MDMF", "DIR2-RO", "DIR2-MDMF-RO", "DIR2-CHK", "DIR2-LIT"]))
        if not files_only and r < .5:
            return self.src_unknown()
        return self.src_known(self.rng.choice(["SSK", "MDMF", "SSK", "MDMF", "SSK-RO", "MDMF-RO", "CHK", "LIT"]))

    def node_of(self, src):
        return self.c.create_node_from_uri(src.give_rw, src.give_ro)

    def name(self):
        return self.rng.choice(self.names)

    def name_in(self, d, p=.7):
        """mostly the name of an existing child of d (possibly in an NFC-equivalent spelling from the pool)."""
        if d.entries and self.rng.random() < p:
            n = self.rng.choice(sorted(d.entries))
            spell = [x for x in self.names if D.nfc(x) == n]
            return self.rng.choice(spell) if spell and self.rng.random() < .5 else n
        return self.name()

    def gen_md(self):
        r = self.rng.random()
        if r < .3:
            return None
        md = D.gen_metadata(self.rng, allow_no_write=True)
        if self.rng.random() < .35:
            md["tahoe"] = self.rng.choice([{"linkcrtime": 1.0, "linkmotime": 2.0}, {"evil": "x"}, {}, 7, "s", {"linkcrtime": 9e12}])
        md.pop("ctime", None)      # legacy ctime -> linkcrtime rule is left to the dont_care class
        return md

    def overwrite(self):
        from allmydata.dirnode import ONLY_FILES
        return self.rng.choice([(True, "True"), (True, "True"), (False, "False"), (ONLY_FILES, "ONLY_FILES")])

    # ------------------------------------------------------------------ the model's Adder
    def model_add(self, entries, name, src, new_md, ow_label, times_rule=True):
        """-> error class name or None; mutates entries (dict name->E)."""
        old = entries.get(name)
        if old is not None:
            if ow_label == "False":
                return "ExistingChildError"
            if ow_label == "ONLY_FILES" and old.is_dir:
                return "ExistingChildError"
        if new_md is not None:
            user = {k: copy.deepcopy(v) for k, v in new_md.items() if k != "tahoe"}
        else:
            user = copy.deepcopy(old.user) if old is not None else {}
        rw = src.rw
        if user.get("no-write", False):
            rw = None
        e = E(rw, src.ro, user, None, src.is_dir, src.unknown,
              rule=("new",) if old is None else ("update", copy.deepcopy(old.tahoe)))
        entries[name] = e
        return None

    # ------------------------------------------------------------------ comparing the real listing with a model state
    def diff(self, listing, entries, times, adopt=False):
        """[] when `listing` (name -> (node, md)) is an allowed realisation of `entries`."""
        out = []
        if set(listing) != set(entries):
            out.append(("names", "listing has %r, model %r" % (sorted(set(listing) - set(entries))[:4], sorted(set(entries) - set(listing))[:4])))
            return out
        for name, (node, md) in listing.items():
            e = entries[name]
            cands = e.alts or [e]
            rw, ro = D.node_caps(node)
            user = {k: v for k, v in md.items() if k != "tahoe"}
            hit = None
            for c_ in cands:
                if _caps_match(rw, ro, c_) and D.json_equal(user, c_.user):
                    hit = c_
                    break
            if hit is None:
                c_ = cands[0]
                if not _caps_match(rw, ro, c_):
                    out.append(("caps", "%r: rw=%r ro=%r, model rw=%r ro=%r" % (name, D.show(rw), D.show(ro), D.show(c_.rw), D.show(c_.ro))))
                else:
                    out.append(("metadata", "%r: metadata %r, model %r" % (name, _short(user), _short(c_.user))))
                continue
            t = md.get("tahoe")
            rule = hit.rule
            if rule is None:
                if not _same_tahoe(t, hit.tahoe):
                    out.append(("timestamps-untouched-entry", "%r: 'tahoe' %r, was %r and the entry was not updated" % (name, t, hit.tahoe)))
            else:
                prob = self.judge_times(name, t, rule, times)
                if prob:
                    out.append(prob)
            if adopt:
                e.rw, e.ro, e.user, e.tahoe, e.rule, e.alts = rw, ro, hit.user, copy.deepcopy(t), None, None
                e.is_dir, e.unknown = hit.is_dir, hit.unknown
        return out

    def judge_times(self, name, t, rule, times):
        if not isinstance(t, dict) or not isinstance(t.get("linkmotime"), float) or not isinstance(t.get("linkcrtime"), (float, int)):
            return ("timestamps-missing", "%r: 'tahoe' sub-dict after an update is %r" % (name, t))
        if t["linkmotime"] not in times:
            return ("linkmotime-not-now", "%r: linkmotime %r is not the time handed to this update %r" % (name, t["linkmotime"], times[-3:]))
        if rule[0] == "new":
            if t["linkcrtime"] != t["linkmotime"]:
                return ("linkcrtime-of-new-link-not-now", "%r: new link has linkcrtime %r, linkmotime %r" % (name, t["linkcrtime"], t["linkmotime"]))
            if set(t) != {"linkcrtime", "linkmotime"}:
                return ("caller-tahoe-stored", "%r: new link stores 'tahoe' keys %r" % (name, sorted(t)))
            return None
        old = rule[1]
        if isinstance(old, dict) and "linkcrtime" in old:
            if t["linkcrtime"] != old["linkcrtime"]:
                return ("linkcrtime-not-preserved", "%r: linkcrtime %r before the update, %r after" % (name, old["linkcrtime"], t["linkcrtime"]))
            self.ck.hit("overwrite-preserved-linkcrtime")
            if isinstance(old.get("linkmotime"), float) and t["linkmotime"] < old["linkmotime"]:
                return ("linkmotime-went-back", "%r: linkmotime %r -> %r" % (name, old["linkmotime"], t["linkmotime"]))
            if set(t) != set(old) | {"linkmotime"}:
                return ("caller-tahoe-stored", "%r: 'tahoe' keys %r after update, %r before" % (name, sorted(t), sorted(old)))
        else:
            self.ck.skip("entry-without-linkcrtime-updated")
        return None

    def listing(self, d):
        return D.ok(self.g, d.node.list(), "list")

    def check_state(self, candidates, times, what, faulted):
        """candidates: list of (label, {dir index: entries}).  The first one that matches all directories is adopted."""
        ck = self.ck
        listings = [self.listing(d) for d in self.dirs]
        ck.mon("listing-equals-model")
        problems = None
        for label, state in candidates:
            probs = []
            for k, d in enumerate(self.dirs):
                probs += self.diff(listings[k], state[k], times)
            if not probs:
                for k, d in enumerate(self.dirs):
                    self.diff(listings[k], state[k], times, adopt=True)
                    d.entries = state[k]
                return label
            if problems is None or len(probs) < len(problems):
                problems = probs
        kind, text = problems[0]
        keymap = {"names": "listing-differs-from-model", "caps": "child-differs-from-model", "metadata": "metadata-differs-from-model",
                  "timestamps-untouched-entry": "untouched-entry-metadata-changed", "timestamps-missing": "timestamps-missing-after-update",
                  "linkmotime-not-now": "linkmotime-not-now", "linkcrtime-of-new-link-not-now": "linkcrtime-of-new-link-not-now",
                  "caller-tahoe-stored": "caller-tahoe-metadata-stored", "linkcrtime-not-preserved": "linkcrtime-not-preserved",
                  "linkmotime-went-back": "linkmotime-went-back"}
        ck.violation(keymap[kind] + ("-after-failed-op" if faulted else ""), "after %s: %s" % (what, text), self.wit(problem=text))
        # resynchronise the model with reality so that one defect is reported once per history
        for k, d in enumerate(self.dirs):
            d.entries = self.adopt_listing(listings[k], d.entries)
        return None

    def adopt_listing(self, listing, old):
        out = {}
        for name, (node, md) in listing.items():
            rw, ro = D.node_caps(node)
            o = old.get(name)
            is_dir = bool(getattr(node, "list", None)) and not node.is_unknown()
            out[name] = E(rw, ro, {k: v for k, v in md.items() if k != "tahoe"}, copy.deepcopy(md.get("tahoe")), is_dir, node.is_unknown())
        return out

    def snapshot(self):
        return [{n: e.clone() for n, e in d.entries.items()} for d in self.dirs]

    # ------------------------------------------------------------------ main
    def run(self):
        ck, g, rng = self.ck, self.g, self.rng
        from allmydata.interfaces import ExistingChildError, NoSuchChildError, ChildOfWrongTypeError
        from allmydata.immutable.upload import Data
        self.c = c = g.make_client(k=2, happy=1, n=4)
        self.tag = 0
        base = rng.choice(D.NFC_CHANGING)
        u_ = D.gen_unstable(rng)        # boundary-biased: the combining mark (often U+0300) is the largest code point
        self.names = list({base, D.nfc(base), u_, D.nfc(u_), "\u00e9", "e\u0301", "a", rng.choice(D.AWKWARD), D.gen_name(rng)})
        if D.mark_is_max(u_):
            ck.hit("non-nfc-name-whose-largest-code-point-is-the-combining-mark")
        rng.shuffle(self.names)
        self.dirs = []
        for k in range(rng.randint(1, 3)):
            version = rng.choice([D.SDMF, D.MDMF])
            ck.hit("mdmf-directory" if version == D.MDMF else "sdmf-directory")
            node = D.ok(g, c.create_dirnode(version=version), "create_dirnode")
            d = type("MDir", (), {})()
            d.node, d.cap, d.info, d.entries, d.version = node, node.get_uri(), D.CapInfo(node.get_uri()), {}, version
            self.dirs.append(d)
        self.probe_initial_children()
        nops = rng.randint(10, 30)
        sig = []
        for step in range(nops):
            env.reactor.advance(rng.choice([0, 0.25, 1.0, 60.0, 86400.0]))
            op = rng.choice(["set_uri", "set_uri", "set_node", "set_children", "add_file", "create_subdirectory", "delete", "delete",
                             "move", "move", "move", "set_metadata_for", "set_metadata_for", "query"])
            try:
                self.step(op)
            except D.OpFailed as e:
                if e.st == "err":
                    ck.violation("directory-operation-failed-on-honest-grid", "no fault active: %s" % str(e)[:300], self.wit())
                else:
                    ck.inconclusive_because("operation did not finish (%s): %s" % (e.st, e.what))
                break
            sig.append(self.log[-1].split(" ")[0] if self.log else op)
        nontrivial = {"refused-add", "rename", "metadata"} <= self.flags
        ck.case("history", key=(self.caseno, tuple(self.log)), nontrivial=nontrivial,
                sample={"dirs": len(self.dirs), "ops": self.log[:8], "n_ops": len(self.log)})

    def probe_initial_children(self):
        """Children handed to a creation call: the documented 'no-write' and 'tahoe' rules are looked at once per history."""
        ck, g = self.ck, self.g
        src = self.src_known("SSK")
        src.give_rw, src.give_ro = src.rw, src.ro
        md = {"no-write": True, "tahoe": {"linkcrtime": 1.0, "linkmotime": 2.0}, "k": 1}
        parent = self.dirs[0]
        sub = D.ok(g, parent.node.create_subdirectory("vf-initial", {"w": (self.node_of(src), md)},
                                                      mutable_version=self.rng.choice([D.SDMF, D.MDMF])), "create_subdirectory(initial)")
        res = D.ok(g, self.c.create_node_from_uri(sub.get_uri()).list(), "list")
        ck.mon("initial-children-rules")
        node, got = res["w"]
        # Lead's decision: creation with initial children is outside the C20 statement (which quantifies over
        # add / replace / delete / rename / set-metadata operations on existing directories).  The two behaviours
        # below contradict docs/frontends/webapi.rst (no-write links "will be diminished to read-only"; tahoe
        # timestamps "can be relied on") but not the property, so they are reported as observations only.
        if node.get_write_uri() is not None:
            ck.observe("initial-children-no-write-not-diminished")
        if got.get("tahoe") == md["tahoe"]:
            ck.observe("initial-children-store-caller-tahoe-metadata")
        D.ok(g, parent.node.delete("vf-initial"), "delete probe")

    # ------------------------------------------------------------------ one operation
    def step(self, op):
        ck, g, rng = self.ck, self.g, self.rng
        from allmydata.immutable.upload import Data
        d_i = rng.randrange(len(self.dirs))
        d = self.dirs[d_i]
        pre = self.snapshot()
        post = self.snapshot()
        ents = post[d_i]
        expect = None          # expected exception class name
        retcheck = None
        fault = None
        is_write = op != "query"
        if is_write and rng.random() < (.35 if op == "move" else .18):
            fault = rng.choice(["all-writes-fail", "all-writes-fail", "later-publishes-fail", "one-server-fails"])
        mid = None             # rename: the state in which both names are linked

        if op in ("set_uri", "set_node"):
            namex, src, md, (ow, owl) = self.name(), self.src_any(), self.gen_md(), self.overwrite()
            name = D.nfc(namex)
            self.note_nfc(namex, name, d)
            expect = self.model_add(ents, name, src, md, owl)
            desc = "%s(d%d,%r,%s,md=%s,overwrite=%s)" % (op, d_i, namex, src.desc, _short(md), owl)
            if op == "set_uri":
                start = lambda: d.node.set_uri(namex, src.give_rw, src.give_ro, md, overwrite=ow)
            else:
                n_ = self.node_of(src)
                start = lambda: d.node.set_node(namex, n_, md, overwrite=ow)
            self.classify_add(pre[d_i].get(name), owl, expect, md, ents.get(name), src)
        elif op == "set_children":
            (ow, owl) = self.overwrite()
            k = rng.randint(1, 3)
            batch = {}
            for _ in range(k):
                namex = self.name()
                if any(D.nfc(namex) == D.nfc(x) for x in batch):
                    continue       # colliding names inside ONE call: which one wins is left open -> not generated
                src, md = self.src_any(), self.gen_md()
                batch[namex] = (src, md)
            for namex, (src, md) in batch.items():
                name = D.nfc(namex)
                self.note_nfc(namex, name, d)
                err = self.model_add(ents, name, src, md, owl)
                self.classify_add(pre[d_i].get(name), owl, err, md, ents.get(name), src)
                if err and expect is None:
                    expect = err
            if expect:
                post = self.snapshot()            # all or nothing
            arg = {}
            for namex, (src, md) in batch.items():
                arg[namex] = (src.give_rw, src.give_ro) if md is None and rng.random() < .5 else (src.give_rw, src.give_ro, md)
            desc = "set_children(d%d,%s,overwrite=%s)" % (d_i, [(x, s.desc) for x, (s, _) in batch.items()], owl)
            start = lambda: d.node.set_children(arg, overwrite=ow)
        elif op == "add_file":
            namex, md, (ow, owl) = self.name(), self.gen_md(), self.overwrite()
            name = D.nfc(namex)
            self.tag += 1
            data = (b"f%d-" % self.tag) + bytes(rng.randrange(32, 127) for _ in range(rng.choice([0, 3, 30, 80])))
            if len(data) <= 55:
                cap = D.lit_cap(data)
                src = Src(cap, None, None, cap, False, desc="add_file/LIT")
            else:
                src = Src(None, None, None, None, False, desc="add_file/CHK")     # cap learnt from the result
            self.note_nfc(namex, name, d)
            expect = self.model_add(ents, name, src, md, owl)
            self.classify_add(pre[d_i].get(name), owl, expect, md, ents.get(name), src)
            desc = "add_file(d%d,%r,%d bytes,md=%s,overwrite=%s)" % (d_i, namex, len(data), _short(md), owl)
            start = lambda: d.node.add_file(namex, Data(data, convergence=b""), md, overwrite=ow)
            if src.ro is None:
                def retcheck(res, e=ents.get(name), exp=expect):
                    if exp is None and e is not None:
                        e.ro = res.get_uri()
                        if not e.ro.startswith(b"URI:CHK:"):
                            ck.violation("child-differs-from-model", "add_file of %d bytes returned %r" % (len(data), D.show(e.ro)), self.wit())
        elif op == "create_subdirectory":
            namex, md, (ow, owl) = self.name(), self.gen_md(), self.overwrite()
            name = D.nfc(namex)
            mutable = rng.random() < .8
            ver = rng.choice([None, D.SDMF, D.MDMF]) if mutable else None
            src = Src(None, None, "LEARN", None, True, desc="subdir/%s" % ("imm" if not mutable else ver))
            self.note_nfc(namex, name, d)
            expect = self.model_add(ents, name, src, md, owl)
            self.classify_add(pre[d_i].get(name), owl, expect, md, ents.get(name), src)
            desc = "create_subdirectory(d%d,%r,mutable=%s,version=%s,md=%s,overwrite=%s)" % (d_i, namex, mutable, ver, _short(md), owl)
            start = lambda: d.node.create_subdirectory(namex, overwrite=ow, mutable=mutable, mutable_version=ver, metadata=md)

            def retcheck(res, e=ents.get(name), exp=expect, mutable=mutable, ver=ver):
                if exp is None and e is not None:
                    info = D.CapInfo(res.get_uri())
                    want = "DIR2-MDMF" if ver == D.MDMF else "DIR2" if mutable else ("DIR2-CHK", "DIR2-LIT")
                    if info.kind is None or (info.kind.name != want and info.kind.name not in want):
                        ck.violation("child-differs-from-model", "create_subdirectory(mutable=%s, version=%s) made %r" % (mutable, ver, D.show(res.get_uri())[:30]), self.wit())
                    e.ro = info.readonly
                    e.rw = None if (e.rw is None or not info.is_write) else res.get_uri()
        elif op == "delete":
            namex = self.name_in(d, .6)
            name = D.nfc(namex)
            kw = {}
            if rng.random() < .3:
                kw["must_exist"] = False
            r = rng.random()
            if r < .25:
                kw["must_be_directory"] = True
            elif r < .5:
                kw["must_be_file"] = True
            old = ents.get(name)
            self.note_nfc(namex, name, d)
            if old is None:
                if kw.get("must_exist", True):
                    expect = "NoSuchChildError"
                    ck.hit("delete-missing-refused")
            elif kw.get("must_be_directory") and not old.is_dir and not old.unknown:
                expect = "ChildOfWrongTypeError"
                ck.hit("delete-wrong-type-refused")
            elif kw.get("must_be_file") and old.is_dir:
                expect = "ChildOfWrongTypeError"
                ck.hit("delete-wrong-type-refused")
            else:
                del ents[name]
            desc = "delete(d%d,%r,%s)" % (d_i, namex, kw)
            start = lambda: d.node.delete(namex, **kw)

            def retcheck(res, old=old, exp=expect):
                if exp is None and old is not None and not old.alts:
                    if res is None or D.node_caps(res) != (old.rw, old.ro):
                        ck.violation("operation-result-differs-from-model", "delete returned %r, removed child was rw=%r ro=%r" % (
                            res and D.show(res.get_uri()), D.show(old.rw), D.show(old.ro)), self.wit())
        elif op == "move":
            namex = self.name_in(d, .8)
            name = D.nfc(namex)
            t_i = rng.randrange(len(self.dirs)) if rng.random() < .5 else d_i
            t = self.dirs[t_i]
            r = rng.random()
            newx = None if r < .25 else (namex if r < .35 else self.name_in(t, .4))
            if r >= .35 and r < .45:
                newx = rng.choice([x for x in self.names if D.nfc(x) == name] or [namex])     # NFC-equivalent spelling of the same name
            newname = name if newx is None else D.nfc(newx)
            (ow, owl) = self.overwrite()
            if newname in self.dirs[t_i].entries and rng.random() < .5:
                from allmydata.dirnode import ONLY_FILES
                (ow, owl) = rng.choice([(False, "False"), (ONLY_FILES, "ONLY_FILES")])
            target_node = t.node if rng.random() < .7 else self.c.create_node_from_uri(t.cap)
            desc = "move_child_to(d%d,%r -> d%d,%r,overwrite=%s)" % (d_i, namex, t_i, newx, owl)
            start = lambda: d.node.move_child_to(namex, target_node, newx, overwrite=ow)
            self.flags.add("rename")
            srcent = ents.get(name)
            if t_i == d_i and newname == name:
                ck.hit("self-rename")
                if srcent is None:
                    expect = "OPEN"          # rename of a missing child onto itself: the statement leaves the result open
                    ck.skip("self-rename-of-missing-child")
            elif srcent is None:
                expect = "NoSuchChildError"
            else:
                tents = post[t_i]
                full_md = dict(copy.deepcopy(srcent.user))
                s = Src(None, None, srcent.rw, srcent.ro, srcent.is_dir, srcent.unknown, "moved")
                had = tents.get(newname)
                expect = self.model_add(tents, newname, s, full_md, owl)
                if expect is None:
                    mid = [{n: e.clone() for n, e in st.items()} for st in post]
                    del post[d_i][name]
                    ck.hit("rename-across-directories" if t_i != d_i else "rename-within-directory")
                    if had is not None:
                        ck.hit("rename-onto-existing")
                else:
                    ck.hit("rename-refused-target-exists")
        elif op == "set_metadata_for":
            namex, md = self.name_in(d, .8), (self.gen_md() or {})
            name = D.nfc(namex)
            old = ents.get(name)
            self.note_nfc(namex, name, d)
            if old is None:
                expect = "NoSuchChildError"
            else:
                user = {k: copy.deepcopy(v) for k, v in md.items() if k != "tahoe"}
                e = E(None if user.get("no-write", False) else old.rw, old.ro, user, None, old.is_dir, old.unknown,
                      rule=("update", copy.deepcopy(old.tahoe)))
                ents[name] = e
                ck.hit("metadata-updated")
                self.flags.add("metadata")
                if "tahoe" in md:
                    ck.hit("caller-tahoe-ignored")
                if user.get("no-write", False) and old.rw is not None:
                    ck.hit("no-write-diminished")
            desc = "set_metadata_for(d%d,%r,%s)" % (d_i, namex, _short(md))
            start = lambda: d.node.set_metadata_for(namex, md)
        else:
            return self.query(d_i, d)

        # ---- run it
        self.log.append(desc + (" [fault:%s]" % fault if fault else ""))
        if fault == "all-writes-fail":
            for vs in g.servers:
                vs.add_fault("raise", method=WRITEV)
        elif fault == "later-publishes-fail":
            for vs in g.servers:
                vs.add_fault("raise", method=WRITEV, after_nth=1)
        elif fault == "one-server-fails":
            rng.choice(g.servers).add_fault("raise", method=WRITEV)
        mark = self.shim.mark()
        try:
            st, res = g.wait(start())
        except Exception as ex:   # noqa  synchronous raise (precondition / cap constraint): counts as a failed operation
            from twisted.python.failure import Failure
            st, res = "err", Failure(ex)
        times = self.shim.since(mark)
        for vs in g.servers:
            del vs.faults[:]
        if st not in ("ok", "err"):
            raise D.OpFailed(st, res, desc)
        got = None if st == "ok" else res.type.__name__
        ck.mon("operation-result")

        if not fault:
            if expect == "OPEN":
                self.check_state([("unchanged", pre)], times, desc, False)
                return
            if got != expect:
                if expect == "ExistingChildError" and got is None:
                    key = "no-overwrite-add-replaced-entry"
                elif got is not None and expect is None and res.check(*self.capconstraint()):
                    # unknown/alleged caps the API refuses: not a name-map matter
                    ck.skip("cap-refused-by-constraint")
                    self.check_state([("unchanged", pre)], times, desc, False)
                    return
                else:
                    key = "operation-result-differs-from-model"
                ck.violation(key, "%s: %s, model expects %s" % (desc, got or "success", expect or "success"),
                             self.wit(error=D.fdesc(res) if got else None))
            if st == "ok" and retcheck is not None:
                retcheck(res)
            cands = [("post", post)] if got is None else [("unchanged", pre)]
            if got != expect:
                cands = [("post", post), ("unchanged", pre)] if got is None else [("unchanged", pre), ("post", post)]
            label = self.check_state(cands, times, desc, False)
            ck.mon("timestamps")
            if expect is not None and label == "unchanged":
                ck.mon("refused-op-changed-nothing")
            return

        # ---- an injected storage failure was active
        if st == "ok":
            if expect not in (None, "OPEN"):
                ck.violation("operation-result-differs-from-model", "%s: success, model expects %s" % (desc, expect), self.wit())
            if retcheck is not None:
                retcheck(res)
            self.check_state([("post", post), ("unchanged", pre)] if expect is None else [("unchanged", pre)], times, desc, False)
            ck.hit("op-survived-injected-fault")
            return
        ck.hit("op-failed-by-injected-fault")
        ck.mon("failed-op-state")
        cands = [("unchanged", pre)]
        if op == "move":
            ck.hit("rename-failed-by-injected-fault")
            if mid is not None:
                cands.append(("both-linked", mid))
        if fault == "one-server-fails" and expect is None:
            cands.append(("post", post))
        label = self.check_state(cands, times, desc, True)
        if op == "move":
            ck.mon("failed-rename-keeps-source")
            # the statement's clause, judged directly on a fresh listing
            name = D.nfc(namex)
            srcpre = pre[d_i].get(name)
            if srcpre is not None:
                now_ = self.listing(d)
                if name not in now_ or D.node_caps(now_[name][0]) != (srcpre.rw, srcpre.ro):
                    ck.violation("failed-rename-lost-the-source-link", "%s failed (%s) and %r is no longer linked in the source directory"
                                 % (desc, got, name), self.wit(error=D.fdesc(res)))

    def capconstraint(self):
        from allmydata.interfaces import CapConstraintError
        return (CapConstraintError,)

    def note_nfc(self, namex, name, d):
        if namex != name and name in d.entries:
            self.ck.hit("nfc-equivalent-name-hit-existing-entry")
        elif namex == name and any(D.nfc(x) == name and x != name for x in self.names) and name in d.entries:
            self.ck.hit("nfc-equivalent-name-hit-existing-entry")

    def classify_add(self, old, owl, err, md, new, src):
        ck = self.ck
        if err == "ExistingChildError":
            self.flags.add("refused-add")
            if owl == "False":
                ck.hit("no-overwrite-add-refused")
            else:
                ck.hit("only-files-refused-directory")
        elif old is not None and owl == "ONLY_FILES":
            ck.hit("only-files-replaced-file")
        if err is None and md is not None and "tahoe" in md:
            ck.hit("caller-tahoe-ignored")
        if err is None and new is not None and new.user.get("no-write", False) and src.rw not in (None,):
            ck.hit("no-write-diminished")

    # ------------------------------------------------------------------ read-only operations
    def query(self, d_i, d):
        ck, g, rng = self.ck, self.g, self.rng
        namex = self.name()
        name = D.nfc(namex)
        e = d.entries.get(name)
        q = rng.choice(["get", "get_metadata_for", "has_child", "get_child_and_metadata"])
        self.log.append("%s(d%d,%r)" % (q, d_i, namex))
        st, res = g.wait(getattr(d.node, q)(namex))
        ck.mon("query-result")
        if st not in ("ok", "err"):
            raise D.OpFailed(st, res, q)
        w = self.wit(query=q, name=namex)
        if q == "has_child":
            if st != "ok" or res != (e is not None):
                ck.violation("query-differs-from-model", "has_child(%r) -> %s %r, model %r" % (namex, st, res, e is not None), w)
            return
        if e is None:
            if st == "ok":
                ck.violation("query-differs-from-model", "%s(%r) succeeded for a name the model does not hold" % (q, namex), w)
            elif q != "get_metadata_for" and res.type.__name__ != "NoSuchChildError":
                ck.violation("query-differs-from-model", "%s(%r) of a missing child raised %s" % (q, namex, res.type.__name__), w)
            return
        if st != "ok":
            ck.violation("query-differs-from-model", "%s(%r) failed (%s) for an existing child" % (q, namex, D.fdesc(res)), w)
            return
        node = res if q == "get" else res[0] if q == "get_child_and_metadata" else None
        md = res if q == "get_metadata_for" else res[1] if q == "get_child_and_metadata" else None
        if node is not None and D.node_caps(node) != (e.rw, e.ro):
            ck.violation("query-differs-from-model", "%s(%r) -> rw=%r ro=%r, model rw=%r ro=%r" % (
                q, namex, D.show(node.get_write_uri()), D.show(node.get_readonly_uri()), D.show(e.rw), D.show(e.ro)), w)
        if md is not None:
            user = {k: v for k, v in md.items() if k != "tahoe"}
            if not D.json_equal(user, e.user) or not _same_tahoe(md.get("tahoe"), e.tahoe):
                ck.violation("query-differs-from-model", "%s(%r) metadata %r, model %r + %r" % (q, namex, _short(md), _short(e.user), e.tahoe), w)


def _caps_match(rw, ro, e):
    if e.ro is None:
        # cap of a child created by the operation itself (add_file / create_subdirectory), not yet learnt from its result
        return rw is None if e.rw is None else True
    return (rw, ro) == (e.rw, e.ro)


def _same_tahoe(a, b):
    return (a is None and b is None) or (a is not None and b is not None and D.json_equal(a, b))


def _short(x):
    s = repr(x)
    return s if len(s) < 120 else s[:120] + "..."


# MUST_CATCH (selftest/breaks_c20.py; each exits 1 with a key OTHER than the two initial-children-* keys, which the
# unchanged tree reports and the final report analyses):
#   c20-adder-ignores-no-overwrite     Adder.modify: `if not self.overwrite` removed      -> no-overwrite-add-replaced-entry
#   c20-only-files-inverted            ONLY_FILES refuses files instead of directories     -> operation-result-differs-from-model, child-differs-from-model
#   c20-move-deletes-before-adding     move_child_to deletes the source first              -> failed-rename-lost-the-source-link
#   c20-update-resets-linkcrtime       update_metadata always sets linkcrtime = now        -> linkcrtime-not-preserved
#   c20-adder-does-not-normalize       Adder.modify uses namex as given                    -> no-overwrite-add-replaced-entry, child-differs-from-model
#   c20-self-rename-shortcut-removed   the redundant-rename shortcut removed               -> listing-differs-from-model (child deleted)
#   c20-caller-tahoe-kept              update_metadata keeps the caller's 'tahoe' dict     -> caller-tahoe-metadata-stored, linkcrtime-of-new-link-not-now
#   c20-no-write-ignored-by-setter     MetadataSetter does not diminish on 'no-write'      -> child-differs-from-model
#   c20-deleter-ignores-must-be-file   Deleter must_be_file check removed                  -> operation-result-differs-from-model
#   c20-linkmotime-not-updated         linkmotime kept when present                        -> linkmotime-not-now
#   seeded/C20-2                       Adder checks existence only when first_time: after a real write collision the retry
#                                      replaces the other writer's entry -> no-overwrite-add-replaced-entry (two-writer family)
