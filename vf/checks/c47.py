"""C47 a successful mutable publish is recoverable."""
META = {
    "level": "exploration",
    "technique": "runtime monitoring at the wire of real mutable publishes on an in-process grid under generated server fault plans and stale-servermap scenarios; acknowledgement-counting oracle plus read-back from the acknowledging servers",
    "text": "Runs the real Publish (initial creation, overwrite, modify, upload with a servermap, version overwrite, in-place MDMF update; SDMF and MDMF; k<=N<=10; 1..12 servers; three transport profiles) while servers fail, disconnect, never answer, answer late, answer with an error after having written, are dead or are read-only/full, on chosen calls of slot_testv_and_readv_and_writev. Every write request and its answer is taken from the wire log; the version (seqnum, root hash) carried by a write is parsed from its write vectors. Oracle: the publish Deferred called back => answers with wrote=True that reached the client cover >= k distinct share numbers of one version, no answer to a write of that version said wrote=False, no answer's read-back showed a share of another version on a share number this publish does not write to on that server; the acknowledged shares on disk carry that version; a fresh client reads exactly the new content from a MODE_CHECK servermap with all servers up and, with download_best_version, from the acknowledging servers alone. Fewer than k share numbers acknowledged and every request answered or failed => the publish must errback. no answer showed that a share number this publish wrote held a version it neither expected to replace (its own test vectors) nor wrote. Stale-servermap scenarios (another writer got in between completely or partially; a share unknown to the servermap appears on a server; a lost share whose number turns up again, in another version, on the server the homeless share is placed on) produce wrote=False answers and surprising read-backs. Sampled, not exhaustive.",
    "note": "Acknowledgement = an answer (wrote=True, ...) delivered to the client before its Deferred fired. Servers that never answer make the publish wait forever; such cases are counted and not judged for 'must errback'. Read-only and full storage servers do not refuse mutable writes in this code base (observed, counted). Trusts the in-process Wire and the virtual reactor.",
}
LEVEL = "exploration"
BUDGET = {"quick": 42, "thorough": 300}
SHARDS = {"quick": 1, "thorough": 12}

from vf import env  # noqa
import os
import shutil
import struct

W = "slot_testv_and_readv_and_writev"
R = "slot_readv"


def run(ck):
    ck.rule = ("case = (scenario create/update/stale-servermap/unknown-share, format, k<=N<=10, 1..12 servers, read-only/full "
               "servers, operation kind, size, per-server fault rule (raise/hang/delay/disconnect/lose-response/error-after-"
               "write/dead/zombie on the nth or every write call, raise on reads), number of faulty servers biased so that "
               "k-1, k or k+1 share numbers survive, transport profile, schedule seed); distinct = full case description; "
               "non-trivial = a fault fired, a write was refused or a surprise share was read back")
    ck.extra["odd_errors"] = {}
    i = 0
    while ck.more(min_cases=120):
        i += 1
        if not ck.mine(i):
            continue
        rng = ck.rng("case", i)
        case = gen_case(rng, ck.tier)
        from vf.grid import VGrid, KEYPOOL
        KEYPOOL.rewind()
        g = VGrid(nservers=case["nservers"], seed=rng.getrandbits(32), profile=case["profile"],
                  readonly=set(case["readonly"]), reserved={j: 10 ** 15 for j in case["full"]})
        try:
            with ck.watchdog(240, "case %d %r" % (i, case)):
                Case(ck, g, case, rng).run()
        finally:
            g.close()
        if ck.tier == "quick" and ck.evaluations >= 600:
            break
    ck.observe("eventual-exceptions", len(env.evq.exceptions))
    ck.require_monitor("success-implies-k-acknowledged", "success-implies-no-refusal-or-surprise",
                       "acknowledged-shares-on-disk", "readback-all-servers", "readback-acknowledging-servers-only",
                       "fewer-than-k-implies-errback")
    ck.require_reach("publish-succeeded", "publish-succeeded-with-failed-servers", "success-with-exactly-k-acknowledged",
                     "errback-not-enough-servers", "errback-uncoordinated-write", "fewer-than-k-acknowledged",
                     "k-minus-1-acknowledged", "write-refused-on-wire", "surprise-share-read-back",
                     "written-share-number-held-unexpected-version",
                     "publish-waits-for-silent-server", "server-error-on-write", "server-disconnect-on-write",
                     "late-answer", "error-after-write", "scenario-create", "scenario-update", "in-place-update",
                     "writer-defaults-differ-from-file", "stale-duplicate-share-present",
                     "duplicate-homes-with-k-surviving-writers",
                     "sdmf", "mdmf")


# ------------------------------------------------------------------ generation

ACTIONS = ["raise", "raise", "raise-nth", "hang", "delay", "delay", "disconnect", "lose-response",
           "error-after-write", "error-after-write", "dead", "zombie", "read-raise"]


def gen_case(rng, tier):
    n = rng.choice([1, 2, 3, 3, 4, 5, 5, 6, 8, 10])
    k = rng.randint(1, n)
    if rng.random() < .3:
        k = rng.choice([1, n, max(1, n - 1), min(n, 3)])
    nservers = rng.choice([1, 2, 3, n, n, n + 1, n + 2, 12, rng.randint(1, 12)])
    nservers = max(1, min(12, nservers))
    scenario = rng.choice(["create"] * 4 + ["update"] * 6 + ["stale-map"] * 2 + ["unknown-share"] * 2 +
                          ["homeless-collision"] * 2 + ["stale-duplicate"] * 3)
    if scenario == "homeless-collision":
        nservers = min(nservers, n)          # every server holds a share (needed to plant a foreign one on any of them)
    if scenario == "stale-duplicate":
        n = rng.choice([2, 3, 4, 5, 6])
        k = rng.randint(1, n)
        nservers = n + rng.choice([0, 1, 2])
    fmt = rng.choice(["SDMF", "MDMF"])
    op = "create"
    if scenario == "update":
        op = rng.choice(["overwrite", "overwrite", "modify", "upload", "v-overwrite", "update", "update"])
    elif scenario in ("stale-map", "unknown-share", "homeless-collision"):
        op = "upload"
    elif scenario == "stale-duplicate":
        op, fmt = "update", "MDMF"
    big = tier != "quick" and rng.random() < .08
    size = rng.choice([1, 2, 55, 56, 100, 1000, 3000]) if not big else rng.choice([131072, 131073, 300000])
    ro = sorted(rng.sample(range(nservers), rng.randint(0, nservers))) if rng.random() < .15 else []
    full = sorted(rng.sample(range(nservers), rng.randint(0, nservers))) if rng.random() < .1 else []
    if scenario == "stale-duplicate":
        size = rng.choice([131073, 150000, 262145, 300000])      # several segments: an in-place update rewrites only some
    # the client that performs the operation may have other default encoding parameters than the file (tahoe.cfg changed
    # since the file was made, or another gateway): it is then a fresh node object that has never downloaded the file
    writer_kn = None
    if scenario == "update" and rng.random() < .35:
        n2 = rng.choice([1, 2, 3, 4, 5, 6, 8, 10])
        k2 = rng.randint(1, n2)
        if rng.random() < .6:
            n2, k2 = n, rng.randint(1, n)          # same N, other k
        if (k2, n2) != (k, n):
            writer_kn = (k2, n2)
            if op == "update" and rng.random() < .8:
                size = rng.choice([131073, 150000, 262145, 300000])   # several segments: only some are re-encoded
    directed = None
    if scenario == "update" and n >= 2 and rng.random() < .12:
        # fault-free in-place update of a multi-segment MDMF file by a client with another default k
        directed, op, fmt = "writer-kn", "update", "MDMF"
        k = rng.randint(1, n)
        writer_kn = (rng.choice([x for x in range(1, n + 1) if x != k]), n)
        size = rng.choice([131073, 150000, 262145, 300000])
    elif scenario == "update" and op in ("update", "modify") and rng.random() < .6:
        # one acknowledgement lost after the write was applied (the writer is then surprised by its own share and
        # modify()/SDMF update() retry), optionally with another server that keeps the old version
        directed = rng.choice(["lost-ack", "lost-ack+failing-server", "lost-ack+failing-server"])
        nservers = max(2, min(nservers, max(2, n // 2)))
        if directed != "lost-ack":
            k = rng.randint(1, max(1, n // nservers))      # the old version stays recoverable on the failing server
    return dict(scenario=scenario, fmt=fmt, k=k, n=n, nservers=nservers, op=op, size=size, readonly=ro, full=full,
                directed=directed, writer_kn=writer_kn,
                profile=rng.choice(["fifo", "per-server-fifo", "free"]),
                target=rng.choice(["k-1", "k", "k", "k+1", "0", "all", "random", "random"]))


def parse_header(b):
    if b is None or len(b) < 41:
        return None
    ver, seq, rh = struct.unpack(">BQ32s", bytes(b[:41]))
    return (ver, seq, rh)


def carried_version(datav):
    """(format byte, seqnum, root hash) written to the start of a share by a list of write vectors."""
    buf, have = bytearray(41), bytearray(41)
    for (off, data) in datav:
        if off < 41:
            m = min(41 - off, len(data))
            buf[off:off + m] = data[:m]
            have[off:off + m] = b"\x01" * m
    if not all(have):
        return None
    return parse_header(buf)


def carried_kn(datav):
    """(k, N) of the version a list of write vectors puts into a share header, if they cover those two bytes."""
    v = carried_version(datav)
    if v is None:
        return None
    at = 41 if v[0] == 1 else 57           # MDMF: >BQ32s BB..., SDMF: >BQ32s16s BB...
    buf, have = bytearray(2), bytearray(2)
    for (off, data) in datav:
        for j in (0, 1):
            if off <= at + j < off + len(data):
                buf[j] = data[at + j - off]
                have[j] = 1
    return (buf[0], buf[1]) if all(have) else None


class Case(object):
    def __init__(self, ck, g, case, rng):
        self.ck, self.g, self.case, self.rng = ck, g, case, rng
        self.lie = {}            # server name -> dict(nth, seen): answer with an error after the write happened
        self.lie_pairs = set()   # (server name, shnum): the write to that share is applied, its answer is an error
        self.cur = {}
        self.faultdesc = {}
        self.intruder_content = None
        g.post_delivery = self._post
        g.mutate_response = self._mutate

    # -- hooks
    def _post(self, vs, meth, args, rec):
        self.cur["rec"] = rec

    def _mutate(self, vs, meth, args, result, obj):
        if meth == W and self.lie_pairs and any((vs.name, sh) in self.lie_pairs for sh in args[2]):
            from twisted.python.failure import Failure
            from foolscap.api import RemoteException
            from vf.grid import InjectedError
            self.cur["rec"]["vf_lied"] = True
            return Failure(RemoteException(Failure(InjectedError("injected failure after the write was applied"))))
        if meth == W and vs.name in self.lie:
            plan = self.lie[vs.name]
            plan["seen"] += 1
            if plan["nth"] is None or plan["seen"] == plan["nth"]:
                from twisted.python.failure import Failure
                from foolscap.api import RemoteException
                from vf.grid import InjectedError
                self.cur["rec"]["vf_lied"] = True
                return Failure(RemoteException(Failure(InjectedError("injected failure after the write was applied"))))
        return result

    def client(self):
        c = self.case
        return self.g.make_client(k=c["k"], happy=1, n=c["n"])

    def wait(self, d, horizon=900.0):
        return self.g.wait(d, horizon=horizon)

    def desc(self, **kw):
        d = dict(self.case, faults=self.faultdesc)
        d.update(kw)
        return d

    # -- fault plans
    def install_faults(self, holders):
        """holders: {server index: set(shnums)} (empty for a create: placement unknown in advance)."""
        from vf.grid import Fault
        rng, case, g = self.rng, self.case, self.g
        k, n, S = case["k"], case["n"], case["nservers"]
        order = list(range(S))
        rng.shuffle(order)
        tgt = {"k-1": k - 1, "k": k, "k+1": k + 1, "0": 0, "all": n, "random": rng.randint(0, n)}[case["target"]]
        tgt = max(0, min(n, tgt))
        faulty = []
        if case.get("directed") == "writer-kn":
            return
        if case.get("directed") and holders:
            multi = [j for j in order if len(holders.get(j, ())) >= 2] or [j for j in order if j in holders]
            a = multi[0]
            self.lie[g.servers[a].name] = dict(nth=1, seen=0)
            self.faultdesc[g.servers[a].name] = dict(action="error-after-write", nth=1)
            others = [j for j in order if j != a and j in holders]
            if case["directed"] != "lost-ack" and others:
                g.servers[others[0]].add_fault("raise", method=W)
                self.faultdesc[g.servers[others[0]].name] = dict(action="raise")
            return
        if holders:
            def surviving(fs):
                s = set()
                for j, shs in holders.items():
                    if j not in fs:
                        s |= shs
                return len(s)
            for j in order:
                if surviving(set(faulty)) <= tgt:
                    break
                if j in holders:
                    faulty.append(j)
            # sometimes also break servers that hold nothing (they may be chosen for homeless shares)
            for j in order:
                if j not in holders and rng.random() < .2:
                    faulty.append(j)
        else:
            per = max(1.0, float(n) / S)                 # shares per server when round-robin over S servers
            keep = int(round(tgt / per)) if case["target"] != "random" else rng.randint(0, S)
            keep = max(0, min(S, keep + rng.choice([0, 0, 0, 1, -1])))
            faulty = order[:S - keep]
        nth_max = max(1, (n + S - 1) // S)
        for j in faulty:
            vs = g.servers[j]
            act = rng.choice(ACTIONS)
            d = dict(action=act)
            if act == "raise":
                vs.add_fault("raise", method=W)
            elif act == "raise-nth":
                d["nth"] = rng.randint(1, nth_max + (1 if case["scenario"] != "create" else 0))
                vs.add_fault("raise", method=W, nth=d["nth"])
            elif act == "hang":
                d["nth"] = rng.choice([None, 1, rng.randint(1, nth_max)])
                vs.add_fault("hang", method=W, nth=d["nth"])
            elif act == "delay":
                d["delay"] = rng.choice([0.5, 5.0, 30.0, 120.0])
                d["nth"] = rng.choice([None, 1])
                vs.add_fault("delay", method=W, nth=d["nth"], delay=d["delay"])
                if rng.random() < .5:                     # a slow server that then also fails
                    d["then"] = "raise"
                    vs.faults.insert(0, Fault("raise", method=W, nth=rng.randint(1, nth_max)))
            elif act == "disconnect":
                d["nth"] = rng.choice([1, 1, rng.randint(1, nth_max)])
                vs.add_fault("disconnect", method=W, nth=d["nth"])
            elif act == "lose-response":
                d["nth"] = rng.choice([None, 1])
                vs.add_fault("lose-response", method=W, nth=d["nth"])
            elif act == "error-after-write":
                d["nth"] = rng.choice([None, None, 1, rng.randint(1, nth_max)])
                self.lie[vs.name] = dict(nth=d["nth"], seen=0)
            elif act == "dead":
                vs.disconnect()
            elif act == "zombie":
                vs.disconnect()
                vs.zombie = True
            elif act == "read-raise":
                vs.add_fault("raise", method=R)
                if rng.random() < .5:
                    d["also"] = "write-raise"
                    vs.add_fault("raise", method=W)
            self.faultdesc[vs.name] = d

    def clear_faults(self):
        self.lie.clear()
        self.lie_pairs.clear()
        for vs in self.g.servers:
            vs.faults = []
            vs.zombie = False
            vs.hidden = False
            if not vs.connected:
                vs.start()

    # -- the case
    def run(self):
        from allmydata.mutable.publish import MutableData
        from allmydata.mutable.common import MODE_WRITE
        from allmydata.interfaces import SDMF_VERSION, MDMF_VERSION
        ck, g, case, rng = self.ck, self.g, self.case, self.rng
        ver = MDMF_VERSION if case["fmt"] == "MDMF" else SDMF_VERSION
        ck.hit(case["fmt"].lower())
        data = rng.randbytes(case["size"])
        c = self.client()
        if case["scenario"] == "create":
            ck.hit("scenario-create")
            self.install_faults({})
            n0 = len(g.calls)
            st, res = self.wait(c.create_mutable_file(MutableData(data), version=ver))
            cap = res.get_uri() if st == "ok" else None
            self.judge(n0, st, res, data, cap, "create")
            return
        # honest creation first
        st, node = self.wait(c.create_mutable_file(MutableData(data), version=ver))
        if st != "ok":
            ck.observe("honest-create-failed")
            return
        cap = node.get_uri()
        si = node.get_storage_index()
        holders = {}
        for (vs, shnum, path) in g.find_shares(si):
            holders.setdefault(vs.index, set()).add(shnum)
        if case.get("writer_kn"):
            ck.hit("writer-defaults-differ-from-file")
            c = self.g.make_client(k=case["writer_kn"][0], happy=1, n=case["writer_kn"][1])
            node = c.create_node_from_uri(cap)
        elif rng.random() < .5:
            c = self.client()
            node = c.create_node_from_uri(cap)
        op = case["op"]
        if case["scenario"] == "stale-duplicate":
            return self.stale_duplicate(c, node, cap, si, data)
        new = rng.randbytes(rng.choice([1, 57, 100, 1000, 2500, case["size"]]))
        if case["scenario"] == "update":
            ck.hit("scenario-update")
            if op == "upload":
                st, smap = self.wait(node.get_servermap(MODE_WRITE))
                if st != "ok":
                    ck.observe("honest-mapupdate-failed")
                    return
            elif op in ("v-overwrite", "update"):
                st, best = self.wait(node.get_best_mutable_version())
                if st != "ok":
                    ck.observe("honest-mapupdate-failed")
                    return
            self.install_faults(holders)
            n0 = len(g.calls)
            if op == "overwrite":
                d = node.overwrite(MutableData(new))
            elif op == "modify":
                d = node.modify(lambda old, sm, first: new)
            elif op == "upload":
                d = node.upload(MutableData(new), smap)
            elif op == "v-overwrite":
                d = best.overwrite(MutableData(new))
            else:
                off = rng.choice([0, 1, len(data) // 2, len(data) - 1, len(data)])
                x = new[:rng.choice([1, 10, len(new)])]
                new = data[:off] + x + data[off + len(x):]
                d = best.update(MutableData(x), off)
                if case["fmt"] == "MDMF":
                    ck.hit("in-place-update")
            st, res = self.wait(d)
            self.judge(n0, st, res, new, cap, op, prev=data)
            return
        if case["scenario"] == "homeless-collision":
            return self.homeless_collision(c, node, cap, si, new)
        # stale servermap scenarios: the writer's view is older than the grid
        planted = None
        if case["scenario"] == "unknown-share":
            ck.hit("scenario-unknown-share")
            cands = [(vs, shs) for vs in g.servers for shs in [vs.shares_of(si)] if shs and len(shs) < case["n"]]
            if not cands:
                ck.skip("no-server-for-planted-share")
                return
            pvs, shs = rng.choice(cands)
            a = rng.choice(sorted(shs))
            b = rng.choice([x for x in range(case["n"]) if x not in shs])
            with open(shs[a], "rb") as f:
                planted = (os.path.join(os.path.dirname(shs[a]), "%d" % b), f.read())
            third = rng.random() < .75
            self.faultdesc["planted"] = dict(server=pvs.name, copy_of=a, as_shnum=b,
                                             version="older-than-the-replaced-one" if third else "the-replaced-one")
            if third:
                # move the file on by one honest version: the planted share is then neither the version the writer
                # expects to replace nor the one it writes
                st, r = self.wait(node.overwrite(MutableData(rng.randbytes(33))))
                if st != "ok":
                    ck.observe("honest-overwrite-failed")
                    return
        st, smap = self.wait(node.get_servermap(MODE_WRITE))
        if st != "ok":
            ck.observe("honest-mapupdate-failed")
            return
        if case["scenario"] == "stale-map":
            ck.hit("scenario-stale-map")
            away = [vs for vs in g.servers if rng.random() < rng.choice([0.0, 0.3, 0.6])]
            for vs in away:
                vs.disconnect()
            intruder = self.client().create_node_from_uri(cap)
            self.intruder_content = rng.randbytes(77)
            st2, r2 = self.wait(intruder.overwrite(MutableData(self.intruder_content)))
            self.faultdesc["intruder"] = dict(status=st2, servers_away=[vs.name for vs in away])
            for vs in away:
                vs.start()
        else:
            with open(planted[0], "wb") as f:
                f.write(planted[1])
        if rng.random() < .4:
            self.install_faults(holders)
        n0 = len(g.calls)
        st, res = self.wait(node.upload(MutableData(new), smap))
        self.judge(n0, st, res, new, cap, "upload-stale")

    def stale_duplicate(self, c, node, cap, si, data):
        """A share number exists twice: its old server missed one overwrite (the share was re-created elsewhere) and is
        back with the previous version.  Then an in-place update is made while the server with the current copy fails."""
        from allmydata.mutable.publish import MutableData
        ck, g, rng, case = self.ck, self.g, self.rng, self.case
        k = case["k"]
        ck.hit("scenario-stale-duplicate")
        shares = g.find_shares(si)
        svs, a, _ = rng.choice(shares)
        svs.disconnect()
        mid = rng.randbytes(len(data))
        st, r = self.wait(node.overwrite(MutableData(mid)))
        svs.start()
        if st != "ok":
            ck.observe("honest-overwrite-failed")
            return
        where = {}
        for (vs, shnum, path) in g.find_shares(si):
            where.setdefault(shnum, []).append(vs)
        cur = [vs for vs in where.get(a, []) if vs is not svs]
        if not cur:
            ck.skip("share-was-not-re-created-elsewhere")
            return
        ck.hit("stale-duplicate-share-present")
        if rng.random() < .5:
            node = self.client().create_node_from_uri(cap)
        st, best = self.wait(node.get_best_mutable_version())
        if st != "ok":
            ck.observe("honest-mapupdate-failed")
            return
        mode = rng.choice(["current-copy-fails", "current-copy-fails", "current-copy-fails+only-k", "no-fault",
                           "k-writers-survive-on-k-1-share-numbers", "k-writers-survive-on-k-1-share-numbers"])
        if mode.startswith("k-writers") and k < 2:
            mode = "current-copy-fails"
        op = "update"
        if mode.startswith("k-writers"):
            op = rng.choice(["overwrite", "update"])
            if rng.random() < .6:
                # one more honest version: both homes of the share number now hold the current version
                mid = rng.randbytes(len(data))
                st, r = self.wait(node.overwrite(MutableData(mid)))
                if st != "ok":
                    ck.observe("honest-overwrite-failed")
                    return
                st, best = self.wait(node.get_best_mutable_version())
                if st != "ok":
                    ck.observe("honest-mapupdate-failed")
                    return
        self.faultdesc["duplicate"] = dict(shnum=a, stale_on=svs.name, current_on=[vs.name for vs in cur], mode=mode, op=op)
        if mode.startswith("k-writers"):
            # acknowledgements survive for both homes of the duplicated number and for one home of k-2 other numbers: k
            # writers are left, they cover k-1 share numbers
            survive = set([(svs.name, a), (cur[0].name, a)])
            others = [sh for sh in sorted(where, key=lambda x: rng.random()) if sh != a][:k - 2]
            for sh in others:
                survive.add((where[sh][0].name, sh))
            for sh, vss in where.items():
                for vs in vss:
                    if (vs.name, sh) not in survive:
                        self.lie_pairs.add((vs.name, sh))
            ck.hit("duplicate-homes-with-k-surviving-writers")
        elif mode != "no-fault":
            for vs in cur:
                vs.add_fault("raise", method=W)
                self.faultdesc[vs.name] = dict(action="raise")
            if mode.endswith("only-k"):
                # besides the stale copy, keep servers for k-1 other share numbers only
                keep, have = set([svs.index]), set([a])
                for shnum in sorted(where, key=lambda x: rng.random()):
                    if len(have) >= k:
                        break
                    if shnum not in have:
                        keep.add(where[shnum][0].index)
                        have |= set(sh for sh, vss in where.items() if where[shnum][0] in vss)
                for vs in g.servers:
                    if vs.index not in keep and vs not in cur:
                        vs.add_fault("raise", method=W)
                        self.faultdesc[vs.name] = dict(action="raise")
        off = rng.choice([0, 1, 100, len(mid) // 2, 131072, len(mid) - 1])
        off = min(off, len(mid) - 1)
        x = rng.randbytes(rng.choice([1, 7, 100]))
        new = mid[:off] + x + mid[off + len(x):]
        n0 = len(g.calls)
        if op == "overwrite":
            new = rng.randbytes(rng.choice([100, 3000, len(mid)]))
            st, res = self.wait(node.overwrite(MutableData(new)))
        else:
            ck.hit("in-place-update")
            st, res = self.wait(best.update(MutableData(x), off))
        self.judge(n0, st, res, new, cap, op, prev=mid)

    def homeless_collision(self, c, node, cap, si, new):
        """A share is lost, the writer maps the grid (that share number is now homeless), then a share with that number -
        of a version that is neither the one the writer replaces nor the one it writes - turns up on the very server the
        writer is going to put the homeless share on.  Its 'this share must not exist yet' test vector has to be refused."""
        from allmydata.mutable.publish import MutableData
        from allmydata.mutable.common import MODE_WRITE
        ck, g, rng = self.ck, self.g, self.rng
        ck.hit("scenario-homeless-collision")
        saved = {}
        for (vs, shnum, path) in g.find_shares(si):
            if vs.index not in saved:
                with open(path, "rb") as f:
                    saved[vs.index] = f.read()                      # a share file of version #1 made by that server
        st, r = self.wait(node.overwrite(MutableData(rng.randbytes(44))))      # everything moves on to version #2
        if st != "ok":
            ck.observe("honest-overwrite-failed")
            return
        shares = g.find_shares(si)
        copies = {}
        for (vs, shnum, path) in shares:
            copies[shnum] = copies.get(shnum, 0) + 1
        single = [(vs, shnum, path) for (vs, shnum, path) in shares if copies[shnum] == 1]
        if not single:
            ck.skip("no-share-to-lose")
            return
        xvs, s, path = rng.choice(single)
        os.remove(path)                                              # the lost share
        st, smap = self.wait(node.get_servermap(MODE_WRITE))
        if st != "ok":
            ck.observe("honest-mapupdate-failed")
            return
        # where will the homeless share go?  (fewest shares, then permuted order - public broker API; a wrong guess only
        # turns the case into an ordinary surprise-share case)
        order = [srv.get_serverid() for srv in c.storage_broker.get_servers_for_psi(si)]
        byid = dict((vs.serverid, vs) for vs in g.servers)
        ranked = sorted(((len(byid[sid].shares_of(si)), pos, byid[sid]) for pos, sid in enumerate(order)), key=lambda t: t[:2])
        yvs = ranked[0][2]
        if yvs.index not in saved:
            ck.skip("no-foreign-share-available-for-that-server")
            return
        d = yvs.sharedir(si)
        os.makedirs(d, exist_ok=True)
        with open(os.path.join(d, "%d" % s), "wb") as f:
            f.write(saved[yvs.index])
        self.faultdesc["homeless"] = dict(lost=(xvs.name, s), foreign_share_of_version_1_on=yvs.name)
        n0 = len(g.calls)
        st, res = self.wait(node.upload(MutableData(new), smap))
        self.judge(n0, st, res, new, cap, "upload-homeless")

    # -- the oracle
    def judge(self, n0, st, res, content, cap, opname, prev=None):
        ck, g, case = self.ck, self.g, self.case
        k = case["k"]
        byname = dict((vs.name, vs) for vs in g.servers)
        recs = [r for r in g.calls[n0:] if r["method"] == W]
        # versions carried by the writes of this operation
        vers = {}
        for r in recs:
            r["_carried"] = {}
            for shnum, (testv, datav, newlen) in r["args"][2].items():
                v = carried_version(datav)
                r["_carried"][shnum] = v
                if v is not None:
                    vers[v] = vers.get(v, 0) + 1
        V = max(vers, key=lambda v: (v[1], vers[v])) if vers else None
        for r in recs:
            for shnum, (testv, datav, newlen) in r["args"][2].items():
                kn = carried_kn(datav)
                if kn is not None and r["_carried"].get(shnum) == V and kn[0] >= 1:
                    k = kn[0]            # "at least k": the k the new version announces in its signed header
        if st == "ok" and not recs and prev is not None and prev == content:
            # the operation changed nothing and published nothing (e.g. an update writing the bytes already there)
            ck.skip("operation-without-publish")
            return
        written_to = {}
        for r in recs:
            written_to.setdefault(r["server"], set()).update(r["args"][2].keys())
        # versions the writer expects to replace (specimens of its test vectors)
        expected_old = set()
        for r in recs:
            for shnum, (testv, datav, newlen) in r["args"][2].items():
                for tv in testv:
                    h = parse_header(tv[-1])
                    if h is not None:
                        expected_old.add(h[1:])
        acked, refused, surprises, pending, lied, errors, late = {}, [], [], [], 0, 0, 0
        old_surprises = []
        collisions = []          # (server, shnum, seqnum found, wrote): own share number held a version nobody expected
        for r in recs:
            vs = byname[r["server"]]
            if r["n"] in vs.inflight:
                pending.append(r)
                continue
            res_ = r["result"]
            if r.get("vf_lied"):
                lied += 1
                continue
            if r["state"] != "answered" or not isinstance(res_, tuple):
                errors += 1
                if res_ == "injected-disconnect":
                    ck.hit("server-disconnect-on-write")
                else:
                    ck.hit("server-error-on-write")
                continue
            if r.get("t_rsp", 0) - r.get("t_srv", 0) > 0.4:
                late += 1
            wrote, read_data = res_
            mine = [sh for sh, v in r["_carried"].items() if v == V]
            if not mine:
                continue
            if not wrote:
                refused.append((r["server"], sorted(r["_carried"])))
            else:
                for sh in mine:
                    acked.setdefault(sh, []).append(r["server"])
            for sh in mine:
                # what sat on the share number this request writes (read vectors are evaluated before the write)
                vecs = read_data.get(sh)
                h = parse_header(vecs[0] if vecs else None)
                if h is None or h[1:] == V[1:]:
                    continue
                expected = set()
                for tv in r["args"][2][sh][0]:
                    e = parse_header(tv[-1])
                    if e is not None:
                        expected.add(e[1:])
                if h[1:] not in expected and h[1:] not in expected_old:
                    collisions.append((r["server"], sh, h[1], bool(wrote)))
            for sh, vecs in read_data.items():
                if sh in written_to[r["server"]]:
                    continue
                h = parse_header(vecs[0] if vecs else None)
                if h is not None and h[1:] != V[1:]:
                    if h[1:] in expected_old:
                        # an unknown share, but of the very version this publish replaces: whether that is an
                        # "unexpected version" is left open by the statement (MDMF reports it, SDMF does not)
                        old_surprises.append((r["server"], sh, h[1]))
                    else:
                        surprises.append((r["server"], sh, h[1]))
        if len(set(v[1] for v in vers)) > 1:
            ck.hit("operation-retried-after-uncoordinated-write-error")
        if lied:
            ck.hit("error-after-write", lied)
        if late:
            ck.hit("late-answer", late)
        if refused:
            ck.hit("write-refused-on-wire")
        if surprises:
            ck.hit("surprise-share-read-back")
        if collisions:
            ck.hit("written-share-number-held-unexpected-version")
        if old_surprises:
            ck.skip("unknown-share-of-the-replaced-version-read-back")
            if st == "ok":
                ck.observe("success-with-unknown-share-of-the-replaced-version:" + case["fmt"])
        if any(vs.readonly or vs.reserved_space for vs in g.servers) and acked:
            for sh, srvs in acked.items():
                if any(byname[s].readonly or byname[s].reserved_space for s in srvs):
                    ck.observe("readonly-or-full-server-accepted-mutable-write")
                    break
        nack = len(acked)
        summary = dict(status=st, op=opname, version=(V[1], V[2][:6]) if V else None, acknowledged=sorted(acked),
                       refused=refused[:4], surprises=surprises[:4], collisions=collisions[:4], never_answered=len(pending), errors=errors,
                       error_after_write=lied, error=ferr(res) if st == "err" else None)
        w = self.desc(outcome=summary)
        nontrivial = bool(errors or lied or refused or surprises or collisions or pending or late)
        if st == "ok":
            ck.hit("publish-succeeded")
            if errors or lied or pending:
                ck.hit("publish-succeeded-with-failed-servers")
            ck.mon("success-implies-k-acknowledged")
            if nack < k:
                ck.violation("success-with-fewer-than-k-shares-acknowledged",
                             "%s called back although only share numbers %s (k=%d) of version #%s were acknowledged with "
                             "wrote=True (%d write errors, %d errors after write, %d never answered, %d refused)"
                             % (opname, sorted(acked), k, V[1] if V else "?", errors, lied, len(pending), len(refused)), w)
            elif nack == k:
                ck.hit("success-with-exactly-k-acknowledged")
            ck.mon("success-implies-no-refusal-or-surprise")
            if refused:
                ck.violation("success-although-a-write-was-refused",
                             "%s called back although %d answers to writes of version #%d said wrote=False (test vector did "
                             "not match: somebody else's version is on that server): %s" % (opname, len(refused), V[1], refused[:3]), w)
            if surprises:
                ck.violation("success-although-unexpected-version-was-read-back",
                             "%s called back although write answers revealed shares of another version on share numbers this "
                             "publish does not write: %s" % (opname, surprises[:3]), w)
            if collisions:
                ck.violation("success-although-written-share-number-held-an-unexpected-version",
                             "%s called back although the answers to its own writes show that the share numbers it wrote held a "
                             "version it neither expected to replace nor wrote itself (server, shnum, seqnum found, "
                             "wrote): %s" % (opname, collisions[:3]), w)
            if nack >= k and not refused and not surprises and not collisions:
                self.check_recoverable(V, acked, content, cap, opname, w, len(set(v[1] for v in vers)))
        elif st == "err":
            name = res.type.__name__
            if name == "NotEnoughServersError":
                ck.hit("errback-not-enough-servers")
            elif name == "UncoordinatedWriteError":
                ck.hit("errback-uncoordinated-write")
            else:
                ck.observe("errback-other:" + name)
                oe = ck.extra["odd_errors"]
                if len(oe) < 5:
                    oe.setdefault(name, w)
            if nack >= k and not refused and not surprises:
                ck.hit("errback-although-k-acknowledged")
        if nack < k:
            ck.hit("fewer-than-k-acknowledged")
            if nack == k - 1:
                ck.hit("k-minus-1-acknowledged")
            ck.mon("fewer-than-k-implies-errback")
            if st in ("hang", "steps"):
                if pending:
                    ck.hit("publish-waits-for-silent-server")
                    ck.skip("fewer-than-k-but-a-server-never-answers")
                else:
                    ck.violation("no-error-reported-with-fewer-than-k-shares-placed",
                                 "every request was answered or failed, only share numbers %s (k=%d) were acknowledged, yet %s "
                                 "neither called back nor errbacked (%s)" % (sorted(acked), k, opname, st), w)
        elif st in ("hang", "steps"):
            if pending:
                ck.hit("publish-waits-for-silent-server")
            ck.observe("k-acknowledged-but-publish-did-not-complete" + ("" if pending else "-nobody-silent"))
        ck.hit("status-" + st)
        ck.case("%s-%s" % (case["scenario"], st), key=repr(sorted(self.desc().items(), key=repr)), nontrivial=nontrivial,
                sample=self.desc(outcome=dict(summary, version=summary["version"] and summary["version"][0])))

    def check_recoverable(self, V, acked, content, cap, opname, w, nversions=1):
        from allmydata.storage.mutable import MutableShareFile
        from allmydata.mutable.common import MODE_CHECK
        from allmydata import uri as uri_mod
        ck, g = self.ck, self.g
        byname = dict((vs.name, vs) for vs in g.servers)
        si = uri_mod.from_string(cap).get_storage_index()
        # bytes on disk of the acknowledged shares
        bad = []
        for sh, srvs in acked.items():
            for s in srvs:
                ck.mon("acknowledged-shares-on-disk")
                path = byname[s].shares_of(si).get(sh)
                h = None
                if path is not None:
                    try:
                        h = parse_header(MutableShareFile(path).readv([(0, 41)])[0])
                    except Exception as e:     # noqa
                        h = ("unreadable", repr(e)[:80])
                if h != V:
                    bad.append((s, sh, h and h[1]))
        if bad:
            ck.violation("acknowledged-share-not-on-disk",
                         "%s succeeded; acknowledged shares do not carry version #%d on disk: %s" % (opname, V[1], bad[:4]), w)
            return
        ackservers = set(s for srvs in acked.values() for s in srvs)
        self.clear_faults()
        # (1) everything up, exhaustive servermap
        rn = self.client().create_node_from_uri(cap)
        ck.mon("readback-all-servers")
        st, smap = self.wait(rn.get_servermap(MODE_CHECK))
        why = None
        if st == "ok":
            # recoverable, not necessarily "best": in the stale-servermap scenarios a competing version with the same
            # sequence number may exist on servers whose answers this publish never saw (that is C12's subject)
            rec = set((v[0], v[1]) for v in smap.recoverable_versions())
            if (V[1], V[2]) not in rec:
                why = "an exhaustive (MODE_CHECK) servermap lists recoverable versions %s, the published #%d is not among them" % (
                    sorted("#%d" % v[0] for v in rec), V[1])
        else:
            why = "servermap update failed: %s" % ferr(smap)
        if why:
            ck.violation("published-version-not-recoverable-with-all-servers-up",
                         "%s succeeded (version #%d acknowledged for share numbers %s) but with all servers up and no faults: %s"
                         % (opname, V[1], sorted(acked), why), w)
            return
        st, got = self.wait(self.client().create_node_from_uri(cap).download_best_version())
        if st != "ok" or got != content:
            # MODE_READ stops after k+epsilon servers: it may settle for the previous version although the new one is
            # recoverable (a documented limitation of mutable reads, not part of this property)
            ck.observe("plain-read-with-all-servers-up-did-not-return-the-new-version")
        # (2) only the servers that acknowledged
        for vs in g.servers:
            vs.hidden = vs.name not in ackservers
        rn2 = self.client().create_node_from_uri(cap)
        ck.mon("readback-acknowledging-servers-only")
        st, got = self.wait(rn2.download_best_version())
        for vs in g.servers:
            vs.hidden = False
        if st == "ok" and got != content and self.intruder_content is not None and got == self.intruder_content:
            # the competing writer's version (same or higher sequence number) also sits on these servers
            ck.skip("reader-prefers-the-competing-writers-version")
        elif st == "ok" and got != content and opname == "update" and nversions > 1:
            # the publish itself is sound, but update() published something else than "old content with the new bytes
            # spliced in": the operation was retried after an UncoordinatedWriteError and the retry lost the new data
            ck.violation("update-retried-after-uncoordinated-write-error-loses-the-written-data",
                         "update() called back after %d publish attempts (versions up to #%d); the content now on the grid "
                         "(%d bytes, read from the acknowledging servers) is not the old content with the new bytes written "
                         "at the offset (%d bytes expected, first difference at byte %s)"
                         % (nversions, V[1], len(got), len(content), firstdiff(got, content)), w)
        elif (st != "ok" or got != content) and opname == "update" and self.case["fmt"] == "MDMF" and self.case.get("writer_kn"):
            ck.violation("in-place-update-encodes-with-the-writers-default-k-n-instead-of-the-files",
                         "in-place MDMF update() by a node object whose client defaults are k=%d N=%d on a file made with k=%d "
                         "N=%d called back (version #%d acknowledged for share numbers %s); a fresh client that sees the "
                         "acknowledging servers %s" % (self.case["writer_kn"][0], self.case["writer_kn"][1], self.case["k"],
                                                       self.case["n"], V[1], sorted(acked),
                                                       ("fails: " + ferr(got)) if st == "err" else "does not get the new content"), w)
        elif (st != "ok" or got != content) and opname == "update" and self.case["scenario"] == "stale-duplicate":
            ck.violation("in-place-update-writes-into-a-stale-duplicate-share",
                         "in-place MDMF update() called back with version #%d acknowledged for share numbers %s by %s, but one of "
                         "those acknowledgements is for a copy that still held the previous version (only the changed segments "
                         "and the new header were written into it): fewer than k valid shares of the new version exist on the "
                         "acknowledging servers and a fresh client restricted to them %s"
                         % (V[1], sorted(acked), sorted(ackservers),
                            ("fails: " + ferr(got)) if st == "err" else "does not get the new content"), w)
        elif st != "ok" or got != content:
            ck.violation("published-version-not-recoverable-from-acknowledging-servers",
                         "%s succeeded (version #%d acknowledged for share numbers %s by %s) but a fresh client that sees only "
                         "those servers %s" % (opname, V[1], sorted(acked), sorted(ackservers),
                                               ("fails: " + ferr(got)) if st == "err" else
                                               ("does not finish (%s)" % st) if st != "ok" else
                                               "reads %d bytes that differ from the %d published" % (len(got), len(content))), w)


def firstdiff(a, b):
    m = min(len(a), len(b))
    for i in range(m):
        if a[i] != b[i]:
            return i
    return m if len(a) != len(b) else None

def ferr(res):
    try:
        return "%s: %s" % (res.type.__name__, str(res.value)[:240])
    except Exception:
        return repr(res)[:240]


# MUST_CATCH (selftest/breaks_c47.py; tools/selftest.py --prop C47): 9/9 caught on the current tree.
#   c47-wrote-false-ignored            success-although-a-write-was-refused, success-with-fewer-than-k-shares-acknowledged
#   c47-done-without-k                 success-with-fewer-than-k-shares-acknowledged
#   c47-k-minus-one-enough             success-with-fewer-than-k-shares-acknowledged
#   c47-surprise-dropped               success-although-unexpected-version-was-read-back
#   c47-error-counted-as-success       success-with-fewer-than-k-shares-acknowledged
#   c47-surprised-flag-not-checked     all success-* keys
#   c47-writers-counted-not-shnums     success-with-fewer-than-k-shares-acknowledged
#   c47-must-not-exist-vector-lost     success-although-written-share-number-held-an-unexpected-version (= seeded C47-5)
#   c47-sdmf-no-test-vector            success-although-unexpected-version-was-read-back / -written-share-number-held-...
# Seeded changes (tools/selftest.py --seeded --prop C47): C47-1..C47-6 all caught.  C47-5 (storage_client.py wire conversion
# drops the length of the "share must not exist yet" test vector) needs the homeless-collision scenario: a share is lost,
# the writer maps the grid, a share with that number in a third version turns up on the server the homeless share goes to;
# the oracle compares what each write answer read back on the share numbers it wrote with the versions named by that
# request's own test vectors.  All writes go through the real allmydata.storage_client._StorageServer adapter
# (VIServer.get_storage_server), so the conversion under test is executed.
#
#   c47-replant-update-uses-node-k-n / c47-replant-update-writes-other-version-shares / c47-surviving-writers-counted
#       (the last one = seeded C47-7): caught as in-place-update-encodes-..., in-place-update-writes-into-a-stale-duplicate-share,
#       success-with-fewer-than-k-shares-acknowledged.  12/12 planted, seeded C47-1..C47-7 all caught.
# C47-7 needs two homes of one share number in the writer's servermap (stale-duplicate scenario, optionally brought to the same
# version by one more honest overwrite) and lost acknowledgements chosen per (server, share number) so that k writers survive
# on k-1 share numbers (mode k-writers-survive-on-k-1-share-numbers; overwrite and in-place update).
#
# Repaired in /repo after this check reported them: 22f500d (Publish.update took k/N from the node's client defaults:
# key in-place-update-encodes-with-the-writers-default-k-n-instead-of-the-files), 8c22511 (Publish.update wrote into copies
# holding another version: key in-place-update-writes-into-a-stale-duplicate-share).
# Repaired in /repo after this check reported it: 8204975 (SDMF update retried after an UncoordinatedWriteError dropped
# the new data; key update-retried-after-uncoordinated-write-error-loses-the-written-data).
