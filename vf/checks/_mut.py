"""Mutable-share adversary toolkit shared by C10 / C11 / C14.

* ``MutShare``: an independent (struct-only) parser/mutator of a mutable *container* file on disk
  (``storage/mutable.py`` layout: 468 bytes of container header + four lease slots, then the share
  data region, then the extra-lease block) and of the SDMF / MDMF share inside it, field by field.
* snapshot / install / compose helpers for share directories of an in-process grid,
* wire-log helpers (what did a ``slot_readv`` answer contain, what did a write vector write),
* forging helpers (complete versions built with a read-cap only, re-signed shares, consistently
  re-hashed blocks).  Forging uses the repository's hash/FEC/AES/RSA primitives as *tools* (an
  adversary may use any tool); no verdict is ever derived from them -- the oracles only use the
  publish history recorded by the harness and this module's own parser.
"""
import base64
import os
import struct

DATA_OFFSET = 468            # container: 32 magic + 20 nodeid + 32 write enabler + 8 + 8 + 4*92 leases
DATA_LENGTH_OFFSET = 84
EXTRA_LEASE_OFFSET = 92

SDMF_HDR = ">BQ32s16sBBQQLLLLQQ"
SDMF_HDR_LEN = struct.calcsize(SDMF_HDR)      # 107
SDMF_PREFIX_LEN = 75
MDMF_HDR = ">BQ32sBBQQQQQQQQQQ"
MDMF_HDR_LEN = struct.calcsize(MDMF_HDR)      # 123
MDMF_PREFIX_LEN = 59

# (name, offset, struct code) of every header field
SDMF_FIELDS = [("version", 0, "B"), ("seqnum", 1, "Q"), ("root_hash", 9, "32s"), ("IV", 41, "16s"),
               ("k", 57, "B"), ("N", 58, "B"), ("segsize", 59, "Q"), ("datalen", 67, "Q"),
               ("o_signature", 75, "L"), ("o_share_hash_chain", 79, "L"), ("o_block_hash_tree", 83, "L"),
               ("o_share_data", 87, "L"), ("o_enc_privkey", 91, "Q"), ("o_EOF", 99, "Q")]
MDMF_FIELDS = [("version", 0, "B"), ("seqnum", 1, "Q"), ("root_hash", 9, "32s"),
               ("k", 41, "B"), ("N", 42, "B"), ("segsize", 43, "Q"), ("datalen", 51, "Q"),
               ("o_enc_privkey", 59, "Q"), ("o_share_hash_chain", 67, "Q"), ("o_signature", 75, "Q"),
               ("o_verification_key", 83, "Q"), ("o_verification_key_end", 91, "Q"),
               ("o_share_data", 99, "Q"), ("o_block_hash_tree", 107, "Q"), ("o_EOF", 115, "Q")]
SALT = 16
HASH = 32


class ShareView(object):
    """Field-level view of the bytes of one SDMF/MDMF share (the container's data region)."""

    def __init__(self, data):
        self.data = bytearray(data)
        self.parse()

    # ---- parsing
    def parse(self):
        d = self.data
        self.fmt = None
        self.f = {}
        if len(d) < 1:
            return
        if d[0] == 0 and len(d) >= SDMF_HDR_LEN:
            self.fmt, table = "SDMF", SDMF_FIELDS
        elif d[0] == 1 and len(d) >= MDMF_HDR_LEN:
            self.fmt, table = "MDMF", MDMF_FIELDS
        else:
            return
        for (name, off, code) in table:
            (self.f[name],) = struct.unpack_from(">" + code, d, off)

    @property
    def table(self):
        return SDMF_FIELDS if self.fmt == "SDMF" else MDMF_FIELDS

    def field_names(self):
        return [t[0] for t in self.table]

    def field_span(self, name):
        for (n, off, code) in self.table:
            if n == name:
                return off, struct.calcsize(">" + code)
        raise KeyError(name)

    def set_field(self, name, value):
        for (n, off, code) in self.table:
            if n == name:
                if code.endswith("s"):
                    ln = int(code[:-1])
                    value = bytes(value)[:ln].ljust(ln, b"\x00")
                else:
                    value = int(value) % (1 << (8 * struct.calcsize(">" + code)))
                struct.pack_into(">" + code, self.data, off, value)
                self.parse()
                return
        raise KeyError(name)

    def prefix_len(self):
        return SDMF_PREFIX_LEN if self.fmt == "SDMF" else MDMF_PREFIX_LEN

    def prefix(self):
        return bytes(self.data[:self.prefix_len()])

    def version_id(self):
        """(seqnum, root_hash, signed prefix) -- identifies a version independently of the code."""
        if self.fmt is None:
            return None
        return (self.f["seqnum"], bytes(self.f["root_hash"]), self.prefix())

    def regions(self):
        """name -> (start, end) inside the share data, from the offset table (not validated)."""
        f = self.f
        if self.fmt == "SDMF":
            return {"header": (0, SDMF_HDR_LEN),
                    "verification_key": (SDMF_HDR_LEN, f["o_signature"]),
                    "signature": (f["o_signature"], f["o_share_hash_chain"]),
                    "share_hash_chain": (f["o_share_hash_chain"], f["o_block_hash_tree"]),
                    "block_hash_tree": (f["o_block_hash_tree"], f["o_share_data"]),
                    "share_data": (f["o_share_data"], f["o_enc_privkey"]),
                    "enc_privkey": (f["o_enc_privkey"], f["o_EOF"])}
        if self.fmt == "MDMF":
            return {"header": (0, MDMF_HDR_LEN),
                    "enc_privkey": (f["o_enc_privkey"], f["o_share_hash_chain"]),
                    "share_hash_chain": (f["o_share_hash_chain"], f["o_signature"]),
                    "signature": (f["o_signature"], f["o_verification_key"]),
                    "verification_key": (f["o_verification_key"], f["o_verification_key_end"]),
                    "share_data": (f["o_share_data"], f["o_block_hash_tree"]),
                    "block_hash_tree": (f["o_block_hash_tree"], f["o_EOF"])}
        return {}

    def region_bytes(self, name):
        s, e = self.regions()[name]
        return bytes(self.data[s:e])

    def set_region(self, name, new):
        """Replace a region by bytes of the same length (in place)."""
        s, e = self.regions()[name]
        if len(new) != e - s:
            raise ValueError("region %s is %d bytes, got %d" % (name, e - s, len(new)))
        self.data[s:e] = new
        self.parse()

    # ---- blocks
    def num_segments(self):
        f = self.f
        if f["segsize"] == 0 or f["datalen"] == 0:
            return 0
        if self.fmt == "SDMF":
            return 1
        return (f["datalen"] + f["segsize"] - 1) // f["segsize"]

    def block_sizes(self):
        f = self.f
        k = max(1, f["k"])
        bs = f["segsize"] // k
        tail = f["datalen"] % f["segsize"] if f["segsize"] else 0
        tbs = bs if not tail else ((tail + k - 1) // k * k) // k
        return bs, tbs

    def block_span(self, segnum):
        """((salt_start, salt_end) or None, (block_start, block_end)) for segment segnum."""
        bs, tbs = self.block_sizes()
        nseg = self.num_segments()
        base = self.f["o_share_data"]
        this = tbs if segnum == nseg - 1 else bs
        if self.fmt == "SDMF":
            s = base + bs * segnum
            return None, (s, s + this)
        s = base + (bs + SALT) * segnum
        return (s, s + SALT), (s + SALT, s + SALT + this)

    def share_hash_chain(self):
        raw = self.region_bytes("share_hash_chain")
        return [struct.unpack(">H32s", raw[i:i + 34]) for i in range(0, len(raw) - len(raw) % 34, 34)]

    def block_hash_nodes(self):
        raw = self.region_bytes("block_hash_tree")
        return [raw[i:i + 32] for i in range(0, len(raw), 32)]

    # ---- raw edits
    def flip(self, off, mask=1):
        self.data[off] ^= mask

    def write_at(self, off, b):
        self.data[off:off + len(b)] = b
        self.parse()


class MutShare(ShareView):
    """One mutable container file (or its raw bytes)."""

    def __init__(self, path=None, raw=None):
        self.path = path
        if raw is None:
            with open(path, "rb") as f:
                raw = f.read()
        self.raw0 = bytes(raw)
        self.container = bytearray(raw[:DATA_OFFSET])
        self.container_ok = len(raw) >= DATA_OFFSET
        self.magic = bytes(raw[:32])
        self.we_nodeid = bytes(raw[32:52])
        self.write_enabler = bytes(raw[52:84])
        self.data_length = struct.unpack(">Q", raw[84:92])[0] if len(raw) >= 92 else 0
        self.extra_lease_offset = struct.unpack(">Q", raw[92:100])[0] if len(raw) >= 100 else 0
        self.leases = [bytes(raw[100 + i * 92:100 + (i + 1) * 92]) for i in range(4)]
        end = min(len(raw), DATA_OFFSET + self.data_length)
        self.tail = bytes(raw[DATA_OFFSET + self.data_length:]) if len(raw) > DATA_OFFSET + self.data_length else b""
        ShareView.__init__(self, raw[DATA_OFFSET:end])

    def replace_data(self, new):
        """New share data of any length inside the *same* container (write enabler and leases kept)."""
        self.data = bytearray(new)
        self.parse()

    def truncate_data(self, newlen):
        self.data = self.data[:newlen]
        self.parse()

    def to_raw(self):
        c = bytearray(self.container)
        struct.pack_into(">Q", c, DATA_LENGTH_OFFSET, len(self.data))
        struct.pack_into(">Q", c, EXTRA_LEASE_OFFSET, DATA_OFFSET + len(self.data))
        return bytes(c) + bytes(self.data) + (self.tail or b"\x00\x00\x00\x00")

    def save(self, path=None):
        with open(path or self.path, "wb") as f:
            f.write(self.to_raw())


def share_data_of(raw):
    """The share data region of raw container bytes."""
    (dl,) = struct.unpack(">Q", raw[84:92])
    return raw[DATA_OFFSET:DATA_OFFSET + dl]


# ------------------------------------------------------------------ grid helpers

def snapshot(g, si):
    """{server index: {shnum: raw container bytes}} for storage index si."""
    out = {}
    for vs in g.servers:
        d = {}
        for shnum, p in vs.shares_of(si).items():
            with open(p, "rb") as f:
                d[shnum] = f.read()
        out[vs.index] = d
    return out


def install(g, si, idx, shares):
    """Make server idx hold exactly `shares` ({shnum: raw}) for si."""
    vs = g.servers[idx]
    d = vs.sharedir(si)
    if os.path.isdir(d):
        for fn in os.listdir(d):
            os.unlink(os.path.join(d, fn))
    if shares:
        os.makedirs(d, exist_ok=True)
        for shnum, raw in shares.items():
            with open(os.path.join(d, "%d" % shnum), "wb") as f:
                f.write(raw)


def install_all(g, si, snap):
    for vs in g.servers:
        install(g, si, vs.index, snap.get(vs.index, {}))


def disk_shares(g, si):
    """[(server index, shnum, MutShare)] of everything on disk for si."""
    out = []
    for vs in g.servers:
        for shnum, p in sorted(vs.shares_of(si).items()):
            out.append((vs.index, shnum, MutShare(p)))
    return out


def readv_from_raw(shares, shnums, readv):
    """What slot_readv would answer if the server held `shares` ({shnum: raw container bytes})."""
    out = {}
    for shnum, raw in shares.items():
        if shnums and shnum not in shnums:
            continue
        d = share_data_of(raw)
        out[shnum] = [bytes(d[o:o + l]) for (o, l) in readv]
    return out


# ------------------------------------------------------------------ wire log helpers

def answered_versions(rec):
    """For one wire-log record of an answered slot_readv whose first read vector starts at 0:
    {shnum: (seqnum, root_hash, prefix, k)} for every share whose header parses, else None entries."""
    if rec["method"] != "slot_readv" or rec["state"] != "answered" or not isinstance(rec["result"], dict):
        return None
    readv = rec["args"][2]
    if not readv or readv[0][0] != 0 or readv[0][1] < MDMF_HDR_LEN:
        return None
    out = {}
    for shnum, vecs in rec["result"].items():
        v = ShareView(vecs[0]) if vecs else None
        if v is None or v.fmt is None:
            out[shnum] = None
        else:
            out[shnum] = (v.f["seqnum"], bytes(v.f["root_hash"]), v.prefix(), v.f["k"], v.f["N"])
    return out


def written_seqnums(rec):
    """Sequence numbers a slot_testv_and_readv_and_writev request writes at offset 0: {shnum: seqnum}."""
    out = {}
    if rec["method"] != "slot_testv_and_readv_and_writev":
        return out
    tw = rec["args"][2]
    for shnum, (testv, datav, newlen) in tw.items():
        for (off, data) in datav:
            if off == 0 and len(data) >= 9:
                out[shnum] = struct.unpack(">Q", data[1:9])[0]
    return out


def has_writes(rec):
    if rec["method"] != "slot_testv_and_readv_and_writev":
        return False
    return any(datav or newlen is not None for (testv, datav, newlen) in rec["args"][2].values())


# ------------------------------------------------------------------ keys

def fixed_keys():
    """[(priv, pub)] from the fixed pool (deterministic storage indexes)."""
    from allmydata.crypto import rsa
    from vf.checks._mutkeys import KEYS_B64
    return [rsa.create_signing_keypair_from_string(base64.b64decode(k)) for k in KEYS_B64]


_KEYS = []


def use_fixed_keypool(start):
    """Make vf.grid.KEYPOOL hand out the fixed keys, starting at index `start` (cyclic)."""
    from vf.grid import KEYPOOL
    if not _KEYS:
        _KEYS.extend(fixed_keys())
    n = len(_KEYS)
    KEYPOOL.keys = [_KEYS[(start + j) % n] for j in range(n)]
    KEYPOOL.i = 0
    return KEYPOOL.keys


class DetOS(object):
    """Stand-in for the `os` module global of mutable/publish.py: urandom() from a seeded stream, so
    salts / IVs (hence root hashes and their ordering) are reproducible per VERIF_SEED."""

    def __init__(self, rng):
        self._rng = rng

    def urandom(self, n):
        return self._rng.randbytes(n)

    def __getattr__(self, name):
        return getattr(os, name)


# ------------------------------------------------------------------ forging (adversary tools)

def _encrypt(readkey, salt, data):
    from allmydata.util import hashutil
    from allmydata.crypto import aes
    key = hashutil.ssk_readkey_data_hash(salt, readkey)
    return aes.encrypt_data(aes.create_encryptor(key), data)


def decrypt_with_iv(readkey, iv, crypttext):
    """AES-CTR is an involution: used only to *classify* a wrong-plaintext witness after the fact."""
    return _encrypt(readkey, iv, crypttext)


def _fec(k, n, segment):
    import zfec
    ps = len(segment) // k
    pieces = [segment[i * ps:(i + 1) * ps] for i in range(k)]
    if k == n == 1:
        return [pieces[0]]
    enc = zfec.Encoder(k, n)
    return list(enc.encode(pieces))


def forge_version(fmt, readkey, signer, pubkey_der, seqnum, plaintext, k, n, segsize, rng,
                  encprivkey=None, bad_signature=False):
    """A complete, internally consistent version {shnum: share data bytes} of `plaintext`, encrypted
    under `readkey` (all a read-cap gives), signed with `signer` (a private key that is NOT the file's)
    and carrying `pubkey_der` as its verification key."""
    from allmydata.util import hashutil
    from allmydata import hashtree
    from allmydata.crypto import rsa
    datalen = len(plaintext)
    assert datalen > 0
    if fmt == "SDMF":
        segsize = (datalen + k - 1) // k * k
    else:
        segsize = (segsize + k - 1) // k * k
    nseg = 0 if not datalen else (datalen + segsize - 1) // segsize
    blocks = [[] for _ in range(n)]      # per share: [(salt, block)]
    for s in range(nseg):
        seg = plaintext[s * segsize:(s + 1) * segsize]
        salt = rng.randbytes(16)
        crypt = _encrypt(readkey, salt, seg)
        padded = (len(crypt) + k - 1) // k * k
        crypt = crypt.ljust(padded, b"\x00")
        for shnum, b in enumerate(_fec(k, n, crypt)):
            blocks[shnum].append((salt, bytes(b)))
    if fmt == "SDMF":
        iv = blocks[0][0][0]
    bhts = []
    for shnum in range(n):
        leaves = [hashutil.block_hash((salt + b) if fmt == "MDMF" else b) for (salt, b) in blocks[shnum]]
        bhts.append(list(hashtree.HashTree(leaves)))
    share_leaves = [t[0] for t in bhts]
    sht = hashtree.HashTree(share_leaves)
    root = sht[0]
    if encprivkey is None:
        encprivkey = rng.randbytes(1217)
    out = {}
    for shnum in range(n):
        chain = b"".join(struct.pack(">H32s", i, sht[i]) for i in sorted(sht.needed_hashes(shnum)))
        bht_s = b"".join(bhts[shnum])
        if fmt == "SDMF":
            prefix = struct.pack(">BQ32s16sBBQQ", 0, seqnum, root, iv, k, n, segsize, datalen)
            sig = rsa.sign_data(signer, prefix)
            if bad_signature:
                sig = bytes(b ^ 0x55 for b in sig)
            sharedata = b"".join(b for (_, b) in blocks[shnum])
            o1 = SDMF_HDR_LEN + len(pubkey_der)
            o2 = o1 + len(sig)
            o3 = o2 + len(chain)
            o4 = o3 + len(bht_s)
            o5 = o4 + len(sharedata)
            o6 = o5 + len(encprivkey)
            out[shnum] = b"".join([prefix, struct.pack(">LLLLQQ", o1, o2, o3, o4, o5, o6), pubkey_der, sig,
                                   chain, bht_s, sharedata, encprivkey])
        else:
            prefix = struct.pack(">BQ32sBBQQ", 1, seqnum, root, k, n, segsize, datalen)
            sig = rsa.sign_data(signer, prefix)
            if bad_signature:
                sig = bytes(b ^ 0x55 for b in sig)
            sharedata = b"".join(salt + b for (salt, b) in blocks[shnum])
            o_priv = MDMF_HDR_LEN
            o_chain = o_priv + len(encprivkey)
            o_sig = o_chain + len(chain)
            o_vk = o_sig + len(sig)
            o_vke = o_vk + len(pubkey_der)
            o_data = max(o_vke, MDMF_HDR_LEN + 1220 + 260 + 292 + 34 * 8)
            o_bht = o_data + len(sharedata)
            o_eof = o_bht + len(bht_s)
            body = bytearray(o_eof)
            body[:MDMF_PREFIX_LEN] = prefix
            body[MDMF_PREFIX_LEN:MDMF_HDR_LEN] = struct.pack(">QQQQQQQQ", o_priv, o_chain, o_sig, o_vk, o_vke,
                                                             o_data, o_bht, o_eof)
            body[o_priv:o_chain] = encprivkey
            body[o_chain:o_sig] = chain
            body[o_sig:o_vk] = sig
            body[o_vk:o_vke] = pubkey_der
            body[o_data:o_bht] = sharedata
            body[o_bht:o_eof] = bht_s
            out[shnum] = bytes(body)
    return out


def resign(view, signer, pubkey_der, new_prefix_fields=None):
    """Replace verification key and signature of a share by the harness key (same lengths for RSA-2048),
    optionally after editing signed header fields."""
    from allmydata.crypto import rsa
    for k_, v in (new_prefix_fields or {}).items():
        view.set_field(k_, v)
    sig = rsa.sign_data(signer, view.prefix())
    r = view.regions()
    if r["verification_key"][1] - r["verification_key"][0] != len(pubkey_der) or \
            r["signature"][1] - r["signature"][0] != len(sig):
        raise ValueError("key/signature length differs")
    view.set_region("verification_key", pubkey_der)
    view.set_region("signature", sig)


def rehash_blocks(view):
    """Recompute the share's block hash tree from its (possibly edited) blocks so that the share is
    internally consistent below the share-hash leaf."""
    from allmydata.util import hashutil
    from allmydata import hashtree
    leaves = []
    for s in range(view.num_segments()):
        salt_span, (bs, be) = view.block_span(s)
        blk = bytes(view.data[bs:be])
        if salt_span:
            blk = bytes(view.data[salt_span[0]:salt_span[1]]) + blk
        leaves.append(hashutil.block_hash(blk))
    if not leaves:
        return False
    nodes = b"".join(hashtree.HashTree(leaves))
    s, e = view.regions()["block_hash_tree"]
    if e - s != len(nodes):
        return False
    view.data[s:e] = nodes
    view.parse()
    return True


def ev_first_chooser(rng):
    """Scheduler policy: finish all local processing (eventual-send turns, thread completions, due
    timers) before delivering the next wire message, messages in seeded random order.  Under this
    policy the answers delivered before an operation's Deferred fires are exactly the answers the
    operation has processed, which makes wire-log oracles exact."""
    def choose(labels):
        for pref in ("ev", "thr", "now"):
            for i, l in enumerate(labels):
                if l == pref or (pref == "thr" and l.startswith("thr")):
                    return i
        return rng.randrange(len(labels))
    return choose


# ------------------------------------------------------------------ histories and compositions (C11 / C14)

def publish_history(g, client, plaintexts, observe=None):
    """Create a mutable file and publish plaintexts[1:] over it through the write-cap.
    Returns (node, [snapshot after each publish], [plaintext actually published])."""
    from allmydata.mutable.publish import MutableData
    st, node = g.wait(client.create_mutable_file(MutableData(plaintexts[0])))
    if st != "ok":
        return None, [], []
    si = node.get_storage_index()
    snaps = [snapshot(g, si)]
    done = [plaintexts[0]]
    for p in plaintexts[1:]:
        st, r = g.wait(node.overwrite(MutableData(p)))
        if st != "ok":
            if observe:
                observe("publish-failed")
            break
        snaps.append(snapshot(g, si))
        done.append(p)
    return node, snaps, done


def version_of_snapshot(snap):
    """(seqnum, root_hash, k, N) of the (single) version a post-publish snapshot holds, by the independent parser."""
    ids = set()
    for d in snap.values():
        for raw in d.values():
            v = MutShare(raw=raw)
            if v.fmt is not None:
                ids.add((v.f["seqnum"], bytes(v.f["root_hash"]), v.f["k"], v.f["N"]))
    return ids.pop() if len(ids) == 1 else None


def locate(records):
    """From wire-log records (answered slot_readv from offset 0): {(seqnum, root_hash): {"k": k, "N": N,
    "shnums": set, "holders": set((server, shnum))}} -- what a survey was told, by the independent parser."""
    out = {}
    for rec in records:
        av = answered_versions(rec)
        if not av:
            continue
        for shnum, v in av.items():
            if v is None:
                continue
            (seq, root, prefix, k, n) = v
            e = out.setdefault((seq, root), {"k": k, "N": n, "shnums": set(), "holders": set()})
            e["shnums"].add(shnum)
            e["holders"].add((rec["server"], shnum))
    return out


def best_located(loc):
    """(best recoverable (seqnum, root) list with the top seqnum, set of unrecoverable versions with a higher seqnum)."""
    rec = [v for v, e in loc.items() if len(e["shnums"]) >= e["k"]]
    top = max([v[0] for v in rec]) if rec else None
    best = sorted(v for v in rec if v[0] == top)
    newer_unrec = sorted(v for v, e in loc.items() if len(e["shnums"]) < e["k"] and (top is None or v[0] > top))
    return best, newer_unrec


def install_lying_hook(g, si, plan, on_lie=None):
    """plan: {server index: [(from_nth, to_nth or None, {shnum: raw})]} -- on its n-th slot_readv for si the
    server answers from the given share set instead of its disk.  The wire log is updated to what was sent."""
    counts = {}

    def mutate(vs, meth, args, res, obj):
        if meth != "slot_readv" or args[0] != si or vs.index not in plan:
            return res
        n = counts[vs.index] = counts.get(vs.index, 0) + 1
        for (lo, hi, shares) in plan[vs.index]:
            if n >= lo and (hi is None or n <= hi):
                new = readv_from_raw(shares, args[1], args[2])
                for rec in reversed(g.calls):
                    if rec.get("result") is res:
                        rec["result"] = new
                        break
                if on_lie is not None:
                    on_lie()
                return new
        return res
    g.mutate_response = mutate


class VirtualTime(object):
    """Stand-in for the `time` module global of mutable/servermap.py, retrieve.py, publish.py: their timestamps
    end up in sets whose iteration order decides e.g. which copy of a duplicated share number is read, so they
    must not come from the wall clock."""

    def __init__(self, reactor):
        self._r = reactor
        self._n = 0

    def time(self):
        self._n += 1
        return self._r.seconds() + self._n * 1e-7      # strictly increasing, reproducible

    def __getattr__(self, name):
        import time as _t
        return getattr(_t, name)


def virtual_time_on():
    """Install VirtualTime in the mutable modules; returns an undo function."""
    from vf import env
    import allmydata.mutable.servermap as a, allmydata.mutable.retrieve as b, allmydata.mutable.publish as c
    vt = VirtualTime(env.reactor)
    old = [(m, m.time) for m in (a, b, c)]
    for m in (a, b, c):
        m.time = vt

    def undo():
        for m, t in old:
            m.time = t
    return undo


def net_first_chooser(rng):
    """Scheduler policy: deliver every wire message in flight before any further local processing.  No answer is
    ever 'late' for the operation that asked for it, so a survey incorporates the answer of every server it
    decided to query: the schedule most favourable to survey coverage (used for classification controls)."""
    def choose(labels):
        net = [i for i, l in enumerate(labels) if l not in ("ev", "now") and not l.startswith("thr")]
        if net:
            return net[rng.randrange(len(net))]
        return 0
    return choose
