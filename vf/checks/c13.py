"""C13 one client serializes operations on a mutable node."""
META = {
    "level": "exploration",
    "technique": "runtime monitoring of up to four concurrently requested whole-file / directory operations issued through ONE real client on the node obtained from one capability string: sequential reference model in request order (results of every read, servermap sequence numbers, final contents / listing), boundary oracles on the wire log and completion order, class-level enter/exit recorder around the serialized bodies; DFS over message-delivery orders for 2-3 operations on 3 servers plus seeded random schedules with injected failures",
    "text": "Operations (download_best_version, overwrite, upload with a servermap, modify, get_servermap, failing modifiers / uploadables, directory set_node / set_uri / add_file / delete / list) are requested in one synchronous burst on the node(s) returned by client.create_node_from_uri(same string). Oracles: both lookups return the same live object (also when the caller keeps no reference while an operation is in flight) and a node of the requested capability; issuing a later operation sends no storage request for the file while an earlier one is pending; operations complete in request order; every result equals what sequential execution in request order gives (reads see exactly the writes requested before them, N concurrent directory additions all appear); an operation after a failed one still runs and gives its sequential result; nothing is left pending at quiescence. The recorder (wrapping MutableFileNode._do_serialized, informational dependency on that name) additionally checks that bodies of one storage index never overlap and start in request order.",
    "note": "Trusts the in-process Wire, the virtual reactor and the sequential reference model of file contents / directory names written for this check. get_best_readable_version()+read is not routed through the node's serializer by design and is generated but not judged for ordering. With injected server faults only the structural oracles (ordering, liveness) are judged.",
}
LEVEL = "exploration"
BUDGET = {"quick": 36, "thorough": 360}
SHARDS = {"quick": 1, "thorough": 12}

from vf import env  # noqa
import gc
import random as _random
import time as _time
import weakref

FILE_KINDS = ("download", "overwrite", "upload", "modify", "servermap", "modify-raise", "overwrite-raise", "version-read")
DIR_KINDS = ("set_node", "set_uri", "add_file", "add_file_big", "delete", "delete-missing", "list", "rename")
MULTI_ENTRY = ("add_file", "add_file_big", "rename")   # operations that enter the node's queue more than once / late
WRITERS = ("overwrite", "upload", "modify")


def _f(res):
    try:
        return "%s: %s" % (res.type.__name__, str(res.value)[:200])
    except Exception:
        return repr(res)[:200]


def is_failure(r):
    return hasattr(r, "type") and hasattr(r, "value") and hasattr(r, "trap")


class Recorder(object):
    """Class-level enter/exit recorder around the bodies run by MutableFileNode._do_serialized."""

    def __init__(self, clock):
        self.clock = clock
        self.records = []
        self.installed = False

    def __enter__(self):
        try:
            from allmydata.mutable.filenode import MutableFileNode
            from twisted.internet import defer
            orig = MutableFileNode._do_serialized
            rec_list, clock = self.records, self.clock

            def wrapped(node, cb, *args, **kwargs):
                if getattr(getattr(node, "_storage_broker", None), "vf_tag", "C") != "C":
                    return orig(node, cb, *args, **kwargs)      # a node of the competing client: not recorded
                r = dict(si=node.get_storage_index(), node=id(node), name=getattr(cb, "__name__", "?"),
                         req=clock(), start=None, end=None)
                rec_list.append(r)

                def body(*a, **kw):
                    r["start"] = clock()
                    try:
                        res = cb(*a, **kw)
                    except BaseException:
                        r["end"] = clock()
                        raise
                    if isinstance(res, defer.Deferred):
                        def fin(x):
                            r["end"] = clock()
                            return x
                        res.addBoth(fin)
                    else:
                        r["end"] = clock()
                    return res
                return orig(node, body, *args, **kwargs)
            self._cls, self._orig = MutableFileNode, orig
            MutableFileNode._do_serialized = wrapped
            self.installed = True
        except Exception:
            self.installed = False
        return self

    def __exit__(self, *a):
        if self.installed:
            self._cls._do_serialized = self._orig
        return False


def gen_ops(rng, target, nops, allow_fail=True):
    kinds = FILE_KINDS if target == "file" else DIR_KINDS
    ops = []
    for j in range(nops):
        kind = rng.choice(kinds)
        if not allow_fail and kind in ("modify-raise", "overwrite-raise", "delete-missing"):
            kind = "modify" if target == "file" else "set_node"
        ops.append(kind)
    if target == "file" and not any(k in WRITERS for k in ops):
        ops[rng.randrange(nops)] = rng.choice(WRITERS)
    if target == "dir" and not any(k in ("set_node", "set_uri", "add_file", "add_file_big") for k in ops):
        ops[rng.randrange(nops)] = "set_node"
    return tuple(ops)


def damage_block_data(path):
    """Flip one byte of the share's block data (offset tables typed from the layout comments of mutable/layout.py):
    prefix and signature stay valid, so a servermap update still counts the share, but its block fails the hash check."""
    import struct
    from vf.checks._mutmon import DATA_OFFSET
    with open(path, "r+b") as f:
        f.seek(DATA_OFFSET)
        head = f.read(123)
        if not head:
            return False
        if head[0] == 0:                      # SDMF: >BQ32s16s BBQQ LLLLQQ, share_data is the 4th L
            (off,) = struct.unpack(">L", head[75 + 12:75 + 16])
        else:                                 # MDMF: offsets at 59 (8 x Q), share_data is the 6th; skip the 16-byte salt
            (off,) = struct.unpack(">Q", head[59 + 40:59 + 48])
            off += 16
        f.seek(DATA_OFFSET + off)
        b = f.read(1)
        if not b:
            return False
        f.seek(DATA_OFFSET + off)
        f.write(bytes([b[0] ^ 0xFF]))
    return True


def describe_cfg(cfg):
    return {k: v for k, v in cfg.items() if k != "key"}


def run_case(ck, cfg, mode, chooser=None, sched_seed=0, stats=None):
    from vf.grid import VGrid, KEYPOOL
    from vf.checks import _mutmon as M, _mutkeys
    from allmydata.mutable.publish import MutableData
    from allmydata.mutable.common import MODE_WRITE, MODE_READ, MODE_CHECK
    from allmydata.immutable.upload import Data
    from allmydata.util.consumer import MemoryConsumer
    from allmydata import uri as _uri

    target, kinds = cfg["target"], cfg["ops"]
    k, n, nservers, fmt = cfg["k"], cfg["n"], cfg["nservers"], cfg["fmt"]
    _mutkeys.install(KEYPOOL)
    KEYPOOL.i = cfg.get("keyidx", 0) % 4
    _random.seed("c13/%s" % (sched_seed,))
    g = VGrid(nservers=nservers, seed=sched_seed, profile=cfg.get("profile", "free"))
    out = dict(pruned=None, schedule=None, outcomes=None)
    monbox = [None]
    desc = describe_cfg(cfg)
    ticks = [0]

    def clock():
        ticks[0] += 1
        return ticks[0]

    try:
        if chooser is not None:
            g.sched.chooser = chooser
        c = g.make_client(k=k, happy=1, n=n, mutable_format=fmt)
        M.tag_client(g, c, "C", monbox)
        initial = b"base"
        if cfg.get("big"):
            # big enough that a read has to fetch blocks from the servers (beyond what a map update's first read caches)
            initial = b"base" + bytes(range(256)) * 117 + b"end"
        existing = ["old-%d" % i for i in range(4)]
        lit = _uri.LiteralFileURI(b"child").to_string()
        if target == "file":
            st, created = g.wait(c.create_mutable_file(MutableData(initial)))
        else:
            kids = {nm: (c.create_node_from_uri(lit), {}) for nm in existing}
            st, created = g.wait(c.create_dirnode(initial_children=kids))
        if st != "ok":
            ck.observe("setup-create-failed")
            return out
        cap = created.get_uri()
        si = created.get_storage_index()
        # ---- one node object per capability string
        route = cfg.get("route")
        if route:
            # the same write-cap reached by two routes: as a child of a directory (stored there as rw+ro pair) and
            # by its bare capability string
            st, parent = g.wait(c.create_dirnode(initial_children={"kid": (created, {})}))
            if st != "ok":
                ck.observe("setup-create-failed")
                return out
            pcap = parent.get_uri()
            del parent
            pn = c.create_node_from_uri(pcap)
            if route == "child-first":
                st, n2 = g.wait(pn.get("kid"))
                n1 = c.create_node_from_uri(cap)
            else:
                n1 = c.create_node_from_uri(cap)
                st, n2 = g.wait(pn.get("kid"))
            if st != "ok":
                ck.observe("setup-create-failed")
                return out
            ck.hit("node-obtained-by-two-routes")
        else:
            n1 = c.create_node_from_uri(cap)
            n2 = c.create_node_from_uri(cap)
        ck.mon("same-cap-same-live-node")
        if n1 is not n2:
            ck.violation("two-live-node-objects-for-one-mutable-cap",
                         "%s on one client returned different live objects for %r... (each has its own serializer)"
                         % ("looking the cap up as a directory child and by its bare string" if route
                            else "two create_node_from_uri calls", cap[:20]), dict(cfg=desc))
        if n1.get_uri() != cap:
            ck.violation("node-cache-returns-node-of-other-cap",
                         "create_node_from_uri(%r...) returned a node whose URI is %r..." % (cap[:24], n1.get_uri()[:24]),
                         dict(cfg=desc))
        if n1 is not created:
            ck.observe("freshly-created-node-is-not-the-cached-node")
        if cfg.get("identity_probe"):
            st2, other = g.wait(c.create_mutable_file(MutableData(b"other file")))
            if st2 == "ok":
                ocap = other.get_uri()
                del other
                o1 = c.create_node_from_uri(ocap)
                ck.mon("lookup-returns-requested-cap")
                if o1.get_uri() != ocap or o1 is n1:
                    ck.violation("node-cache-returns-node-of-other-cap",
                                 "create_node_from_uri(%r...) returned the node of %r..." % (ocap[:24], o1.get_uri()[:24]),
                                 dict(cfg=desc))
                if target == "file":
                    im = c.create_node_from_uri(cap, deep_immutable=True)
                    ck.mon("immutable-context-lookup")
                    if im is n1 or (not im.is_unknown() and im.is_mutable()):
                        ck.violation("immutable-context-lookup-returns-live-mutable-node",
                                     "create_node_from_uri(cap, deep_immutable=True) handed out the cached mutable node",
                                     dict(cfg=desc))
        del created
        damaged = False
        if cfg.get("damage"):
            # damage the block data of every share held by the servers a MODE_READ map update asks first (2k in
            # permuted order): download_best_version then fails its first attempt with NotEnoughSharesError and
            # has to go through its MODE_WRITE fallback, provided k intact shares remain elsewhere
            first = [s_.vserver for s_ in c.get_storage_broker().get_servers_for_psi(si)][:2 * k]
            first_names = set(vs_.name for vs_ in first)
            intact = set(sh for (vs_, sh, _) in g.find_shares(si) if vs_.name not in first_names)
            if len(intact) >= k and first:
                for vs_ in first:
                    for p in vs_.shares_of(si).values():
                        damaged = damage_block_data(p) or damaged
            if not damaged:
                ck.observe("damage-not-applicable")
        out["damaged"] = damaged
        if cfg.get("dupshare"):
            # one share number on two servers (what a server that was away during one write leaves behind): every
            # later publish has two writers for that share number.  One of the two answers its writes late.
            holders0 = [vs_.name for (vs_, sh_, _) in g.find_shares(si) if sh_ == 0]
            broker = c.get_storage_broker()
            if holders0 and nservers >= 2:
                broker.vf_hidden.add(holders0[0])
                if target == "file":
                    st, _r = g.wait(n1.overwrite(MutableData(b"base2")))
                    initial = b"base2"
                    out["seq0"] = 2
                else:
                    st, _r = g.wait(n1.set_node("dup-seed", c.create_node_from_uri(lit)))
                    existing.append("dup-seed")
                broker.vf_hidden.discard(holders0[0])
                holders = sorted(vs_.name for (vs_, sh_, _) in g.find_shares(si) if sh_ == 0)
                if st == "ok" and len(holders) >= 2:
                    ck.hit("share-number-on-two-servers")
                    slow = holders[cfg.get("dup_slow", 0) % len(holders)]
                    [vs_ for vs_ in g.servers if vs_.name == slow][0].add_fault(
                        "delay", method=M.WRITE, delay=cfg.get("dup_delay", 3.0))
                else:
                    ck.observe("dupshare-not-produced")
        mon = M.WireMon(g, si)
        mon.nsent = 0
        _orig_on_send = mon.on_send

        def on_send(rec):
            _orig_on_send(rec)
            if mon._mine(rec):
                mon.nsent += 1
                rec["vf_tick"] = clock()
        mon.on_send = on_send
        monbox[0] = mon
        if stats is not None:
            stats["keyfn"][0] = mon.state_key
            stats["heads"][0] = mon.heads

        with Recorder(clock) as recorder:
            ops = []
            for j, kind in enumerate(kinds):
                op = dict(j=j, kind=kind, box=[], calls=[], serialized=(kind != "version-read"),
                          name="new-%d" % j, content=b"content-%d-" % j + b"z" * (5 * j), tag=b"T%d" % j)
                if kind == "upload":
                    st, sm = g.wait(n1.get_servermap(MODE_WRITE))
                    if st != "ok":
                        ck.observe("setup-survey-failed")
                        return out
                    op["smap"] = sm
                ops.append(op)
            setup_records = len(recorder.records)
            for (sidx, meth, nth) in cfg.get("faults", ()):
                g.servers[sidx % nservers].add_fault("raise", method=meth, nth=nth)
            EXC = {"ConnectionRefusedError": ConnectionRefusedError, "TimeoutError": TimeoutError, "OSError": OSError}
            for cf in cfg.get("cfaults", ()):
                # the request fails on the client side with a bare exception (what the HTTP storage client raises
                # when a server is gone), not with a foolscap RemoteException / DeadReferenceError
                (sidx, meth, nth, excname) = cf[:4]
                pred = None
                if len(cf) > 4 and cf[4] == "block-fetch":
                    pred = lambda args: len(args) > 1 and bool(args[1])     # reads of named shares: Retrieve, not the survey
                M.client_fault(g, g.servers[sidx % nservers].name, EXC[excname], method=meth, nth=nth, tag="C", pred=pred)
            done_order = []
            held = cfg.get("how", "held") == "held"
            weak = []

            def node_for(j):
                if held:
                    return (n1, n2)[j % 2]
                gc.collect()
                nd = c.create_node_from_uri(cap)
                weak.append(weakref.ref(nd))
                return nd

            def start(op, node):
                kind = op["kind"]
                if kind == "download":
                    return node.download_best_version()
                if kind == "overwrite":
                    return node.overwrite(MutableData(op["content"]))
                if kind == "overwrite-raise":
                    class Raising(MutableData):
                        def read(self_, length):
                            op["calls"].append(("read", clock(), list(done_order)))
                            raise RuntimeError("injected: uploadable cannot be read")
                    return node.overwrite(Raising(op["content"]))
                if kind == "upload":
                    return node.upload(MutableData(op["content"]), op["smap"])
                if kind in ("modify", "modify-raise"):
                    def modifier(old, servermap, first_time):
                        op["calls"].append(("modifier", clock(), list(done_order), old))
                        if kind == "modify-raise":
                            raise ValueError("injected: modifier refuses")
                        if op["tag"] in old.split(b"|"):
                            return None
                        return old + b"|" + op["tag"]
                    return node.modify(modifier)
                if kind == "servermap":
                    return node.get_servermap(cfg.get("smode", MODE_READ))
                if kind == "version-read":
                    d = node.get_best_readable_version()

                    def _read(v):
                        mc = MemoryConsumer()
                        d2 = v.read(mc)
                        d2.addCallback(lambda _: b"".join(mc.chunks))
                        return d2
                    d.addCallback(_read)
                    return d
                # directory kinds
                if kind == "set_node":
                    return node.set_node(op["name"], c.create_node_from_uri(lit))
                if kind == "set_uri":
                    return node.set_uri(op["name"], lit, lit)
                if kind == "add_file":
                    return node.add_file(op["name"], Data(b"tiny %d" % op["j"], convergence=b""))
                if kind == "add_file_big":
                    return node.add_file(op["name"], Data(b"big file %d " % op["j"] * 12, convergence=b""))
                if kind == "delete":
                    return node.delete(existing[op["j"] % len(existing)])
                if kind == "delete-missing":
                    return node.delete("never-existed-%d" % op["j"])
                if kind == "rename":
                    return node.move_child_to(existing[op["j"] % len(existing)], node, "renamed-%d" % op["j"])
                if kind == "list":
                    return node.list()
                raise ValueError(kind)

            if chooser is not None and hasattr(chooser, "active"):
                chooser.active = True
            try:
                if not held:
                    del n1, n2
                    n1 = n2 = None
                collide_key = None
                if cfg.get("collide"):
                    # the writes of the burst's first publish are held back until another client has changed the
                    # file: the first attempt of op 0 (a modify / directory edit) ends in UncoordinatedWriteError
                    # and it has to back off and retry, with the other operations queued behind it
                    collide_key = M.hold(g, "C", None, M.WRITE)
                for op in ops:
                    before = mon.nsent
                    # (an add_file joins the node's queue only when its upload is done: not counted as "pending")
                    earlier_pending = [o["j"] for o in ops[:op["j"]]
                                       if o["serialized"] and not o["box"] and not o["kind"].startswith("add_file")]
                    op["issued"] = clock()
                    nd = node_for(op["j"])
                    d = start(op, nd)
                    del nd

                    def _done(res, op=op):
                        op["box"].append(res)
                        op["done"] = clock()
                        done_order.append(op["j"])
                        if op["serialized"]:
                            # everything this operation wrote must have been answered before it reports completion
                            # (the next queued operation starts at this moment); an upload() queued next publishes at
                            # once, so its writes may legitimately be on their way already
                            nxt = ops[op["j"] + 1]["kind"] if op["j"] + 1 < len(ops) else None
                            pending_w = [rec["label"] for rec in g.calls if rec.get("vf_tick") and rec["method"] == M.WRITE
                                         and rec["state"] != "answered"]
                            ck.mon("no-write-outstanding-at-completion")
                            if pending_w and nxt != "upload" and not any(o["kind"] == "upload" for o in ops):
                                ck.violation("operation-completes-while-its-write-is-outstanding",
                                             "%s (op %d) reported completion while storage write(s) %r of the file were "
                                             "still unanswered: the next queued operation starts before this one finished"
                                             % (op["kind"], op["j"], pending_w[:3]),
                                             dict(cfg=desc, wire=mon.log_tail(16)))
                        return None
                    d.addBoth(_done)
                    sent = mon.nsent - before
                    ck.mon("silent-while-earlier-op-pending")
                    if op["serialized"] and earlier_pending and sent:
                        ck.violation("operation-starts-before-previous-finished",
                                     "requesting %s (op %d) sent %d storage request(s) for the file at once although "
                                     "operation(s) %r requested earlier on the same node were still pending"
                                     % (op["kind"], op["j"], sent, earlier_pending),
                                     dict(cfg=desc, wire=mon.log_tail(12)))
                if not held:
                    gc.collect()
                    live = set(id(w()) for w in weak if w() is not None)
                    ck.mon("same-cap-same-live-node")
                    if len(live) > 1:
                        ck.violation("two-live-node-objects-for-one-mutable-cap",
                                     "%d distinct live node objects served the lookups of one cap while operations were "
                                     "in flight" % len(live), dict(cfg=desc))
                if collide_key is not None:
                    g.sched.run(until=lambda: M.held(g, collide_key) >= 1 or all(op["box"] for op in ops),
                                max_steps=300000, horizon=3600.0)
                    if M.held(g, collide_key) >= 1:
                        out["done_before_competitor"] = list(done_order)
                        cx = g.make_client(k=k, happy=1, n=n, mutable_format=fmt)
                        M.tag_client(g, cx, "X", [None])
                        xn = cx.create_node_from_uri(cap)
                        if target == "file":
                            dx = xn.modify(lambda old, sm, first: old if b"X" in old.split(b"|") else old + b"|X")
                        else:
                            dx = xn.set_node("competitor", cx.create_node_from_uri(lit))
                        xbox = []
                        dx.addBoth(xbox.append)
                        g.sched.run(until=lambda: bool(xbox), max_steps=300000, horizon=3600.0)
                        if xbox and not is_failure(xbox[0]):
                            out["competitor"] = True
                            ck.hit("first-attempt-collides-with-another-writer")
                        else:
                            ck.observe("competitor-write-failed")
                    M.release(g, collide_key)
                st = g.sched.run(until=lambda: all(op["box"] for op in ops), max_steps=300000, horizon=6 * 3600.0)
            except M.Prune as e:
                out["pruned"] = str(e)
                return out
            finally:
                if chooser is not None and hasattr(chooser, "active"):
                    chooser.active = False
            out["schedule"] = g.sched.schedule_hash()
            out["witness"] = ([p[1] for p in chooser.points] if hasattr(chooser, "points")
                              else dict(sched_seed=sched_seed, profile=cfg.get("profile")))
            evaluate(ck, cfg, g, c, cap, mon, recorder, setup_records, ops, done_order, initial, existing, out, mode,
                     damaged)
        return out
    finally:
        g.pre_delivery = g.post_delivery = None
        g.close()


def evaluate(ck, cfg, g, c, cap, mon, recorder, setup_records, ops, done_order, initial, existing, out, mode,
             damaged=False):
    from allmydata.mutable.common import MODE_CHECK
    desc = describe_cfg(cfg)
    target = cfg["target"]
    faults = bool(cfg.get("faults") or cfg.get("cfaults"))
    if any(f["fired"] for f in getattr(g, "vf_client_faults", ())):
        ck.hit("request-failed-with-bare-exception")
    if any(f["fired"] and f.get("pred") for f in getattr(g, "vf_client_faults", ())):
        ck.hit("block-fetch-failed-with-bare-exception")
    outcomes = []
    for op in ops:
        if not op["box"]:
            outcomes.append("pending")
        elif is_failure(op["box"][0]):
            outcomes.append("err:" + op["box"][0].type.__name__)
        else:
            outcomes.append("ok")
    out["outcomes"] = outcomes
    wit = dict(cfg=desc, outcomes=outcomes, completion_order=done_order, schedule=out.get("witness"))

    # ---- liveness: nothing pending at quiescence
    ck.mon("every-operation-completes")
    pend = [op["j"] for op, oc in zip(ops, outcomes) if oc == "pending"]
    failed_before = [op["j"] for op, oc in zip(ops, outcomes) if oc.startswith("err")]
    if pend:
        rec_failed = [r for r in recorder.records[setup_records:] if r["start"] is not None and r["end"] is not None]
        ck.violation("operation-never-completes",
                     "operation(s) %r have neither called back nor errbacked although nothing is left to run "
                     "(failed operations in this case: %r)" % (pend, failed_before), wit)
        return
    for oc, op in zip(outcomes, ops):
        ck.hit("op-failed" if oc.startswith("err") else "op-succeeded")
        ck.observe("%s-%s" % (op["kind"], oc))

    # ---- completion in request order (add_file joins the queue only after its upload)
    ser = [op["j"] for op in ops if op["serialized"] and op["kind"] not in MULTI_ENTRY]
    comp = [j for j in done_order if j in ser]
    ck.mon("completion-in-request-order")
    if comp != sorted(comp):
        ck.violation("operations-complete-out-of-request-order",
                     "serialized operations completed in order %r, requested in order %r" % (comp, sorted(comp)), wit)
    if any(not op["serialized"] for op in ops):
        ck.skip("unserialized-version-read-not-judged-for-order")

    # ---- harness-visible callbacks (modifier) must not run before the previous operation reported completion
    if cfg.get("ev_first"):
        for op in ops:
            if op["kind"] in ("modify", "modify-raise") and op["calls"]:
                first = op["calls"][0]
                need = [o["j"] for o in ops[:op["j"]] if o["serialized"] and o["kind"] not in MULTI_ENTRY]
                ck.mon("modifier-runs-after-previous-completion")
                missing = [j for j in need if j not in first[2]]
                if missing:
                    ck.violation("modifier-invoked-while-earlier-operation-pending",
                                 "the modifier of op %d ran while earlier operation(s) %r had not completed" % (op["j"], missing),
                                 wit)

    # ---- recorder (class-level, informational dependency on the method name)
    if recorder.installed:
        recs = [r for r in recorder.records[setup_records:] if r["si"] == mon.si]
        if recs:
            ck.mon("bodies-do-not-overlap")
            started = [r for r in recs if r["start"] is not None]
            never = [r for r in recs if r["start"] is None]
            if never:
                ck.violation("serialized-body-never-started",
                             "%d requested bodies (%s) never started although everything completed; earlier failures: %r"
                             % (len(never), ",".join(r["name"] for r in never), failed_before), wit)
            order = sorted(started, key=lambda r: r["start"])
            for a, b in zip(order, order[1:]):
                if a["end"] is None or b["start"] < a["end"]:
                    ck.violation("serialized-bodies-overlap",
                                 "body %s started at tick %s before body %s (started %s) finished (%s)%s"
                                 % (b["name"], b["start"], a["name"], a["start"], a["end"],
                                    "" if a["node"] == b["node"] else " -- on two different node objects of one cap"), wit)
                    break
            if [r["req"] for r in order] != sorted(r["req"] for r in order):
                ck.violation("serialized-bodies-start-out-of-request-order",
                             "bodies started in an order different from the order they were requested", wit)
            # every storage request for the file falls into exactly one body
            outside = 0
            for rec in g.calls:
                t = rec.get("vf_tick")
                if t is None:
                    continue
                inside = [r for r in recorder.records if r["si"] == mon.si and r["start"] is not None
                          and r["start"] <= t and (r["end"] is None or t <= r["end"])]
                if len(inside) != 1:
                    outside += 1
            if outside:
                ck.observe("storage-requests-outside-serialized-bodies", outside)
                ck.mon("storage-traffic-inside-serialized-section")
                if all(op["serialized"] for op in ops):
                    ck.violation("storage-traffic-outside-the-serialized-section",
                                 "%d storage request(s) for the file were sent while no serialized body of the node was "
                                 "running (part of an operation runs outside the node's queue and interleaves with the "
                                 "next operation)" % outside, wit)
            else:
                ck.mon("storage-traffic-inside-serialized-section")
            if len(set(r["node"] for r in recs)) > 1:
                ck.observe("bodies-ran-on-several-node-objects")
    else:
        ck.observe("recorder-unavailable")

    # ---- sequential reference model (request order)
    if out.get("competitor") and (out.get("done_before_competitor") or ops[0]["kind"] in MULTI_ENTRY):
        # the competing client's write did not land in front of the whole burst (operations had already completed, or
        # the first operation queues its publish late): the reference model does not place it, results are not judged
        ck.skip("results-not-judged-competitor-landed-mid-burst")
        return
    if faults:
        ck.skip("results-not-judged-under-server-faults")
        ck.hit("case-with-server-faults")
        if failed_before and any(oc == "ok" for op, oc in zip(ops, outcomes) if op["j"] > failed_before[0]):
            ck.hit("operation-succeeds-after-failed-one")
        return
    if target == "file":
        content, seq, publishes = initial, out.get("seq0", 1), 0
        if out.get("competitor"):
            # the other client's write landed before the first publish of this burst could
            content, seq, publishes = content + b"|X", seq + 1, 1
        for op, oc in zip(ops, outcomes):
            kind, res = op["kind"], op["box"][0]
            exp_ok, exp_val = True, None
            if kind == "download":
                exp_val = content
                if damaged and publishes == 0 and oc == "ok":
                    ck.hit("download-needed-the-mode-write-fallback" if second_survey_seen(g, op)
                           else "damaged-read-without-second-survey")
            elif kind == "overwrite":
                content, seq, publishes = op["content"], seq + 1, publishes + 1
            elif kind == "upload":
                if publishes == 0:
                    content, seq, publishes = op["content"], seq + 1, publishes + 1
                else:
                    exp_ok = False     # its servermap is stale: every write is refused
            elif kind == "modify":
                content, seq, publishes = content + b"|" + op["tag"], seq + 1, publishes + 1
            elif kind in ("modify-raise", "overwrite-raise"):
                exp_ok = False
            elif kind == "servermap":
                exp_val = ("seq", seq)
            elif kind == "version-read":
                continue
            judge(ck, op, oc, res, exp_ok, exp_val, wit, failed_before)
        rn = c.create_node_from_uri(cap)
        st, data = g.wait(rn.download_best_version())
        ck.mon("final-state-equals-serial-model")
        if st != "ok" or data != content:
            ck.violation("final-contents-differ-from-serial-execution",
                         "after all operations the file reads %r, sequential execution in request order gives %r"
                         % (data if st == "ok" else _f(data), content), wit)
    else:
        names = set(existing)      # what a read at this position must show
        optional = set()           # what it may show in addition (edits that join the queue late)
        final = set(existing)      # what is there when everything completed
        if out.get("competitor"):
            names.add("competitor")
            final.add("competitor")
        for op, oc in zip(ops, outcomes):
            kind, res = op["kind"], op["box"][0]
            exp_ok, exp_val = True, None
            if kind in ("set_node", "set_uri"):
                names.add(op["name"])
                final.add(op["name"])
            elif kind.startswith("add_file"):
                optional.add(op["name"])
                final.add(op["name"])
            elif kind == "delete":
                nm = existing[op["j"] % len(existing)]
                if nm in names:
                    names.discard(nm)
                    final.discard(nm)
                else:
                    exp_ok = False
            elif kind == "rename":
                # read, relink, unlink: the relink/unlink join the queue after everything requested in this burst
                src, dst = existing[op["j"] % len(existing)], "renamed-%d" % op["j"]
                if src in names:
                    names.discard(src)
                    optional.update((src, dst))
                    final.discard(src)
                    final.add(dst)
                    ck.hit("rename-races-other-directory-edits" if len(ops) > 1 else "rename-alone")
                else:
                    exp_ok = False
            elif kind == "delete-missing":
                exp_ok = False
            elif kind == "list":
                exp_val = ("names", set(names), set(optional))
                if damaged and oc == "ok" and not any(
                        o["kind"] in ("set_node", "set_uri", "add_file", "add_file_big", "delete", "rename")
                        for o in ops[:op["j"]]):
                    ck.hit("download-needed-the-mode-write-fallback" if second_survey_seen(g, op)
                           else "damaged-read-without-second-survey")
            judge(ck, op, oc, res, exp_ok, exp_val, wit, failed_before)
        rn = c.create_node_from_uri(cap)
        st, listing = g.wait(rn.list())
        ck.mon("final-state-equals-serial-model")
        adds = [op for op in ops if op["kind"] in ("set_node", "set_uri", "add_file", "add_file_big")]
        if len(adds) >= 2:
            ck.hit("concurrent-directory-additions")
        if st != "ok":
            ck.violation("final-contents-differ-from-serial-execution", "final listing failed: %s" % _f(listing), wit)
        else:
            got = set(listing.keys())
            want = final
            if got != want:
                lost = sorted(want - got)
                ck.violation("directory-update-lost" if lost else "final-contents-differ-from-serial-execution",
                             "final listing %r; sequential execution gives %r (lost: %r)" % (sorted(got), sorted(want), lost),
                             wit)


def second_survey_seen(g, op):
    """Wire evidence that a read went through its fallback: between its request and its completion some server was
    asked for all shares of the file a second time (the first survey's version could not be retrieved)."""
    per_server = {}
    for rec in g.calls:
        t = rec.get("vf_tick")
        if t is None or rec["method"] != "slot_readv" or rec["args"][1]:
            continue
        if op["issued"] <= t <= op.get("done", 1 << 60):
            per_server[rec["server"]] = per_server.get(rec["server"], 0) + 1
    return any(v >= 2 for v in per_server.values())


def judge(ck, op, oc, res, exp_ok, exp_val, wit, failed_before):
    ck.mon("result-equals-serial-model")
    after_failure = bool([j for j in failed_before if j < op["j"]])
    if after_failure:
        ck.hit("operation-judged-after-failed-one")
    label = "%s (op %d)" % (op["kind"], op["j"])
    if exp_ok and oc != "ok":
        key = "operation-after-failed-one-fails" if after_failure else "operation-fails-unlike-serial-execution"
        ck.violation(key, "%s failed with %s; executed one at a time in request order it succeeds%s"
                     % (label, _f(res), " (an earlier operation had failed)" if after_failure else ""), wit)
        return
    if not exp_ok:
        if oc == "ok":
            ck.violation("operation-succeeds-unlike-serial-execution",
                         "%s succeeded; executed one at a time in request order it fails" % label, wit)
        return
    if exp_val is None:
        return
    if isinstance(exp_val, tuple) and exp_val[0] == "seq":
        try:
            best = res.best_recoverable_version()
            got = best[0] if best else None
        except Exception as e:
            got = repr(e)
        if got != exp_val[1]:
            ck.violation("read-does-not-see-exactly-the-earlier-writes",
                         "%s reports best version #%r; the writes requested before it give #%d" % (label, got, exp_val[1]), wit)
    elif isinstance(exp_val, tuple) and exp_val[0] == "names":
        got = set(res.keys())
        if not (exp_val[1] <= got <= (exp_val[1] | exp_val[2])):
            ck.violation("read-does-not-see-exactly-the-earlier-writes",
                         "%s lists %r; the edits requested before it give %r (+ optionally %r)"
                         % (label, sorted(got), sorted(exp_val[1]), sorted(exp_val[2])), wit)
    else:
        if res != exp_val:
            ck.violation("read-does-not-see-exactly-the-earlier-writes",
                         "%s returned %r; the writes requested before it give %r" % (label, res, exp_val), wit)


# ------------------------------------------------------------------ configuration spaces

def dfs_configs():
    out = []
    file_sets = [("overwrite", "download"), ("modify", "modify"), ("download", "overwrite"), ("modify-raise", "download"),
                 ("overwrite", "servermap"), ("upload", "modify"), ("overwrite-raise", "modify"),
                 ("modify", "overwrite", "download"), ("overwrite", "modify-raise", "modify"), ("modify", "modify", "modify"),
                 ("download", "modify", "servermap"), ("upload", "upload", "download")]
    dir_sets = [("set_node", "set_node"), ("set_node", "list"), ("delete", "set_uri"), ("delete-missing", "set_node"),
                ("set_node", "set_uri", "list"), ("set_node", "set_node", "set_node"), ("add_file", "set_node"),
                ("delete-missing", "set_node", "list"), ("set_node", "delete", "set_uri")]
    for fmt in ("SDMF", "MDMF"):
        for (k, n) in ((1, 3), (2, 3)):
            for ops in file_sets:
                out.append(dict(target="file", ops=ops, fmt=fmt, k=k, n=n, nservers=3, profile="free", ev_first=True,
                                how="held", key="dfs/file/%s/%d/%d/%s" % (fmt, k, n, "+".join(ops))))
            for ops in dir_sets:
                out.append(dict(target="dir", ops=ops, fmt=fmt, k=k, n=n, nservers=3, profile="free", ev_first=True,
                                how="held", key="dfs/dir/%s/%d/%d/%s" % (fmt, k, n, "+".join(ops))))
    for fmt in ("SDMF", "MDMF"):
        for ops in (("download", "overwrite"), ("download", "modify"), ("download", "download"), ("download", "servermap"),
                    ("download", "overwrite", "download")):
            out.append(dict(target="file", ops=ops, fmt=fmt, k=1, n=3, nservers=3, profile="free", ev_first=True,
                            how="held", damage=True, key="dfs/file-damaged/%s/1/3/%s" % (fmt, "+".join(ops))))
        for ops in (("list", "set_node"), ("list", "delete", "list")):
            out.append(dict(target="dir", ops=ops, fmt=fmt, k=1, n=3, nservers=3, profile="free", ev_first=True,
                            how="held", damage=True, key="dfs/dir-damaged/%s/1/3/%s" % (fmt, "+".join(ops))))
        for ops in (("rename", "set_uri"), ("rename", "delete"), ("rename", "set_uri", "list"), ("set_node", "rename", "delete")):
            out.append(dict(target="dir", ops=ops, fmt=fmt, k=1, n=3, nservers=3, profile="free", ev_first=True,
                            how="held", rename=True, key="dfs/dir-rename/%s/1/3/%s" % (fmt, "+".join(ops))))
        for (target, ops, route) in (("file", ("overwrite", "download"), "child-first"),
                                     ("file", ("modify", "modify"), "bare-first"),
                                     ("file", ("overwrite", "modify", "download"), "child-first"),
                                     ("dir", ("set_node", "set_node"), "child-first"),
                                     ("dir", ("set_uri", "list"), "bare-first")):
            out.append(dict(target=target, ops=ops, fmt=fmt, k=1, n=3, nservers=3, profile="free", ev_first=True,
                            how="held", route=route, key="dfs/%s-routes/%s/1/3/%s/%s" % (target, fmt, "+".join(ops), route)))
    return out


def random_cfg(rng):
    target = rng.choice(["file", "file", "dir"])
    nops = rng.choice([2, 3, 3, 4, 4])
    nservers = rng.choice([1, 2, 3, 3, 4, 6])
    k = rng.choice([1, 1, 2, 3])
    n = rng.randint(k, 6)
    ops = gen_ops(rng, target, nops)
    cfg = dict(target=target, ops=ops, fmt=rng.choice(["SDMF", "MDMF"]), k=k, n=n, nservers=nservers,
               profile=rng.choice(["free", "per-server-fifo", "fifo"]), ev_first=rng.random() < .5,
               how=("held" if "upload" in ops else rng.choice(["held", "held", "temp"])), keyidx=rng.randrange(4),
               identity_probe=rng.random() < .25)
    if rng.random() < .3:
        # the node is reached once as a directory child and once by its bare cap; operations alternate between the two
        cfg["route"] = rng.choice(["child-first", "bare-first"])
        cfg["how"] = "held"
    if target == "dir" and "rename" not in ops and rng.random() < .35:
        ops = ("rename",) + tuple(ops[1:]) if rng.random() < .6 else tuple(ops[:-1]) + ("rename",)
        cfg["ops"] = ops
    if rng.random() < .35:
        # shares on the servers a read asks first are damaged: reads need the MODE_WRITE fallback
        cfg["k"] = k = rng.choice([1, 1, 2])
        cfg["nservers"] = nservers = rng.choice([2 * k + 1, 2 * k + 2, 2 * k + 3])
        cfg["n"] = n = rng.randint(nservers, nservers + 2)
        cfg["damage"] = True
        lead = "download" if target == "file" else "list"
        cfg["ops"] = ops = (lead,) + tuple(o for o in ops[1:])
    elif rng.random() < .18:
        # the first operation of the burst is a modify / directory edit whose first attempt collides with another client
        # (single-step operations only: a rename's first serialized step is a read, so the operations queued behind it
        # would run before the first publish of the burst -- and before the competitor that this publish triggers)
        first = "modify" if target == "file" else rng.choice(["set_node", "set_uri", "delete"])
        cfg["ops"] = ops = (first,) + tuple(ops[1:])
        cfg["collide"], cfg["how"] = True, "held"
        cfg["k"] = k = rng.choice([1, 1, 2])
        cfg["nservers"] = nservers = rng.choice([1, 2, 3, 4])
        cfg["n"] = rng.randint(k, 5)
    elif target == "file" and rng.random() < .2:
        # a block fetch of a read (not a map-update query) fails with a bare exception; the file is big enough that
        # reads really fetch blocks from the servers
        cfg["big"] = True
        cfg["cfaults"] = tuple((rng.randrange(nservers), "slot_readv", rng.randint(1, 3),
                                rng.choice(["ConnectionRefusedError", "TimeoutError", "OSError"]), "block-fetch")
                               for _ in range(rng.randint(1, nservers)))
        lead = rng.choice(["download", "modify", "download"])
        cfg["ops"] = ops = (lead,) + tuple(ops[1:])
    elif target == "file" and rng.random() < .25 or (target == "dir" and rng.random() < .15):
        # a share number on two servers, one of them slow to answer writes; the burst starts with a writing operation
        cfg["k"], cfg["n"], cfg["nservers"] = rng.choice([(1, 3, 3), (1, 4, 3), (2, 4, 4), (1, 2, 2), (2, 6, 3)])
        cfg["dupshare"], cfg["dup_slow"], cfg["dup_delay"] = True, rng.randrange(2), rng.choice([0.5, 3.0, 20.0])
        first = rng.choice(["overwrite", "modify"]) if target == "file" else rng.choice(["set_node", "set_uri", "delete"])
        cfg["ops"] = ops = (first,) + tuple(o for o in ops[1:] if o != "upload")
        if len(cfg["ops"]) < 2:
            cfg["ops"] = ops = (first, "download" if target == "file" else "list")
        cfg["how"] = "held"
    elif rng.random() < .3:
        cfg["cfaults"] = tuple((rng.randrange(nservers), "slot_readv", rng.randint(1, 2 * nservers + 2),
                                rng.choice(["ConnectionRefusedError", "TimeoutError", "OSError"]))
                               for _ in range(rng.randint(1, nservers)))
    elif rng.random() < .3:
        meths = ["slot_readv", "slot_testv_and_readv_and_writev"]
        cfg["faults"] = tuple((rng.randrange(nservers), rng.choice(meths), rng.randint(1, 6))
                              for _ in range(rng.randint(1, 2 * nservers)))
    cfg["key"] = "rnd/%s" % (sorted((kk, repr(v)) for kk, v in cfg.items()),)
    return cfg


class EvFirst(object):
    """Random chooser that runs client-local steps before any message delivery (an eventual-send is a zero-delay
    timer: it fires before network traffic that has not arrived yet)."""

    def __init__(self, rng):
        self.rng = rng

    def __call__(self, labels):
        if "ev" in labels:
            return labels.index("ev")
        for i, l in enumerate(labels):
            if l.startswith("thr"):
                return i
        if "now" in labels:
            return labels.index("now")
        return self.rng.randrange(len(labels))


def explore_config(ck, cfg, max_runs, deadline, totals):
    from vf.checks import _mutmon as M
    stats = dict(keyfn=[None], heads=[None])

    def run_fn(chooser):
        res = None
        with ck.watchdog(120, "dfs %s" % cfg["key"]):
            res = run_case(ck, cfg, "dfs", chooser=chooser, sched_seed=0, stats=stats)
        return res

    dfs = M.Dfs(run_fn, stats["keyfn"], stats["heads"])
    while not dfs.finished():
        if dfs.runs >= max_runs or _time.time() > deadline:
            break
        ch, res = dfs.step()
        if res is None:
            break
        if res["pruned"] is None and res.get("schedule"):
            dfs.schedules.add(res["schedule"])
            ck.case("dfs-%s" % cfg["target"], key=(cfg["key"], res["schedule"]), nontrivial=True,
                    sample=dict(cfg=describe_cfg(cfg), outcomes=res["outcomes"], choice_points=len(ch.points)))
    for nm in ("runs", "complete", "pruned_visited", "pruned_sleep", "diverged"):
        totals[nm] += getattr(dfs, nm)
    totals["schedules"] += len(dfs.schedules)
    totals["states"] += len(dfs.visited)
    if dfs.finished() and dfs.diverged == 0:
        totals["exhausted"] += 1
        totals["exhausted_keys"].append(cfg["key"])
        return True
    totals["budgeted"] += 1
    return False


def run(ck):
    from vf.checks import _mutmon as M
    with M.fast_tmp():
        _run(ck)


def _run(ck):
    ck.rule = ("case = (file or directory target, 2-4 operation kinds requested in one burst through one client, format, "
               "k, N, servers, node handles kept or dropped, injected failing modifiers/uploadables/server faults, "
               "schedule); DFS enumerates delivery orders (per-connection FIFO, local steps first) of 2-3 operations on "
               "3 servers up to commutation; distinct = distinct schedule hash per configuration; non-trivial = at "
               "least one writing operation among >= 2")
    t0 = _time.time()
    budget = ck.budget_s or BUDGET[ck.tier]
    totals = dict(runs=0, complete=0, schedules=0, pruned_visited=0, pruned_sleep=0, diverged=0, states=0,
                  exhausted=0, budgeted=0, exhausted_keys=[])
    cfgs = dfs_configs()
    if ck.tier == "quick":
        r = ck.rng("dfs-pick")
        special = lambda c: c.get("damage") or c.get("route") or c.get("rename")
        picked = (r.sample([c for c in cfgs if c.get("damage")], 2) + r.sample([c for c in cfgs if c.get("route")], 1)
                  + r.sample([c for c in cfgs if c.get("rename")], 1) + r.sample([c for c in cfgs if not special(c)], 2))
        per_cfg_runs, share = 120, 0.5
    else:
        picked = [c for i, c in enumerate(cfgs) if ck.mine(i)]
        per_cfg_runs, share = 2500, 0.65
    dfs_deadline = t0 + budget * share
    all_finished = True
    for j, cfg in enumerate(picked):
        if _time.time() > dfs_deadline:
            all_finished = False
            ck.observe("dfs-config-not-started")
            continue
        left = len(picked) - j
        slot = max(2.0, (dfs_deadline - _time.time()) / left * (1.5 if left > 1 else 1.0))
        done = explore_config(ck, cfg, per_cfg_runs, min(dfs_deadline, _time.time() + slot), totals)
        all_finished = all_finished and done
    ck.exhaustive = bool(all_finished and totals["exhausted"] > 0)
    ck.extra["dfs_runs"] = totals["runs"]
    ck.extra["dfs_complete_runs"] = totals["complete"]
    ck.extra["dfs_distinct_complete_schedules"] = totals["schedules"]
    ck.extra["dfs_distinct_states"] = totals["states"]
    ck.extra["dfs_pruned_visited"] = totals["pruned_visited"]
    ck.extra["dfs_pruned_sleep_blocked"] = totals["pruned_sleep"]
    ck.extra["dfs_replay_divergences"] = totals["diverged"]
    ck.extra["dfs_configs_exhausted"] = totals["exhausted"]
    ck.extra["dfs_configs_budgeted"] = totals["budgeted"]
    ck.extra["dfs_exhausted_sample"] = totals["exhausted_keys"][:8]

    i = 0
    schedules = set()
    min_cases = ck.evaluations + (150 if ck.tier == "quick" else 300)
    while ck.more(min_cases=min_cases):
        i += 1
        if not ck.mine(i):
            continue
        rng = ck.rng("rnd", i)
        cfg = random_cfg(rng)
        seed = rng.getrandbits(32)
        chooser = EvFirst(_random.Random("evfirst/%s" % seed)) if cfg["ev_first"] else None
        with ck.watchdog(180, "random case %d" % i):
            res = run_case(ck, cfg, "random", chooser=chooser, sched_seed=seed)
            if res.get("schedule"):
                schedules.add(res["schedule"])
                ck.case("random-%s" % cfg["target"], key=(cfg["key"], res["schedule"]),
                        nontrivial=len(cfg["ops"]) >= 2,
                        sample=dict(cfg=describe_cfg(cfg), outcomes=res["outcomes"]))
    ck.extra["random_distinct_schedules"] = len(schedules)
    ck.require_monitor("same-cap-same-live-node", "silent-while-earlier-op-pending", "completion-in-request-order",
                       "result-equals-serial-model", "final-state-equals-serial-model", "every-operation-completes",
                       "lookup-returns-requested-cap")
    ck.require_reach("op-failed", "op-succeeded", "operation-judged-after-failed-one", "concurrent-directory-additions",
                     "case-with-server-faults", "download-needed-the-mode-write-fallback",
                     "node-obtained-by-two-routes", "rename-races-other-directory-edits",
                     "share-number-on-two-servers", "request-failed-with-bare-exception",
                     "first-attempt-collides-with-another-writer", "block-fetch-failed-with-bare-exception")
    ck.assumptions.append("DFS and ev_first cases run client-local steps before message deliveries; the other random "
                          "cases interleave them freely")
    ck.assumptions.append("exhaustive=true refers only to the DFS configurations counted in dfs_configs_exhausted")


# MUST_CATCH (/verif/selftest/breaks_c13.py; all 8 caught at quick tier)
#   c13-do-serialized-calls-cb-directly       filenode.py   -> operation-starts-before-previous-finished, operations-complete-out-of-
#                                                              request-order, read-does-not-see-exactly-the-earlier-writes, directory-
#                                                              update-lost, serialized-bodies-overlap (recorder), ...
#   c13-queue-not-advanced                    filenode.py   -> same keys (needs >= 3 operations)
#   c13-failure-never-reported                filenode.py   -> operation-never-completes
#   c13-failure-blocks-chain                  filenode.py   -> operation-after-failed-one-fails, serialized-body-never-started
#   c13-nodemaker-does-not-cache-mutable      nodemaker.py  -> two-live-node-objects-for-one-mutable-cap (+ ordering keys)
#   c13-nodemaker-does-not-cache-dirnodes     nodemaker.py  -> two-live-node-objects-for-one-mutable-cap, directory-update-lost
#   c13-nodemaker-cache-key-truncated         nodemaker.py  -> node-cache-returns-node-of-other-cap
#   c13-nodemaker-cache-key-without-prefix    nodemaker.py  -> immutable-context-lookup-returns-live-mutable-node
