"""C02 immutable downloads never return wrong bytes."""
META = {
    "level": "exploration",
    "technique": "runtime monitoring: prefix/equality oracle on every byte the real downloader hands to the consumer while a share adversary corrupts, truncates, substitutes and forges shares (incl. a self-consistent malicious-uploader share set) under seeded schedules",
    "text": "Honest upload on the in-process grid, then mechanism-directed and random damage to any subset of shares before and between reads (bit flips per section, truncation at structural boundaries, offset-table edits, re-packed URI extension blocks, share-hash/block-hash/ciphertext-hash node edits, block overwrites, share-number swaps, shares of another file or encoding, servers that flip bytes in their answers, and a forged self-consistent mixed share set that only the ciphertext check can reject). Every chunk delivered must extend a correct prefix of the requested range and a success callback requires exact equality. Reach counters show each rejection branch fired.",
    "note": "Ground truth is the uploaded plaintext (for the forged set: the plaintext the ciphertext hash root commits to). Trusts Wire/virtual reactor; sampled exploration.",
}
BUDGET = {"quick": 45, "thorough": 480}

from vf import env  # noqa
import os
import struct

FAMILIES = ["flip", "truncate", "offsets", "ueb", "sharehash", "blockhash", "cthash", "block",
            "swapshare", "otherfile", "otherenc", "flapping", "forged", "sizefields", "flip", "block", "coordinated"]


def run(ck):
    from vf import monitor
    from allmydata.immutable.downloader.share import Share
    from allmydata.immutable.downloader.node import DownloadNode
    from allmydata.hashtree import IncompleteHashTree

    ck.rule = ("case = honest upload (k<=N<=8, size 56..8000, several segments) + one damage family applied to a "
               "subset of shares (1, N-k, N-k+1 or all) + 1..3 reads (full / ranges; same node and fresh node; "
               "damage re-applied between reads); distinct = (family, k, N, size, segsize, #damaged, detail); "
               "non-trivial = at least one share actually changed or one answer altered")
    undo = []
    for args in [(monitor.count_callers, Share, "_signal_corruption", "corruption-signalled"),
                 (monitor.count_calls, DownloadNode, "_check_ciphertext_hash", "check_ciphertext_hash"),
                 (monitor.count_calls, DownloadNode, "validate_and_store_UEB", "validate_and_store_UEB"),
                 (monitor.count_calls, Share, "_satisfy_offsets", "satisfy_offsets"),
                 (monitor.count_calls, IncompleteHashTree, "set_hashes", "hashtree.set_hashes")]:
        try:   # informational reach counters on internal names: absence after a refactoring is not a verdict
            undo.append(args[0](ck, *args[1:]))
        except Exception:
            ck.observe("reach-hook-unavailable:" + args[2])
    try:
        i = 0
        while ck.more(min_cases=160):
            i += 1
            if not ck.mine(i):
                continue
            crng = ck.rng("case", i)
            fam = FAMILIES[(i // max(1, ck.nshards)) % len(FAMILIES)]
            try:
                with ck.watchdog(180, "case %d family %s" % (i, fam)):
                    one_case(ck, crng, fam)
            except ScratchFailed as e:
                ck.observe("scratch-upload-failed")
            if ck.tier == "quick" and ck.evaluations >= 1500:
                break
    finally:
        for u in undo:
            u()
    ck.require_monitor("prefix-oracle", "completion-oracle")
    # behavioural reach (independent of internal names): damage was applied and reads both failed and survived
    ck.require_reach("read-succeeded-despite-damage", "read-failed", "forged-mixed-set-read", "coordinated-forgery-read",
                     "sibling-cap-with-same-storage-index-alive")


class ScratchFailed(Exception):
    pass


def gen(rng):
    n = rng.choice([1, 2, 3, 4, 4, 5, 6, 8])
    k = rng.randint(1, n)
    segsize = rng.choice([16, 56, 64, 100, 128, 1024])
    size = rng.choice([56, 57, 100, segsize * 2, segsize * 3 + 1, rng.randint(56, 4000), rng.randint(56, 8000)])
    size = max(56, size)
    eff = max(1, ((min(segsize, size) + k - 1) // k) * k)
    while size // eff > 30:
        segsize *= 4
        eff = max(1, ((min(segsize, size) + k - 1) // k) * k)
    nservers = max(1, rng.randint(n - 1, n + 2))
    return dict(k=k, n=n, happy=1, segsize=segsize, size=size, nservers=nservers)


def one_case(ck, rng, fam):
    from vf.grid import VGrid
    from vf import imm
    from allmydata import uri

    p = gen(rng)
    k, n, size = p["k"], p["n"], p["size"]
    data = imm.gen_data(rng, size)
    key = rng.randbytes(16)
    profile = rng.choice(["fifo", "per-server-fifo", "free"])
    desc = dict(p, family=fam, profile=profile)
    detail = []
    changed = [0]

    forged = None
    other = None
    if fam == "forged":
        data_b = imm.gen_data(rng, size)
        if data_b == data:
            data_b = bytes((b + 1) % 256 for b in data)
        try:
            cap_a, sa = imm.honest_shares(p["nservers"], p, data, key)
            cap_b, sb = imm.honest_shares(p["nservers"], p, data_b, key)
        except RuntimeError:
            raise ScratchFailed()
        if len(sa) < n or len(sb) < n:
            raise ScratchFailed()
        nb = rng.choice([1, 1, max(1, n - k), max(1, n - k + 1), n])
        from_b = set(rng.sample(range(n), min(n, nb)))
        cap, forged = imm.forge_mixed_set(sa, sb, from_b, k, n, size, key)
        detail.append("from_b=%s" % sorted(from_b))
        changed[0] = len(from_b)
    elif fam in ("otherfile", "otherenc"):
        p2 = dict(p)
        if fam == "otherenc":
            # same key and plaintext, other encoding
            p2["k"] = rng.choice([x for x in range(1, n + 1) if x != k] or [k])
            if rng.random() < .5:
                p2["segsize"] = p["segsize"] * 2
            try:
                cap2, other = imm.honest_shares(p["nservers"], p2, data, key)
            except RuntimeError:
                raise ScratchFailed()
            detail.append("k'=%d seg'=%d" % (p2["k"], p2["segsize"]))
        else:
            d2 = imm.gen_data(rng, size if rng.random() < .7 else size + rng.randint(1, 50))
            try:
                cap2, other = imm.honest_shares(p["nservers"], p2, d2, rng.randbytes(16) if rng.random() < .5 else key)
            except RuntimeError:
                raise ScratchFailed()

    g = VGrid(nservers=p["nservers"], seed=rng.getrandbits(32), profile=profile, keep_log=False)
    from allmydata.immutable.downloader.node import DownloadNode
    saved_guess = DownloadNode.default_max_segment_size
    # the downloader's initial guess of the segment size (1 MiB in production): below, equal to and above the real one
    DownloadNode.default_max_segment_size = rng.choice([saved_guess, saved_guess, 16, max(1, p["segsize"] // 2),
                                                         p["segsize"], p["segsize"] * 2 + 1])
    desc["segsize_guess"] = DownloadNode.default_max_segment_size
    try:
        c = g.make_client(k=k, happy=1, n=n, max_segment_size=p["segsize"])
        if forged is not None:
            u = uri.from_string(cap)
            imm.install_shares(g, u.get_storage_index(), forged,
                               {s: rng.randrange(p["nservers"]) for s in forged} if rng.random() < .5 else None)
        else:
            st, res = g.wait(c.upload(imm.FixedKeyData(data, key)))
            if st != "ok":
                ck.observe("upload-failed")
                return
            cap = res.get_uri()
            u = uri.from_string(cap)
        si = u.get_storage_index()

        def damage():
            shares = g.find_shares(si)
            if not shares:
                return
            nd = rng.choice([1, 1, max(1, len(shares) - k), max(1, len(shares) - k + 1), len(shares)])
            victims = rng.sample(shares, min(len(shares), nd))
            for (vs, shnum, path) in victims:
                try:
                    d = apply_family(rng, fam, imm, path, shnum, shares, other, g)
                except Exception as e:  # parsing an already-destroyed share etc.
                    d = "skipped(%s)" % type(e).__name__
                if d and not d.startswith("skipped"):
                    changed[0] += 1
                if len(detail) < 6:
                    detail.append("sh%d:%s" % (shnum, d))

        if fam == "flapping":
            install_flapper(g, rng, detail, changed)
        elif fam == "coordinated":
            d = imm.forge_coordinated(g, si, k, n, size, p["segsize"], rng)
            if d is None:
                ck.observe("coordinated-forgery-not-applicable")
            else:
                detail.append(d)
                changed[0] += 1
                ck.hit("coordinated-forgery-read")
        elif forged is None:
            damage()

        # caps of OTHER files / encodings under the same AES key (hence the same storage index) turned into live node
        # objects first: a reader of `cap` must never be served through one of them
        sibling_caps = [cap_a, cap_b] if fam == "forged" else ([cap2] if fam in ("otherfile", "otherenc") else [])
        siblings = []
        for sc in sibling_caps:
            if sc != cap and rng.random() < .7:
                sn = c.create_node_from_uri(sc)
                siblings.append(sn)
                if uri.from_string(sc).get_storage_index() == si:
                    ck.hit("sibling-cap-with-same-storage-index-alive")
                if rng.random() < .5:
                    g.wait(sn.read(imm.RecordingConsumer(), 0, min(10, size)))
        node = c.create_node_from_uri(cap)
        nreads = rng.randint(1, 3)
        for r in range(nreads):
            if rng.random() < .5:
                off, sz = 0, None
            else:
                off = rng.choice([0, 1, rng.randint(0, size), max(0, size - 1), size, p["segsize"], p["segsize"] - 1])
                sz = rng.choice([None, 1, rng.randint(0, size), size, size + 10, p["segsize"]])
            expected = data[off:] if sz is None else data[off:off + sz]
            bad = []

            def on_write(cons, chunk, expected=expected, bad=bad):
                ck.mon("prefix-oracle")
                pos = cons.nbytes - len(chunk)
                if expected[pos:pos + len(chunk)] != chunk and not bad:
                    bad.append(pos)
            cons = imm.RecordingConsumer(on_write)
            use = node if rng.random() < .6 else c.create_node_from_uri(cap)
            st, res = g.wait(use.read(cons, off, sz))
            ck.mon("completion-oracle")
            w = dict(desc, detail=detail, read=(off, sz), status=st)
            if bad:
                ck.violation("wrong-bytes-delivered/" + fam,
                             "consumer received bytes that differ from the uploaded plaintext at offset %d of the "
                             "requested range (family %s)" % (bad[0], fam), w)
            if fam == "forged" and 0 < changed[0]:
                ck.hit("forged-mixed-set-read")
            if st == "ok":
                if cons.value() != expected:
                    ck.violation("success-with-wrong-or-short-data/" + fam,
                                 "read callback fired with %d bytes, expected %d" % (cons.nbytes, len(expected)), w)
                if changed[0]:
                    ck.hit("read-succeeded-despite-damage")
            elif st == "err":
                ck.hit("read-failed")
                ck.hit("err:" + res.type.__name__)
            else:
                ck.observe("read-" + st)
            if r + 1 < nreads and fam not in ("forged", "flapping", "coordinated") and rng.random() < .5:
                damage()
        ck.case(fam, key=(fam, k, n, size, p["segsize"], changed[0], tuple(detail[:3])),
                nontrivial=changed[0] > 0, sample=dict(desc, detail=detail[:4]))
    finally:
        DownloadNode.default_max_segment_size = saved_guess
        g.close()


def install_flapper(g, rng, detail, changed):
    targets = set(rng.sample(range(len(g.servers)), rng.randint(1, len(g.servers))))
    mode = rng.choice(["flip", "garbage", "short", "zeros"])
    prob = rng.choice([1.0, .5, .2])
    detail.append("flap %s p=%.1f on %s" % (mode, prob, sorted(targets)))

    def mutate(vs, methname, args, res, obj):
        if methname != "read" or vs.index not in targets or not isinstance(res, bytes) or not res:
            return res
        if rng.random() > prob:
            return res
        changed[0] += 1
        if mode == "flip":
            b = bytearray(res)
            b[rng.randrange(len(b))] ^= 1 << rng.randrange(8)
            return bytes(b)
        if mode == "garbage":
            return rng.randbytes(len(res))
        if mode == "zeros":
            return b"\x00" * len(res)
        return res[:rng.randrange(len(res))]
    g.mutate_response = mutate


def apply_family(rng, fam, imm, path, shnum, shares, other, g):
    sf = imm.ShareFile(path)
    D = sf.data_len
    names = ["data", "plaintext_hash_tree", "crypttext_hash_tree", "block_hashes", "share_hashes", "uri_extension"]
    if fam == "flip":
        where = rng.random()
        out = []
        for _ in range(rng.randint(1, 4)):
            if where < .4:
                off = rng.randrange(D)
            elif where < .5:
                off = rng.randrange(min(D, 0x24))
            else:
                s, e = sf.region(rng.choice(names))
                if e <= s:
                    off = rng.randrange(D)
                else:
                    off = rng.randrange(s, min(e, D)) if s < D else rng.randrange(D)
            sf.flip(off, 1 << rng.randrange(8))
            out.append(off)
        sf.save()
        return "flip@%s" % out
    if fam == "truncate":
        cands = [0, 1, 0x23, 0x24, D - 1, D - 32, rng.randrange(D)]
        for nm in names:
            s, e = sf.region(nm)
            cands += [s - 1, s, s + 1]
        newlen = max(0, min(D - 1, rng.choice(cands)))
        sf.truncate_data(newlen)
        sf.save()
        return "truncate@%d/%d" % (newlen, D)
    if fam == "offsets":
        nm = rng.choice(names)
        old = sf.offsets[nm]
        new = rng.choice([0, old + 1, max(0, old - 1), old + 32, max(0, old - 32),
                          sf.offsets[rng.choice(names)], D, D + 100, 2 ** 32 - 1, rng.randrange(D)])
        sf.set_offset_field(nm, new)
        sf.save()
        return "offset[%s]:%d->%d" % (nm, old, new)
    if fam == "sizefields":
        which = rng.choice([4, 8])
        sf.write_at(which, struct.pack(">L", rng.choice([0, 1, 2 ** 32 - 1, rng.randrange(2 ** 20)])))
        sf.save()
        return "sizefield@%d" % which
    if fam == "ueb":
        from allmydata import uri
        ueb = dict(sf.ueb())
        key = rng.choice(sorted(ueb.keys()))
        v = ueb[key]
        act = rng.random()
        if act < .1:
            del ueb[key]
            what = "del %s" % key
        elif act < .2:
            ueb["vf_unknown_field"] = b"x" * rng.randint(0, 5)
            what = "add unknown"
        elif isinstance(v, int):
            ueb[key] = rng.choice([0, v + 1, max(0, v - 1), v * 2, 2 ** 32, 2 ** 64])
            what = "%s:%r->%r" % (key, v, ueb[key])
        else:
            b = bytearray(v)
            if b:
                b[rng.randrange(len(b))] ^= 1 << rng.randrange(8)
            else:
                b = bytearray(b"x")
            ueb[key] = bytes(b)
            what = "%s flipped" % key
        packed = uri.pack_extension(ueb)
        s, e = sf.region("uri_extension")
        d = sf.data()
        fs = sf.fieldsize
        ln = struct.pack(">L" if fs == 4 else ">Q", len(packed))
        if rng.random() < .15:
            ln = struct.pack(">L" if fs == 4 else ">Q", rng.choice([0, len(packed) + 1, max(0, len(packed) - 1), 2 ** 31]))
            what += " +badlen"
        sf.replace_data(d[:s] + ln + packed)
        sf.save()
        return "ueb(%s)" % what
    if fam in ("sharehash", "blockhash", "cthash"):
        nm = {"sharehash": "share_hashes", "blockhash": "block_hashes", "cthash": "crypttext_hash_tree"}[fam]
        s, e = sf.region(nm)
        rec = 34 if fam == "sharehash" else 32
        nrec = (e - s) // rec
        if nrec <= 0:
            return "skipped(empty)"
        j = rng.randrange(nrec)
        act = rng.random()
        if fam == "sharehash" and act < .4:
            newnum = rng.choice([0, 1, 0xFFFF, rng.randrange(0, 64)])
            sf.write_at(s + j * rec, struct.pack(">H", newnum))
            what = "hashnum[%d]=%d" % (j, newnum)
        elif act < .55 and nrec > 1:
            j2 = rng.randrange(nrec)
            d = sf.data()
            a, b = d[s + j * rec:s + j * rec + rec], d[s + j2 * rec:s + j2 * rec + rec]
            sf.write_at(s + j * rec, b)
            sf.write_at(s + j2 * rec, a)
            what = "swap[%d,%d]" % (j, j2)
        else:
            off = s + j * rec + (2 if fam == "sharehash" else 0) + rng.randrange(32)
            sf.flip(off, 1 << rng.randrange(8))
            what = "flip node %d" % j
        sf.save()
        return "%s(%s)" % (fam, what)
    if fam == "block":
        s, e = sf.region("data")
        bs = max(1, sf.block_size)
        nblocks = max(1, (e - s + bs - 1) // bs)
        j = rng.randrange(nblocks)
        bstart = s + j * bs
        blen = min(bs, e - bstart)
        if blen <= 0:
            return "skipped(noblock)"
        mode = rng.random()
        if mode < .4:
            new = rng.randbytes(blen)
        elif mode < .6:
            new = b"\x00" * blen
        elif mode < .8 and nblocks > 1:
            j2 = rng.randrange(nblocks)
            new = sf.data()[s + j2 * bs:s + j2 * bs + blen].ljust(blen, b"\x00")
        else:
            b = bytearray(sf.data()[bstart:bstart + blen])
            b[rng.randrange(blen)] ^= 1 << rng.randrange(8)
            new = bytes(b)
        sf.write_at(bstart, new)
        sf.save()
        return "block[%d]" % j
    if fam == "swapshare":
        others = [x for x in shares if x[1] != shnum]
        if not others:
            return "skipped(single)"
        (vs2, sh2, p2) = rng.choice(others)
        with open(p2, "rb") as f:
            raw = f.read()
        with open(path, "wb") as f:
            f.write(raw)
        return "content-of-sh%d" % sh2
    if fam in ("otherfile", "otherenc"):
        if not other:
            return "skipped(noother)"
        src = rng.choice(sorted(other))
        if rng.random() < .6 and shnum in other:
            src = shnum
        with open(path, "wb") as f:
            f.write(other[src])
        return "%s sh%d" % (fam, src)
    return "skipped(unknown)"
