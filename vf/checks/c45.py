"""C45 immutable check, verify and repair."""
META = {
    "level": "exploration",
    "technique": "runtime monitoring of the real Checker/verifier/Repairer on an in-process grid over generated share-damage compositions; verdicts of check/verify are compared with an independent byte-level reader's view of every share file, repairs are judged by reading the file from the repaired shares alone",
    "text": "Reference shares of a random file are installed in arbitrary placements (spread, random, duplicates, one server) with any subset missing or damaged by family (bit flips per section, truncation, offset-table edits, re-packed URI extension, share-hash/block-hash/ciphertext-hash node edits, block overwrites, block overwrite with a recomputed self-consistent block hash tree, share-number swaps, shares of another file or encoding, don't-care edits). node.check(verify=False/True) and node.check_and_repair(verify=...) run on nodes built from the read-cap and from the verify-cap only, through node objects with history (fresh, read before the repair, repaired twice with shares lost again in between), with small/odd segment sizes and varied downloader segment-size guesses, and with servers that accept the allocation of a replacement share and then fail or disconnect on write/close. Oracle: with verify every (server, share) reported good must have the same reader's view (blocks, hash regions, share-hash records, URI extension) as the reference share and every untouched share must be reported good; without verify the sharemap must equal what is present; is_healthy <=> N distinct good share numbers and is_recoverable <=> >= k; after a successful repair a fresh client holding the original read-cap reads the exact plaintext from the shares the repair created alone (when there are >= k of them, else from all), every share the repair created has the reference view, a fresh check confirms the healthy claim, every share the post-repair results list exists on that server's disk and their healthy/count flags agree with the disk, every share the repair created passes check(verify=True) from a fresh client, and shares that were good before keep their data and leases.",
    "note": "Good = reader's view (computed from the bytes the real storage server serves for the share) equal to the reference share from an honest upload of the same file, key and parameters; differences confined to bytes no reader consults are don't-care. Trusts the in-process Wire/virtual reactor and the reference upload (C01). Sampled exploration.",
}
LEVEL = "exploration"
BUDGET = {"quick": 50, "thorough": 480}
SHARDS = {"quick": 1, "thorough": 12}

from vf import env  # noqa
import os
import struct

FAMILIES = ["flip", "flip", "truncate", "offsets", "ueb", "sharehash", "blockhash", "cthash", "block", "block",
            "rehash", "rehash", "swapshare", "otherfile", "otherenc", "sizefields", "dontcare"]


def gen(rng, tier, directed=None):
    n = rng.choice([1, 2, 3, 3, 4, 4, 5, 6, 8])
    k = rng.randint(1, n)
    segsize = rng.choice([16, 56, 64, 100, 128, 1024])
    maxsize = 3000 if tier == "quick" else 12000
    size = max(56, rng.choice([56, 57, 100, segsize * 2, segsize * 3 + 1, rng.randint(56, maxsize)]))
    eff = max(1, ((min(segsize, size) + k - 1) // k) * k)
    while size // eff > 20:
        segsize *= 4
        eff = max(1, ((min(segsize, size) + k - 1) // k) * k)
    nservers = max(1, rng.randint(n - 1, n + 3))
    layout = rng.choice(["spread", "spread", "random", "dups", "one-server"])
    placements = []
    for sh in range(n):
        if layout == "spread":
            srvs = [sh % nservers]
        elif layout == "one-server":
            srvs = [0]
        elif layout == "dups":
            srvs = rng.sample(range(nservers), rng.randint(1, min(3, nservers)))
        else:
            srvs = [rng.randrange(nservers)]
        for s in srvs:
            placements.append([s, sh, "good"])
    mode = rng.random()
    fam = rng.choice(FAMILIES)
    bad = lambda: rng.choice(["missing", fam, fam, rng.choice(FAMILIES)])   # noqa: E731
    if mode < .12:
        pass                                           # healthy file
    elif mode < .45:
        goodnums = set(rng.sample(range(n), rng.randint(k, n)))     # still recoverable
        for pl in placements:
            if pl[1] not in goodnums:
                pl[2] = bad()
    elif mode < .6:
        goodnums = set(rng.sample(range(n), k))                    # exactly k good share numbers
        for pl in placements:
            if pl[1] not in goodnums:
                pl[2] = bad()
    elif mode < .68:
        goodnums = set(rng.sample(range(n), rng.randint(0, k - 1)))  # unrecoverable
        for pl in placements:
            if pl[1] not in goodnums:
                pl[2] = bad()
    elif mode < .90:
        for pl in placements:                                       # only missing shares
            if rng.random() < .4:
                pl[2] = "missing"
    else:
        for pl in placements:
            if rng.random() < .35:
                pl[2] = bad()
    if directed == "repairable":
        # only missing shares, at least k of them missing and at least k left: the repair must create >= k shares
        # and the file must then be readable from those alone
        n = rng.choice([2, 3, 4, 5, 6, 8])
        k = rng.randint(1, n // 2)
        nservers = max(2, rng.randint(n - 1, n + 3))
        gone = set(rng.sample(range(n), rng.randint(k, n - k)))
        placements = [[sh % nservers, sh, "missing" if sh in gone else "good"] for sh in range(n)]
        layout = "spread"
    if directed == "boundary":
        # corruption only, nothing deleted: k-1, k or k+1 share numbers stay good, every other share is corrupted in a
        # way the verifier detects.  Every server keeps claiming its share, so a verifying repair re-uploads nothing
        # and the post-repair results sit exactly at the recoverability boundary.
        n = rng.choice([2, 3, 4, 5, 6, 8])
        k = rng.randint(1, n)
        nservers = rng.randint(n, n + 2)
        ngood = max(0, min(n, k + rng.choice([-1, 0, 0, 0, 1])))
        goodnums = set(rng.sample(range(n), ngood))
        placements = [[sh % nservers, sh, "good" if sh in goodnums else rng.choice(["block", "block", "blockhash",
                                                                                     "cthash", "rehash"])]
                      for sh in range(n)]
        layout = "spread"
    dead = []
    if directed is None and rng.random() < .15 and nservers > 1:
        dead = rng.sample(range(nservers), 1)
    history = rng.choice(["fresh", "fresh", "read-first", "read-first", "repair-twice", "repair-twice"])
    faults = []
    if rng.random() < .35:
        for s in rng.sample(range(nservers), rng.randint(1, max(1, nservers // 2))):
            faults.append((s, rng.choice(["raise", "raise", "raise-after", "disconnect"]),
                           rng.choice(["write", "close", "close"])))
    return dict(k=k, n=n, segsize=segsize, size=size, nservers=nservers, layout=layout,
                placements=[tuple(p) for p in placements], dead=dead,
                nodekind=rng.choice(["readcap", "verifycap"]), repair_verify=rng.random() < .6,
                history=history, repair_faults=faults,
                segsize_guess=rng.choice([None, None, 16, max(1, segsize // 2), segsize, segsize * 2 + 1]),
                profile=rng.choice(["fifo", "per-server-fifo", "free"]))


def run(ck):
    ck.rule = ("case = (k<=N<=8, size, segsize, N-1..N+3 servers, placement layout incl. duplicates, per-placement "
               "state good/missing/damaged-by-family, optional dead server, node from read-cap or verify-cap, "
               "repair with/without verify, transport profile); each case runs check(verify=False), "
               "check(verify=True) and check_and_repair; distinct = full case description; non-trivial = at least "
               "one missing or damaged share")
    i = 0
    while ck.more(min_cases=150 if ck.tier == "quick" else 0):   # not by wall clock alone (load: see DESIGN 8.4b)
        i += 1
        if not ck.mine(i):
            continue
        if os.environ.get("VF_CASE") and i != int(os.environ["VF_CASE"]):
            if i > int(os.environ["VF_CASE"]):
                break
            continue
        rng = ck.rng("case", i)
        j = i // ck.nshards
        case = gen(rng, ck.tier, "repairable" if j % 6 == 0 else "boundary" if j % 6 == 3 else None)
        if j % 6 == 3:
            case["repair_verify"] = True
            case["repair_faults"] = []
            case["history"] = ["fresh", "read-first"][(j // 6) % 2]
        if j % 6 == 0:
            # directed: node histories and repair-time faults are cycled, not left to chance
            case["nodekind"] = ["verifycap", "readcap"][(j // 6) % 2]
            case["history"] = ["read-first", "repair-twice", "fresh", "read-first"][(j // 12) % 4]
            if (j // 12) % 4 < 2:
                case["repair_faults"] = []
            elif not case["repair_faults"]:
                ns = case["nservers"]
                case["repair_faults"] = [(s, rng.choice(["raise", "raise-after", "disconnect"]),
                                          rng.choice(["write", "close"]))
                                         for s in rng.sample(range(ns), max(1, ns // 2))]
        with ck.watchdog(180, "case %d" % i):
            one_case(ck, rng, case)
        if ck.tier == "quick" and ck.evaluations >= 250:
            break      # fixed number of cases: a quick run is reproducible per VERIF_SEED on any machine
    ck.require_monitor("verify-good-implies-intact", "verify-intact-implies-good", "check-sharemap-equals-present",
                       "health-flags", "repair-read-back", "repair-preserves-good-shares", "repaired-share-valid",
                       "post-repair-results-vs-disk", "repaired-share-fresh-verify")
    ck.require_reach("damaged-share-rejected-by-verifier", "check-healthy", "check-unhealthy-recoverable",
                     "check-unrecoverable", "repair-successful", "repair-from-verifycap-node",
                     "read-from-repaired-shares-alone", "repair-failed-or-unsuccessful",
                     "repair-through-node-that-read-before", "second-repair-through-same-node",
                     "multi-segment-file-repaired", "repair-lost-a-replacement-share",
                     "post-repair-results-with-exactly-k-good-shares")


def one_case(ck, rng, case):
    from vf.grid import VGrid
    from vf import imm
    from vf.checks import _immref as R
    from vf.checks.c02 import apply_family
    from allmydata import uri
    from allmydata.monitor import Monitor

    k, n, size = case["k"], case["n"], case["size"]
    params = dict(k=k, n=n, segsize=case["segsize"])
    data = imm.gen_data(rng, size)
    key = rng.randbytes(16)
    try:
        cap, refraw = R.reference_shares(max(1, min(n, 4)), params, data, key)
    except RuntimeError:
        ck.observe("scratch-upload-failed")
        return
    if len(refraw) < n:
        ck.observe("scratch-upload-incomplete")
        return
    u = uri.from_string(cap)
    si = u.get_storage_index()
    vcap = u.get_verify_cap().to_string()
    enc = imm.expected_encoding(size, k, case["segsize"])
    block_size = enc["segment_size"] // k
    nseg = enc["num_segments"]
    tail_block = enc["tail_segment_padded"] // k
    refdata = {sh: R.share_data(raw) for sh, raw in refraw.items()}
    refview = {sh: R.reader_view(d, block_size, nseg, tail_block) for sh, d in refdata.items()}

    fams = {st for (_, _, st) in case["placements"]}
    other = None
    if fams & {"otherfile", "otherenc"}:
        p2 = dict(params)
        d2 = data
        key2 = key
        if "otherenc" in fams:
            p2["k"] = rng.choice([x for x in range(1, n + 1) if x != k] or [k])
        else:
            d2 = imm.gen_data(rng, size)
            if d2 == data:
                d2 = bytes((b + 1) % 256 for b in data)
            key2 = rng.choice([key, rng.randbytes(16)])
        try:
            _, other = R.reference_shares(max(1, min(n, 4)), p2, d2, key2)
        except RuntimeError:
            other = None
    donor = None
    if "rehash" in fams and rng.random() < .5:
        # same geometry, other content: blocks + block hash tree can be transplanted wholesale
        try:
            d3 = bytes((b ^ 0x55) for b in data)
            _, donor = R.reference_shares(max(1, min(n, 4)), params, d3, key)
        except RuntimeError:
            donor = None

    g = VGrid(nservers=case["nservers"], seed=rng.getrandbits(32), profile=case["profile"], keep_log=False)
    from allmydata.immutable.downloader.node import DownloadNode
    saved_guess = DownloadNode.default_max_segment_size
    if case["segsize_guess"] is not None:
        # the downloader's initial guess of the segment size (production default when None)
        DownloadNode.default_max_segment_size = case["segsize_guess"]
    try:
        # ---- install
        state = {}      # (server, shnum) -> family
        for (s, sh, st) in case["placements"]:
            if st == "missing":
                continue
            d = g.servers[s].sharedir(si)
            os.makedirs(d, exist_ok=True)
            with open(os.path.join(d, "%d" % sh), "wb") as f:
                f.write(refraw[sh])
            state[(s, sh)] = st
        allshares = g.find_shares(si)
        detail = []
        for (vs, sh, path) in allshares:
            fam = state[(vs.index, sh)]
            if fam == "good":
                continue
            try:
                if fam == "rehash":
                    dsc = rehash_damage(rng, imm, path, sh, donor)
                elif fam == "dontcare":
                    dsc = dontcare_damage(rng, imm, path)
                else:
                    dsc = apply_family(rng, fam, imm, path, sh, allshares, other, g)
            except Exception as e:
                dsc = "skipped(%s)" % type(e).__name__
            if len(detail) < 8:
                detail.append("s%02d/sh%d:%s:%s" % (vs.index, sh, fam, dsc))
        for s in case["dead"]:
            g.servers[s].connected = False
            g.servers[s].zombie = rng.random() < .5

        def snapshot():
            out = {}
            served = {}
            for vs in g.servers:
                # what a reader can obtain: the bytes the real storage server hands out for this share (it decides
                # where the share data ends -- container header field or file size minus leases)
                try:
                    for sh_, br in vs.ss.get_buckets(si).items():
                        try:
                            served[(vs.index, sh_)] = br.read(0, 2 ** 32)
                        except Exception:
                            served[(vs.index, sh_)] = None
                except Exception:
                    pass
            for (vs, sh, path) in g.find_shares(si):
                with open(path, "rb") as f:
                    raw = f.read()
                dd = R.share_data(raw)
                sv = served.get((vs.index, sh))
                if sh in refdata and dd == refdata[sh] and sv == refdata[sh]:
                    cls = "intact"
                elif sh in refview and refview[sh] is not None and sv is not None \
                        and R.reader_view(sv, block_size, nseg, tail_block) == refview[sh]:
                    cls = "equivalent"
                else:
                    cls = "damaged"
                out[(vs.index, sh)] = (cls, raw, path, sv)
            return out

        def classify(served_bytes, sh):
            """Mechanism class of a damaged share that the verifier accepted (deterministic; names what differs)."""
            view = R.reader_view(served_bytes, block_size, nseg, tail_block)
            ref = refview.get(sh)
            if view is None or ref is None:
                return "unparseable-header-or-foreign-share-number"
            names = ("version", "blocks", "ciphertext-hashes", "block-hashes", "share-hashes", "uri-extension")
            diffs = [nm for nm, a, b in zip(names, view, ref) if a != b]
            # one root cause, two appearances: the verifier never consults the share-hash-tree leaf of the share
            # number it is verifying -- (a) the share does not carry (the right) leaf for its own number, (b) its
            # blocks and block hash tree agree with each other but not with that leaf
            first_leaf = 1
            while first_leaf < n:
                first_leaf *= 2
            own = struct.pack(">H", first_leaf - 1 + sh)
            mine = dict(view[4]) if isinstance(view[4], frozenset) else {}
            theirs = dict(ref[4]) if isinstance(ref[4], frozenset) else {}
            trusted_same = not ({"version", "uri-extension", "ciphertext-hashes"} & set(diffs))
            if trusted_same and "share-hashes" in diffs and mine.get(own) != theirs.get(own):
                return "own-share-hash-leaf-never-consulted"
            if trusted_same and ("blocks" in diffs or "block-hashes" in diffs):
                try:
                    from allmydata.hashtree import HashTree
                    from allmydata.util import hashutil
                    if b"".join(list(HashTree([hashutil.block_hash(b) for b in view[1]]))) == view[3]:
                        return "own-share-hash-leaf-never-consulted"
                except Exception:
                    pass
            return "differs-in-" + "+".join(diffs)

        before = snapshot()
        live = {i for i, vs in enumerate(g.servers) if vs.connected}
        desc = dict(case, detail=detail,
                    classes={"s%02d/sh%d" % kk: v[0] for kk, v in sorted(before.items())})
        nontrivial = any(st != "good" for (_, _, st) in case["placements"])

        c = g.make_client(k=k, happy=1, n=n, max_segment_size=case["segsize"])
        node = c.create_node_from_uri(cap if case["nodekind"] == "readcap" else vcap)

        # ---- check without verification
        st0, cr0 = g.wait(node.check(Monitor(), verify=False))
        judge_check(ck, "check", st0, cr0, before, live, state, k, n, False, desc, classify)
        # ---- check with verification
        st1, cr1 = g.wait(node.check(Monitor(), verify=True))
        judge_check(ck, "verify", st1, cr1, before, live, state, k, n, True, desc, classify)
        mid = snapshot()
        if any(mid.get(kk, (None, None))[1] is None or R.share_data(mid[kk][1]) != R.share_data(v[1])
               for kk, v in before.items()):
            ck.observe("check-changed-share-data")

        # ---- node history before the repair
        history = case["history"]
        if history == "read-first":
            # the node object learns the real segmentation from an earlier download
            stR, _ = g.wait(node.read(imm.RecordingConsumer(), 0, None), horizon=4 * 3600.0)
            ck.hit("read-before-repair-" + stR)

        # ---- check and repair (one or two rounds through the SAME node object)
        rv = case["repair_verify"]
        rounds = 2 if history == "repair-twice" else 1
        fault_round = rounds          # faults are planted in the last round
        st2, successful = None, False
        repaired_before = False
        for rnd in range(1, rounds + 1):
            if rnd == 2:
                # lose shares again between the two repairs (keep the file recoverable)
                cur = snapshot()
                goodnums = sorted({sh for (s_, sh), v in cur.items() if v[0] == "intact" and s_ in live})
                keep = set(rng.sample(goodnums, min(len(goodnums), max(k, len(goodnums) - rng.randint(1, max(1, n - k))))))
                for (s_, sh), v in sorted(cur.items()):
                    if sh not in keep and v[0] == "intact":
                        os.unlink(v[2])
                before = snapshot()
            fired_before = sum(f.fired for vs in g.servers for f in vs.faults)
            if rnd == fault_round:
                for (s_, action, meth) in case["repair_faults"]:
                    g.servers[s_].add_fault(action, method=meth, nth=1)
            live = {i_ for i_, vs in enumerate(g.servers) if vs.connected}
            st2, crr = g.wait(node.check_and_repair(Monitor(), verify=rv), horizon=4 * 3600.0)
            g.sched.settle()
            lost = any(f.fired and f.method in ("write", "close") for vs in g.servers for f in vs.faults)
            for vs in g.servers:
                vs.faults = []
                if not vs.connected and vs.index not in case["dead"]:
                    vs.start()           # a server that dropped its connection during the repair comes back
            g.sched.settle()
            after = snapshot()
            w = dict(desc, repair_verify=rv, repair_status=st2, repair_round=rnd,
                     before={"s%02d/sh%d" % kk: v[0] for kk, v in sorted(before.items())},
                     after={"s%02d/sh%d" % kk: v[0] for kk, v in sorted(after.items())},
                     error=_f(crr) if st2 == "err" else None)
            successful = False
            attempted = False
            if st2 == "ok":
                pre = crr.get_pre_repair_results()
                judge_check(ck, "repair-precheck", "ok", pre, before, live, state, k, n, rv, desc, classify)
                attempted = crr.get_repair_attempted()
                successful = bool(crr.get_repair_successful())
                if attempted != (not pre.is_healthy()):
                    ck.observe("repair-attempted-flag-disagrees-with-precheck")
                if attempted:
                    ck.hit("repair-attempted")
                if successful:
                    ck.hit("repair-successful")
                    if case["nodekind"] == "verifycap":
                        ck.hit("repair-from-verifycap-node")
                    if nseg > 1:
                        ck.hit("multi-segment-file-repaired")
                    if history == "read-first":
                        ck.hit("repair-through-node-that-read-before")
                    if rnd == 2 and repaired_before:
                        ck.hit("second-repair-through-same-node")
                elif attempted:
                    ck.hit("repair-failed-or-unsuccessful")
                if attempted and lost:
                    ck.hit("repair-lost-a-replacement-share")
                w["attempted"], w["successful"] = attempted, successful
            elif st2 == "err":
                ck.hit("repair-failed-or-unsuccessful")
                ck.hit("repair-err:" + crr.type.__name__)
            else:
                ck.observe("repair-" + st2)

            # good shares must survive any repair attempt unchanged (data and foreign leases)
            for kk, (cls, raw, path, _sv) in sorted(before.items()):
                if cls != "intact":
                    continue
                ck.mon("repair-preserves-good-shares")
                a_ = after.get(kk)
                if a_ is None:
                    ck.violation("repair-removed-good-share",
                                 "share s%02d/sh%d was good before check_and_repair and is gone afterwards" % kk, w)
                elif R.share_data(a_[1]) != R.share_data(raw):
                    ck.violation("repair-altered-good-share",
                                 "share s%02d/sh%d was good before check_and_repair and its data differs afterwards"
                                 % kk, w)
                elif not R.lease_ids(raw) <= R.lease_ids(a_[1]):
                    ck.violation("repair-dropped-leases-of-good-share",
                                 "share s%02d/sh%d was good before check_and_repair; afterwards the leases it carried "
                                 "are gone (the file was replaced)" % kk, w)
            # shares created by the repair
            new = {kk: v for kk, v in after.items() if kk not in before}
            newgood = set()
            for kk, (cls, raw, path, _sv) in sorted(new.items()):
                ck.mon("repaired-share-valid")
                if cls == "damaged":
                    ck.violation("repair-produced-invalid-share",
                                 "check_and_repair created share s%02d/sh%d whose content does not match the share "
                                 "the original read-cap commits to" % kk, w)
                else:
                    newgood.add(kk[1])
            if new:
                ck.hit("repair-created-shares")
            if st2 == "ok" and attempted:
                # post-repair results against what is really on the servers' disks
                post = crr.get_post_repair_results()
                ck.mon("post-repair-results-vs-disk")
                try:
                    ppairs = {(srv.vserver.index, sh) for sh, servers in post.get_sharemap().items() for srv in servers}
                except Exception:
                    ppairs = set()
                w["post_sharemap"] = sorted("s%02d/sh%d" % kk for kk in ppairs)
                ghosts = sorted(kk for kk in ppairs if kk not in after)
                if ghosts:
                    ck.violation("post-repair-results-list-absent-share",
                                 "post-repair results list %s as good, no such share file exists on that server" % (
                                     ["s%02d/sh%d" % kk for kk in ghosts],), w)
                pnums = {sh for (_, sh) in ppairs}
                if bool(post.is_healthy()) != (len(pnums) == n) or post.get_share_counter_good() != len(pnums):
                    ck.violation("post-repair-health-disagrees-with-its-sharemap",
                                 "post-repair results: is_healthy()=%s, count-shares-good=%s, sharemap has %d distinct "
                                 "shares of N=%d" % (post.is_healthy(), post.get_share_counter_good(), len(pnums), n), w)
                if bool(post.is_recoverable()) != (len(pnums) >= k):
                    ck.violation("post-repair-recoverable-disagrees-with-its-sharemap",
                                 "post-repair results: is_recoverable()=%s with %d distinct good shares in its sharemap, "
                                 "k=%d" % (post.is_recoverable(), len(pnums), k), w)
                if len(pnums) == k:
                    ck.hit("post-repair-results-with-exactly-k-good-shares")
                elif len(pnums) == k - 1:
                    ck.hit("post-repair-results-with-k-minus-1-good-shares")
                elif len(pnums) == k + 1:
                    ck.hit("post-repair-results-with-k-plus-1-good-shares")
                # ground truth on disk: with verify a damaged share is not good, without verify present = good
                truth = {sh for (s_, sh), v in after.items() if not (rv and v[0] == "damaged")}
                if (post.is_healthy() or successful) and len(truth) < n:
                    ck.violation("post-repair-healthy-with-fewer-than-N-shares-on-disk",
                                 "repair_successful=%s, post-repair is_healthy()=%s, but only %d of %d distinct share "
                                 "numbers exist on the servers" % (successful, post.is_healthy(), len(truth), n), w)
            if successful:
                repaired_before = repaired_before or bool(new)
                post = crr.get_post_repair_results()
                # the healthy claim must be confirmed by a fresh check of the same kind, and every share the repair
                # created must verify under the original cap from a fresh client
                c3 = g.make_client(k=k, happy=1, n=n, max_segment_size=case["segsize"])
                st5, cr5 = g.wait(c3.create_node_from_uri(vcap).check(Monitor(), verify=True))
                if rv:
                    st4, cr4 = st5, cr5
                else:
                    st4, cr4 = g.wait(c3.create_node_from_uri(vcap).check(Monitor(), verify=False))
                ck.mon("post-repair-claim")
                if st4 == "ok" and post.is_healthy() and not cr4.is_healthy():
                    ck.violation("post-repair-healthy-claim-not-confirmed",
                                 "check_and_repair(verify=%s) reported a successful repair and healthy post-repair "
                                 "results, a fresh check(verify=%s) finds only %d of %d good shares" % (
                                     rv, rv, cr4.get_share_counter_good(), n), w)
                if st5 == "ok":
                    good5 = {(srv.vserver.index, sh) for sh, servers in cr5.get_sharemap().items() for srv in servers}
                    for kk, (cls, raw, path, _sv) in sorted(new.items()):
                        if cls == "equivalent":
                            ck.skip("repaired-share-differs-only-in-bytes-no-reader-consults")
                            continue
                        ck.mon("repaired-share-fresh-verify")
                        if kk not in good5:
                            ck.violation("repaired-share-fails-fresh-verification",
                                         "share s%02d/sh%d created by the repair is not accepted by check(verify=True) "
                                         "under the original cap from a fresh client" % kk, w)
                # the file must be readable through the ORIGINAL read-cap from the repaired shares alone
                hidden = []
                alone = len(newgood) >= k
                if alone:
                    for kk, (cls, raw, path, _sv) in before.items():
                        if os.path.exists(path):
                            os.rename(path, path + ".hidden")
                            hidden.append(path)
                    ck.hit("read-from-repaired-shares-alone")
                else:
                    ck.hit("read-from-all-shares-after-repair")
                c2 = g.make_client(k=k, happy=1, n=n, max_segment_size=case["segsize"])
                st3, r3, cons = imm.read_all(g, c2.create_node_from_uri(cap))
                ck.mon("repair-read-back")
                if st3 != "ok" or cons.value() != data:
                    what = "read %s%s" % (st3, (": " + _f(r3)) if st3 == "err" else
                                          (" with wrong bytes" if st3 == "ok" else ""))
                    if alone:
                        ck.violation("file-unreadable-from-repaired-shares-alone",
                                     "after a successful repair that created %d distinct shares (k=%d), a fresh "
                                     "client with the original read-cap and only those shares: %s" % (
                                         len(newgood), k, what), w)
                    else:
                        ck.violation("file-unreadable-after-successful-repair",
                                     "after a successful repair a fresh client with the original read-cap: %s" % what,
                                     w)
                for path in hidden:
                    os.rename(path + ".hidden", path)
        ck.observe("eventual-exceptions", len(env.evq.exceptions))
        for ex in env.evq.exceptions[:3]:
            lst = ck.extra.setdefault("eventual_exception_samples", [])
            if len(lst) < 4 and repr(ex)[:200] not in lst:
                lst.append(repr(ex)[:200])
        ck.case("check-verify-repair", key=repr(case), nontrivial=nontrivial,
                sample=dict(k=k, n=n, nservers=case["nservers"], layout=case["layout"],
                            placements=case["placements"], nodekind=case["nodekind"], repair_verify=rv,
                            history=history, repair_faults=case["repair_faults"], repair=st2,
                            successful=successful))
    finally:
        DownloadNode.default_max_segment_size = saved_guess
        g.close()


def judge_check(ck, label, st, cr, before, live, state, k, n, verify, desc, classify=None):
    """Oracle for one CheckResults object."""
    if st != "ok":
        # every server answers every request while checks run (repair-time faults are cleared before), so a check that
        # errbacks or hangs gives no verdict at all on a file whose shares the statement says it must count
        ck.observe("%s-did-not-complete:%s" % (label, st if st != "err" else _f(cr)[:60]))
        ck.violation("check-gives-no-verdict/" + (cr.type.__name__ if st == "err" else st),
                     "%s (verify=%s) %s instead of reporting healthy/recoverable: %s" % (
                         label, verify, "errbacked" if st == "err" else "never completed", _f(cr)[:200] if st == "err" else st),
                     dict(desc, op=label, verify=verify))
        return
    w = dict(desc, op=label, verify=verify)
    try:
        reported = {(srv.vserver.index, sh) for sh, servers in cr.get_sharemap().items() for srv in servers}
        corrupt = {(srv.vserver.index, sh) for (srv, _si, sh) in cr.get_corrupt_shares()}
    except Exception as e:
        ck.violation("check-results-unreadable", "%s: %s" % (label, type(e).__name__), w)
        return
    w["reported_good"] = sorted("s%02d/sh%d" % kk for kk in reported)
    w["reported_corrupt"] = sorted("s%02d/sh%d" % kk for kk in corrupt)
    present = {kk for kk in before if kk[0] in live}
    if not verify:
        ck.mon("check-sharemap-equals-present")
        if reported != present:
            ck.violation("check-sharemap-differs-from-shares-present",
                         "check(verify=False) lists %s, the responding servers hold %s" % (
                             sorted(reported), sorted(present)), w)
    else:
        for kk in sorted(reported):
            ck.mon("verify-good-implies-intact")
            b = before.get(kk)
            if b is None or kk[0] not in live:
                ck.violation("verifier-reports-absent-share-good",
                             "verify lists s%02d/sh%d as good, no such share exists on a responding server" % kk, w)
            elif b[0] == "damaged":
                how = classify(b[3], kk[1])
                ck.violation("verifier-reports-damaged-share-good/" + how,
                             "verify lists s%02d/sh%d as good although what a reader obtains from it differs from the "
                             "share the capability commits to (%s; damage family %s)"
                             % (kk[0], kk[1], how, state.get(kk, "?")), w)
            elif b[0] == "equivalent":
                ck.skip("share-differs-only-in-bytes-no-reader-consults")
        for kk in sorted(present):
            cls = before[kk][0]
            if cls == "intact":
                ck.mon("verify-intact-implies-good")
                if kk not in reported:
                    ck.violation("verifier-rejects-intact-share",
                                 "s%02d/sh%d is byte-identical to the reference share on a responding server but "
                                 "verify does not list it as good" % kk, w)
            elif cls == "damaged" and kk not in reported:
                ck.hit("damaged-share-rejected-by-verifier")
                if kk in corrupt:
                    ck.hit("damaged-share-listed-corrupt")
            elif cls == "equivalent" and kk not in reported:
                ck.skip("dont-care-share-rejected")
    good_nums = {sh for (_, sh) in reported}
    ck.mon("health-flags")
    if bool(cr.is_healthy()) != (len(good_nums) == n):
        ck.violation("healthy-flag-disagrees-with-good-share-count",
                     "%s: is_healthy()=%s with %d distinct good share numbers of N=%d" % (
                         label, cr.is_healthy(), len(good_nums), n), w)
    if bool(cr.is_recoverable()) != (len(good_nums) >= k):
        ck.violation("recoverable-flag-disagrees-with-good-share-count",
                     "%s: is_recoverable()=%s with %d distinct good share numbers, k=%d" % (
                         label, cr.is_recoverable(), len(good_nums), k), w)
    if cr.get_share_counter_good() != len(good_nums):
        ck.observe("good-share-counter-differs-from-sharemap")
    if label != "repair-precheck":
        if cr.is_healthy():
            ck.hit("check-healthy")
        elif cr.is_recoverable():
            ck.hit("check-unhealthy-recoverable")
        else:
            ck.hit("check-unrecoverable")


def rehash_damage(rng, imm, path, shnum, donor):
    """Change block content and recompute the block hash tree so that blocks and block hashes agree with each other
    (but no longer with the share hash chain / capability)."""
    from allmydata.hashtree import HashTree
    from allmydata.util import hashutil
    sf = imm.ShareFile(path)
    s, e = sf.region("data")
    bs = max(1, sf.block_size)
    if donor is not None and shnum in donor:
        import tempfile
        fd, p = tempfile.mkstemp(prefix="vf-share-")
        os.write(fd, donor[shnum])
        os.close(fd)
        try:
            df = imm.ShareFile(p)
        finally:
            os.unlink(p)
        ds, de = df.region("data")
        bs_, be_ = df.region("block_hashes")
        ms, me = sf.region("block_hashes")
        if de - ds == e - s and be_ - bs_ == me - ms:
            sf.write_at(s, df.data()[ds:de])
            sf.write_at(ms, df.data()[bs_:be_])
            sf.save()
            return "transplanted blocks+block-hash-tree"
    blocks = []
    d = bytearray(sf.data())
    nblocks = max(1, (e - s + bs - 1) // bs)
    j = rng.randrange(nblocks)
    a = s + j * bs
    blen = min(bs, e - a)
    d[a + rng.randrange(blen)] ^= 1 << rng.randrange(8)
    for i in range(nblocks):
        blocks.append(bytes(d[s + i * bs:min(e, s + (i + 1) * bs)]))
    t = HashTree([hashutil.block_hash(b) for b in blocks])
    ms, me = sf.region("block_hashes")
    tree = b"".join(list(t))
    if len(tree) != me - ms:
        return "skipped(tree-size)"
    sf.write_at(a, bytes(d[a:a + blen]))
    sf.write_at(ms, tree)
    sf.save()
    return "block[%d] flipped + block hash tree recomputed" % j


def dontcare_damage(rng, imm, path):
    """Edits confined to bytes no reader consults."""
    sf = imm.ShareFile(path)
    what = rng.choice(["sizefield", "ptree", "ptree-offset", "trailing", "reorder-sharehashes"])
    if what == "sizefield":
        sf.write_at(rng.choice([4, 8]), struct.pack(">L", rng.randrange(2 ** 32)))
    elif what == "ptree":
        s, e = sf.region("plaintext_hash_tree")
        if e > s:
            sf.flip(rng.randrange(s, e), 1 << rng.randrange(8))
    elif what == "ptree-offset":
        sf.set_offset_field("plaintext_hash_tree", rng.randrange(2 ** 31))
    elif what == "trailing":
        sf.replace_data(sf.data() + rng.randbytes(rng.randint(1, 40)))
    else:
        s, e = sf.region("share_hashes")
        recs = [sf.data()[i:i + 34] for i in range(s, e, 34)]
        rng.shuffle(recs)
        sf.write_at(s, b"".join(recs))
    sf.save()
    return what


def _f(res):
    try:
        return "%s: %s" % (res.type.__name__, str(res.value)[:300])
    except Exception:
        return repr(res)[:300]


# MUST_CATCH (selftest/breaks_c45.py, all 11 caught by tools/selftest.py --prop C45; seeded/C45-1..4 caught by
# tools/selftest.py --seeded --only C45):
#   c45-verifier-skips-block-hash-validation   -> verifier-reports-damaged-share-good/differs-in-blocks
#   c45-verifier-skips-ueb-hash                -> verifier-reports-damaged-share-good/differs-in-...uri-extension
#   c45-verifier-skips-ciphertext-hash-tree    -> verifier-reports-damaged-share-good/differs-in-ciphertext-hashes
#   c45-verifier-counts-corrupt-as-verified    -> verifier-reports-damaged-share-good/*
#   c45-healthy-at-k-shares                    -> healthy-flag-disagrees-with-good-share-count
#   c45-recoverable-needs-more-than-k          -> recoverable-flag-disagrees-with-good-share-count
#   c45-check-drops-a-server-answer            -> check-sharemap-differs-from-shares-present
#   c45-repairer-wrong-k                       -> repair-produced-invalid-share, post-repair-healthy-claim-not-confirmed
#   c45-repairer-reads-wrong-offset            -> repair-produced-invalid-share
#   c45-repair-success-at-k-shares             -> post-repair-health-disagrees-with-its-sharemap
#   c45-repair-overwrites-existing-share       -> repair-dropped-leases-of-good-share (share data is rewritten with
#                                                 identical bytes; the leases the share carried are lost)
#   seeded/C45-1 (single-segment ciphertext hash tree not verified) -> .../differs-in-ciphertext-hashes
#   seeded/C45-2 (late-binding lambda verifies the last share of a server N times) -> verifier-rejects-intact-share
#   seeded/C45-3 (get_segsize() fast path returns the guess; needs read-then-repair / repair-twice on one node object
#                 and a file larger than its max_segment_size) -> repair-produced-invalid-share,
#                 repaired-share-fails-fresh-verification, file-unreadable-from-repaired-shares-alone
#   seeded/C45-4 (UploadResults list every allocated share; needs a server failing write/close of a replacement
#                 share) -> post-repair-results-list-absent-share, post-repair-healthy-with-fewer-than-N-shares-on-disk
# History: the unchanged tree used to violate C45 (verifier never tied the block hash tree to the share-hash leaf of
# the share number being verified; key .../own-share-hash-leaf-never-consulted); fixed in /repo by 7f290d0.
#   seeded/C45-5 (post-repair is_recoverable uses > k) -> post-repair-recoverable-disagrees-with-its-sharemap; needs the
#                 directed "boundary" cases (corruption only, k-1/k/k+1 good share numbers, verifying repair).
