"""C24 read-test-write is all-or-nothing across shares and guarded by the write enabler."""
META = {
    "level": "exploration",
    "technique": "pre/post snapshot oracle around the real StorageServer.slot_testv_and_readv_and_writev: byte-for-byte directory snapshots + bytearray model of the request",
    "text": "Executes the real slot_testv_and_readv_and_writev with generated multi-share requests (1..5 shares named in random order, mixed existing/new shares, passing and failing test vectors incl. a failing test only on the last share named, matching/wrong write enablers, buckets that hold a share recorded under a different enabler, requests whose later write vector is rejected with DataTooLargeError after earlier vectors were applicable). Before and after every request ALL files of the storage index are snapshotted: post must equal model(pre, request) when every test passes and the enabler matches every existing share, else post == pre byte for byte (and BadWriteEnablerError for a bad enabler); whenever the call raises, post must equal pre; read results must equal the pre-state.",
    "note": "Trusts the bytearray request model (_storage.apply_writes), the snapshot function and the independent container parser. Negative offsets / new_length (forbidden by the HTTP schema) are generated but only reported as observations.",
}
LEVEL = "exploration"
BUDGET = {"quick": 40, "thorough": 240}
SHARDS = {"quick": 1, "thorough": 8}

import os
import shutil
from vf import env  # noqa
from vf.checks import _storage as S


def run(ck):
    from allmydata.interfaces import BadWriteEnablerError
    from allmydata.storage.mutable import MutableShareFile
    MAX = MutableShareFile.MAX_SIZE
    ck.rule = ("one case = fresh server + one storage index seeded with 0..4 shares (optionally one share migrated in "
               "under a different write enabler) + 8..16 requests; every request is one evaluation; distinct = "
               "distinct (pre-state digest, request); non-trivial = names >=2 shares or hits a rejection path")
    ncases = 350 if ck.tier == "quick" else 14000
    for ci in range(ncases):
        if not ck.mine(ci):
            continue
        if ck.out_of_time():
            break
        rng = ck.rng("case", ci)
        case = S.Case(rng)
        try:
            _one_case(ck, rng, case, ci, BadWriteEnablerError, MAX)
        except Exception as e:
            import traceback
            tb = traceback.extract_tb(e.__traceback__)[-1]
            ck.violation("harness-or-code-raises-%s" % type(e).__name__, "%s: %s at %s:%d" % (
                type(e).__name__, e, os.path.basename(tb.filename), tb.lineno), {"case": ci})
        finally:
            case.close()
    for m in ("post==model", "post==pre", "reads==pre", "result-flag", "exception-leaves-pre"):
        ck.require_monitor(m)
    for r in ("all-pass-multi-share", "mixed-existing-new", "test-fails-on-last-share", "test-fails-elsewhere",
              "bad-enabler", "bad-enabler-only-on-one-share", "enabler-any-when-no-shares", "late-write-raises",
              "late-vector-same-share-raises", "delete-in-multi-share-request"):
        ck.require_reach(r)
    ck.exhaustive = False


def _one_case(ck, rng, case, ci, BadWriteEnablerError, MAX):
    ss = case.ss
    si = S.rand_si(rng)
    we = S.rand_bytes(rng, 32)
    other_we = S.rand_bytes(rng, 32)
    bucketdir = case.bucket_dir(si)
    secrets0 = (we, S.rand_bytes(rng, 32), S.rand_bytes(rng, 32))

    def state():
        """{shnum: (data, enabler)} parsed independently from the files."""
        out = {}
        for sh in case.listing(case.sharedir, si):
            raw = S.parse_mutable(case.final_path(si, sh))
            out[sh] = (raw.data, raw.write_enabler)
        return out

    # ---- seed shares
    nexist = rng.choice([0, 1, 2, 2, 3, 4])
    for sh in rng.sample(range(6), nexist):
        data = S.rand_bytes(rng, rng.choice([1, 10, 100, 900]))
        ok, _ = ss.slot_testv_and_readv_and_writev(si, secrets0, {sh: ([], [(0, data)], None)}, [], renew_leases=True)
        assert ok
    migrated = None
    if nexist and rng.random() < .2:
        # a share recorded under a different enabler, moved into this bucket
        # (the share-migration situation check_write_enabler's message talks about)
        si2 = S.rand_si(rng)
        free = [s for s in range(6) if s not in state()]
        if free:
            migrated = rng.choice(free)
            ok, _ = ss.slot_testv_and_readv_and_writev(si2, (other_we,) + secrets0[1:],
                                                       {migrated: ([], [(0, S.rand_bytes(rng, 50))], None)}, [])
            assert ok
            shutil.move(case.final_path(si2, migrated), case.final_path(si, migrated))

    nreq = rng.randint(8, 16)
    for ri in range(nreq):
        env.reactor.advance(rng.choice([0, 1, 60]))
        pre_snap = S.snapshot_dir(bucketdir)
        pre = state()
        existing = sorted(pre)
        # ------------------------------------------------ generate a request
        scenario = rng.choice(["ok", "ok", "ok", "fail-last", "fail-any", "bad-enabler", "raise-late",
                               "raise-late", "raise-same-share", "neg-offset"])
        k = rng.randint(1, 5)
        if scenario in ("fail-last", "raise-late") and k < 2:
            k = 2
        named = rng.sample(range(7), k)          # random order == dict order == evaluation order
        tw = {}
        for sh in named:
            cur = pre[sh][0] if sh in pre else b""
            testv = []
            for _ in range(rng.choice([0, 1, 1, 2])):
                o = rng.choice([0, rng.randint(0, len(cur) + 1), len(cur)])
                l = rng.choice([1, 3, len(cur) + 2, rng.randint(0, len(cur) + 2)])
                testv.append((o, l, b"eq", cur[o:o + l]))
            datav = []
            taken = []
            for _ in range(rng.choice([1, 1, 2, 3])):
                o = rng.choice([0, rng.randint(0, len(cur) + 30), len(cur), len(cur) + rng.choice([1, 700])])
                n = rng.choice([1, 2, 20, 400])
                if any(o < b and a < o + n for a, b in taken):
                    continue     # overlapping write vectors are forbidden by interfaces.py (order unspecified)
                taken.append((o, o + n))
                datav.append((o, S.rand_bytes(rng, n)))
            after = len(S.apply_writes(cur, datav, None))
            nl = rng.choice([None, None, None, max(1, after - 1), max(1, after // 2), after + 9, 0])
            tw[sh] = (testv, datav, nl)
        last = named[-1]

        def break_test(sh):
            t, d, nl = tw[sh]
            cur = pre[sh][0] if sh in pre else b""
            o = rng.randint(0, len(cur))
            spec = cur[o:o + 2]
            spec = (bytes([spec[0] ^ 0x40]) + spec[1:]) if spec and rng.random() < .6 else spec + b"!"
            tw[sh] = (t + [(o, 2, b"eq", spec)], d, nl)

        enabler = we
        raising = False
        if scenario == "fail-last":
            break_test(last)
        elif scenario == "fail-any":
            break_test(rng.choice(named))
        elif scenario == "bad-enabler":
            enabler = rng.choice([other_we, S.rand_bytes(rng, 32), we[:-1] + bytes([we[-1] ^ 1]), we[:31], b""])
            if not pre and len(enabler) != 32:      # nothing to guard; secrets are 32 bytes by the API
                enabler = S.rand_bytes(rng, 32)
        elif scenario == "raise-late":
            # an ordinary write in the first share named, a rejected one in the last
            t, d, nl = tw[last]
            tw[last] = (t, d + [(rng.choice([MAX, MAX - 1, MAX + 5, 2 * MAX]), b"xy")], None if nl == 0 else nl)
            f = named[0]
            t, d, nl = tw[f]
            if nl == 0 or not d:
                tw[f] = (t, d or [(0, b"first")], None)
            raising = True
        elif scenario == "raise-same-share":
            sh = rng.choice(named)
            t, d, nl = tw[sh]
            tw[sh] = (t, (d or [(0, b"first")]) + [(MAX, b"z")], None)
            raising = True
        elif scenario == "neg-offset":
            t, d, nl = tw[last]
            tw[last] = (t, d + [(-rng.choice([1, 5]), b"n")], None if nl == 0 else nl)
            raising = True
        readv = [(rng.choice([0, 5, 2000]), rng.choice([0, 1, 50, 10 ** 6])) for _ in range(rng.choice([0, 1, 2]))]
        renew = rng.random() < .3
        secrets = (enabler, secrets0[1], secrets0[2]) if rng.random() < .7 else \
            (enabler, S.rand_bytes(rng, 32), S.rand_bytes(rng, 32))

        # ------------------------------------------------ expectations
        enabler_ok = all(e == enabler for (_d, e) in pre.values())
        tests_ok = all(((pre[sh][0] if sh in pre else b"")[o:o + l] == spec)
                       for sh, (tv, _dv, _nl) in tw.items() for (o, l, _op, spec) in tv)
        exp_reads = {sh: [d[o:o + l] for (o, l) in readv] for sh, (d, _e) in pre.items()}
        summary = {"named_in_order": named, "existing": existing, "scenario": scenario,
                   "tw": {sh: ([(o, l, s) for (o, l, _op, s) in t][:3],
                               [(o, w if len(w) < 9 else len(w)) for o, w in d], nl)
                          for sh, (t, d, nl) in tw.items()},
                   "enabler": "recorded" if enabler == we else "other", "renew_leases": renew}

        # ------------------------------------------------ run
        exc = None
        res = None
        try:
            res = ss.slot_testv_and_readv_and_writev(si, secrets, tw, readv, renew_leases=renew)
        except Exception as e:
            exc = e
        post_snap = S.snapshot_dir(bucketdir)
        post = state()
        nontrivial = len(named) >= 2 or not enabler_ok or not tests_ok or raising

        def viol(key, what, **w):
            w.update(summary)
            w["pre"] = {sh: len(d) for sh, (d, _e) in pre.items()}
            w["post"] = {sh: len(d) for sh, (d, _e) in post.items()}
            if exc is not None:
                w["raised"] = "%s: %s" % (type(exc).__name__, str(exc)[:120])
            ck.violation(key, what, w)

        def changed():
            return sorted(k for k in set(pre_snap) | set(post_snap) if pre_snap.get(k) != post_snap.get(k))

        if not enabler_ok:
            ck.hit("bad-enabler")
            if any(e == enabler for (_d, e) in pre.values()):
                ck.hit("bad-enabler-only-on-one-share")
            ck.mon("post==pre")
            if not isinstance(exc, BadWriteEnablerError):
                viol("bad-enabler-not-rejected", "enabler differs from an existing share's but the call %s"
                     % ("returned %r" % (res[0],) if exc is None else "raised %s" % type(exc).__name__))
            if post_snap != pre_snap:
                viol("bad-enabler-modified-shares", "files %r changed although the write enabler was wrong" % (changed(),))
        elif exc is not None:
            ck.mon("exception-leaves-pre")
            if raising:
                if scenario == "raise-late":
                    ck.hit("late-write-raises")
                elif scenario == "raise-same-share":
                    ck.hit("late-vector-same-share-raises")
            if post_snap != pre_snap:
                data_changed = [sh for sh in set(pre) | set(post)
                                if (sh in pre and (sh not in post or post[sh][0] != pre[sh][0]))
                                or (sh not in pre and post[sh][0] != b"")]
                if scenario == "neg-offset":
                    ck.observe("partial-apply-on-negative-offset")
                elif not raising:
                    viol("unexpected-exception-modified-shares", "call raised %s and files %r changed"
                         % (type(exc).__name__, changed()))
                elif data_changed:
                    viol("partial-apply-on-exception",
                         "request raised %s after modifying share(s) %r: neither all nor none of its writes were applied"
                         % (type(exc).__name__, sorted(data_changed)), changed_files=changed(),
                         tests_pass=tests_ok)
                else:
                    ck.observe("empty-share-created-on-exception")
            elif not raising and scenario != "neg-offset":
                viol("unexpected-exception", "valid request raised %s: %s" % (type(exc).__name__, exc))
        else:
            ok, rd = res
            ck.mon("result-flag")
            if raising and tests_ok:
                # accepted a write beyond MAX_SIZE?  Not this property's business; all-or-none still judged below
                ck.observe("oversize-write-did-not-raise")
            if bool(ok) != tests_ok:
                viol("testv-outcome-wrong", "returned %r but the test vectors evaluate to %r on the pre-state" % (ok, tests_ok))
            ck.mon("reads==pre")
            if rd != exp_reads:
                viol("reads-not-prestate", "read results differ from the data before the request",
                     got={k: [len(x) for x in v] for k, v in rd.items()})
            if not tests_ok:
                ck.hit("test-fails-on-last-share" if scenario == "fail-last" else "test-fails-elsewhere")
                ck.mon("post==pre")
                if post_snap != pre_snap:
                    viol("failed-test-modified-shares", "a test vector failed but files %r changed" % (changed(),))
            elif not raising:
                if not pre:
                    ck.hit("enabler-any-when-no-shares")
                if len(named) >= 2:
                    ck.hit("all-pass-multi-share")
                if any(sh in pre for sh in named) and any(sh not in pre for sh in named):
                    ck.hit("mixed-existing-new")
                if len(named) >= 2 and any(nl == 0 and sh in pre for sh, (_t, _d, nl) in tw.items()):
                    ck.hit("delete-in-multi-share-request")
                ck.mon("post==model")
                want = {sh: d for sh, (d, _e) in pre.items()}
                for sh, (_t, dv, nl) in tw.items():
                    if nl == 0:
                        want.pop(sh, None)
                    else:
                        want[sh] = bytes(S.apply_writes(want.get(sh, b""), dv, nl))
                got = {sh: d for sh, (d, _e) in post.items()}
                if got != want:
                    diff = sorted(sh for sh in set(got) | set(want) if got.get(sh) != want.get(sh))
                    viol("post-state-differs-from-model", "share(s) %r differ from model(pre, request)" % (diff,),
                         want={sh: len(d) for sh, d in want.items()})
                for sh, (_d, e) in post.items():
                    if e != (pre[sh][1] if sh in pre else enabler):
                        viol("enabler-field-changed", "share %d: recorded write enabler changed" % sh)
                for sh in pre:
                    if sh not in tw:
                        name = "%d" % sh
                        if pre_snap.get(name) != post_snap.get(name):
                            viol("unnamed-share-modified", "share %d not named by the request but its file changed" % sh)
        ck.case("request:" + scenario, key=(S.b32(si), ri, repr(summary)), nontrivial=nontrivial,
                sample=summary)
        # the enabler under which a bucket was (re)created may now be `enabler`
        if not post and migrated is not None:
            migrated = None
        if not state():
            # bucket emptied: later requests may establish a new enabler
            if rng.random() < .5:
                we = S.rand_bytes(rng, 32)
        else:
            cur_e = {e for (_d, e) in state().values()}
            if len(cur_e) == 1:
                we = cur_e.pop()


# MUST_CATCH -- planted breaks run against scratch copies (VF_REPO), quick tier, seed 0; each adds the listed keys
# to the genuine `partial-apply-on-exception` already present on the unchanged tree:
#  1. server.py: test vectors evaluated after the writes          CAUGHT (failed-test-modified-shares, testv-outcome-wrong)
#  2. server.py _collect_...: enabler checked for the first share only   CAUGHT (bad-enabler-not-rejected, bad-enabler-modified-shares)
#  3. server.py: read vectors gathered after the writes           CAUGHT (reads-not-prestate)
#  4. server.py _evaluate_test_vectors: only the first share named is tested   CAUGHT (testv-outcome-wrong, failed-test-modified-shares)
#  5. mutable.py check_write_enabler: compares 31 bytes           CAUGHT (bad-enabler-not-rejected)
#  6. server.py: enabler check skipped                            CAUGHT (bad-enabler-not-rejected)
#  7. server.py: tests on missing shares always pass              CAUGHT (testv-outcome-wrong)
#  8. server.py: each share written right after its own test      CAUGHT (failed-test-modified-shares, reads-not-prestate)
# The proposed fix (validate every write vector against MAX_SIZE before the first write) makes this check exit 0.
#  9. server.py _evaluate_write_vectors: write vectors sorted by end offset (seeded C23-5)   CAUGHT (post-state-differs-from-model)
