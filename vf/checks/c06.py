"""C06 a successful immutable upload meets servers-of-happiness."""
META = {
    "level": "exploration",
    "technique": "runtime monitoring of the real Uploader on an in-process grid under generated server-fault plans; after quiescence the share directories of every server are walked and judged by an independent maximum matching and by byte-comparison with reference shares",
    "text": "Runs the real Uploader/Tahoe2ServerSelector/Encoder against 1..12 real StorageServers mixing healthy, read-only, full (simulated disk: at start, only after the version was announced, or with room for m shares), upload-not-permitted, dead, erroring (nth or every allocate_buckets/get_buckets/write/close/abort), answering-but-reporting-an-error, disconnecting, slow (crossing the 15 s query timeout) and never-answering servers, with pre-existing complete shares and pre-existing in-progress (incoming) shares anywhere, k/happy/N varied including happy above the number of usable servers, default and reduced write batching (several write messages per share), three transport profiles. Oracle at quiescence: a share counts only if its data is byte-identical to the share an honest upload of the same file, key and parameters produces. Success => maximum matching of the real (share -> servers) map >= happy and every (server, share) in UploadResults sharemap/servermap is complete on that server. Failure => the error is UploadUnhappinessError/NoServersError (judged when the threshold provably could not be met) and no incomplete share of this storage index is visible in any shares/ directory.",
    "note": "Trusts the in-process Wire/virtual reactor, the Kuhn matching model and the reference upload on an all-honest scratch grid (C01). Disk space is simulated by substituting fileutil.get_disk_stats as seen by the storage server. An upload that fails although a happy layout was reachable belongs to C07 and is only counted. Sampled exploration.",
}
LEVEL = "exploration"
BUDGET = {"quick": 45, "thorough": 420}
SHARDS = {"quick": 1, "thorough": 12}

from vf import env  # noqa
import os

KINDS = ["ok", "ok", "ok", "ok", "readonly", "full", "full-late", "space-for-m", "space-for-m-late",
         "not-permitted", "dead", "raise-nth", "raise-nth", "raise-nth", "raise-all", "error-after",
         "disconnect-nth", "disconnect-nth", "slow-20s", "slow", "hang-nth", "raise-from", "raise-many"]
METHODS = ["get_buckets", "allocate_buckets", "write", "write", "close", "close", "abort"]


# ------------------------------------------------------------------ case generation (pure data)
def gen_case(rng, tier, directed=None):
    nservers = rng.choice([1, 2, 2, 3, 3, 4, 4, 5, 5, 6, 7, 8, 10, 12])
    n = rng.choice([1, 2, 3, 3, 4, 4, 5, 6, 8, 10])
    k = rng.randint(1, n)
    if rng.random() < .3:
        k = rng.choice([1, n, max(1, n - 1), min(n, 3)])
    segsize = rng.choice([16, 56, 64, 128, 1024, 131072])
    maxsize = 3000 if tier == "quick" else 12000
    size = max(56, rng.choice([56, 57, 100, segsize * 2, segsize * 3 + 1, rng.randint(56, maxsize)]))
    eff = max(1, ((min(segsize, size) + k - 1) // k) * k)
    while size // eff > 16:
        segsize *= 4
        eff = max(1, ((min(segsize, size) + k - 1) // k) * k)
    p_ok = rng.choice([.3, .5, .7, .9, 1.0])
    servers = []
    for s in range(nservers):
        kind = "ok" if rng.random() < p_ok else rng.choice(KINDS)
        spec = {"kind": kind}
        if kind in ("raise-nth", "disconnect-nth", "hang-nth", "error-after"):
            spec["method"] = rng.choice(METHODS)
            spec["nth"] = rng.choice([1, 1, 1, 2, 2, 3, 4])
            if kind == "error-after":
                spec["method"] = rng.choice(["close", "write", "allocate_buckets"])
            if kind == "hang-nth":
                spec["method"] = rng.choice(["get_buckets", "allocate_buckets", "allocate_buckets", "write", "close"])
        elif kind == "raise-all":
            spec["method"] = rng.choice(METHODS + [None])
        elif kind == "raise-from":
            # every write (or close) after the a-th fails: the server loses its buckets one after the other
            spec["method"] = rng.choice(["write", "write", "close"])
            spec["after"] = rng.choice([0, 1, 2, 3, 5])
        elif kind == "raise-many":
            # several single failures at different times: some buckets of this server die, others survive
            spec["method"] = rng.choice(["write", "write", "close"])
            spec["nths"] = sorted(rng.sample(range(1, 9), rng.randint(2, 3)))
        elif kind in ("space-for-m", "space-for-m-late"):
            spec["m"] = rng.choice([0, 1, 1, 2, 3])
        elif kind == "slow-20s":
            spec["method"] = rng.choice(["get_buckets", "allocate_buckets", "allocate_buckets", None])
            spec["delay"] = rng.choice([14.0, 16.0, 20.0, 40.0])
        elif kind == "slow":
            spec["method"] = rng.choice(METHODS + [None])
            spec["delay"] = rng.choice([0.5, 3.0, 9.0])
        elif kind == "dead":
            spec["zombie"] = rng.random() < .7
        servers.append(spec)
    mode = rng.random()
    if mode < .25 and nservers >= 2:
        # all healthy but one or two servers failing during the transfer: the shareholder-removal path
        for s in range(nservers):
            servers[s] = {"kind": "ok"}
        for s in rng.sample(range(nservers), rng.choice([1, 1, 2]) if nservers > 2 else 1):
            servers[s] = {"kind": rng.choice(["raise-nth", "raise-nth", "disconnect-nth", "error-after"]),
                          "method": rng.choice(["write", "close"]), "nth": rng.choice([1, 1, 2, 3])}
    elif mode < .29:
        # nobody to upload to: every server refuses uploads or is gone
        for s in range(nservers):
            servers[s] = rng.choice([{"kind": "not-permitted"}, {"kind": "dead", "zombie": False}])
    if directed == "timeout" and nservers >= 2:
        # healthy servers plus one whose allocate/get_buckets answer arrives after the 15 s query timeout
        for s in range(nservers):
            servers[s] = {"kind": "ok"}
        servers[rng.randrange(nservers)] = {"kind": "slow-20s", "delay": rng.choice([16.0, 20.0, 40.0]),
                                            "method": rng.choice(["get_buckets", "allocate_buckets", None])}
    elif directed == "transfer" and nservers >= 2:
        for s in range(nservers):
            servers[s] = {"kind": "ok"}
        for s in rng.sample(range(nservers), rng.choice([1, 1, 2]) if nservers > 2 else 1):
            servers[s] = {"kind": rng.choice(["raise-nth", "disconnect-nth", "error-after"]),
                          "method": rng.choice(["write", "close"]), "nth": rng.choice([1, 1, 2])}
    duploss = None
    if directed == "duploss":
        # several shares per server; one share number X already sits on a read-only server Q AND on a writable server
        # P; P loses the buckets it is given one after the other (at different times) but keeps X.  Once P's new
        # shares are gone P and Q can only offer the same share: the real matching drops below the server count.
        nservers = rng.choice([3, 3, 4, 5])
        n = rng.randint(min(10, 2 * nservers), 10)
        k = rng.randint(1, min(3, n))
        servers = [{"kind": "ok"} for _ in range(nservers)]
        q, pp = rng.sample(range(nservers), 2)
        servers[q] = {"kind": "readonly"}
        servers[pp] = rng.choice([{"kind": "raise-from", "method": rng.choice(["write", "close"]),
                                   "after": rng.choice([0, 0, 1, 2])},
                                  {"kind": "raise-many", "method": "write", "nths": sorted(rng.sample(range(1, 7), 3))}])
        duploss = (q, pp, rng.randrange(n))
    n_ok = sum(1 for sp in servers if sp["kind"] == "ok")
    n_push = sum(1 for sp in servers if sp["kind"] in ("ok", "raise-nth", "disconnect-nth", "error-after", "slow",
                                                        "raise-from", "raise-many"))
    happy = rng.choice([1, k, n_ok - 1, n_ok, n_ok, n_ok + 1, n_push, n_push - 1, nservers, n, n + 1])
    if directed == "transfer":
        happy = rng.choice([n_push, n_push - 1, n_ok, n_ok + 1])
    elif directed == "timeout":
        happy = rng.choice([n_ok, n_ok, n_ok + 1, 1])
    elif duploss:
        happy = rng.choice([nservers, nservers, nservers - 1])
    happy = max(1, min(n + 1, happy))
    if rng.random() < .85:
        happy = min(happy, n)
    pre = []
    inc = []
    if rng.random() < .45:
        for sh in rng.sample(range(n), rng.randint(1, n)):
            for s in rng.sample(range(nservers), rng.randint(1, min(2, nservers))):
                pre.append((s, sh))
        if rng.random() < .3:   # everything on one (possibly read-only) server
            s0 = rng.randrange(nservers)
            pre = [(s0, sh) for (_, sh) in pre]
        pre = sorted(set(pre))
    if rng.random() < .3:
        for _ in range(rng.randint(1, 3)):
            s, sh = rng.randrange(nservers), rng.randrange(n)
            if (s, sh) not in pre and servers[s]["kind"] not in ("readonly", "full"):
                inc.append((s, sh, rng.choice([0.0, 0.3, 1.0])))
        inc = sorted(set(inc))
    if duploss:
        q, pp, x = duploss
        pre = [(q, x), (pp, x)]
        if rng.random() < .4:      # further duplicates elsewhere
            pre.append((rng.randrange(nservers), rng.randrange(n)))
        pre = sorted(set(pre))
        inc = []
    batch = rng.choice([None, None, 64, 200, 1000])
    profile = rng.choice(["fifo", "per-server-fifo", "per-server-fifo", "free"])
    return dict(k=k, n=n, happy=happy, size=size, segsize=segsize, nservers=nservers, servers=servers,
                preexisting=pre, incoming=inc, batch=batch, profile=profile)


from vf.checks._immref import share_data, reference_shares  # noqa: E402


class FakeDisk(object):
    """Substitute for fileutil.get_disk_stats: per-server free space (bytes), others see the real disk."""

    def __init__(self, fileutil):
        self.fileutil = fileutil
        self.orig = fileutil.get_disk_stats
        self.free = {}    # server name -> free bytes
        fileutil.get_disk_stats = self

    def __call__(self, whichdir, reserved_space=0):
        parts = whichdir.split(os.sep)
        name = None
        if "servers" in parts:
            i = parts.index("servers")
            if i + 1 < len(parts):
                name = parts[i + 1]
        if name in self.free:
            free = self.free[name]
            return {"total": 10 ** 12, "free_for_root": free, "free_for_nonroot": free,
                    "used": 10 ** 12 - free, "avail": max(free - reserved_space, 0)}
        return self.orig(whichdir, reserved_space)

    def restore(self):
        self.fileutil.get_disk_stats = self.orig


def run(ck):
    from allmydata.immutable import layout
    ck.rule = ("case = (k,happy,N,size,segsize, 1..12 servers each with a kind from {ok, readonly, full, full-late, "
               "space-for-m(-late), not-permitted, dead, raise-nth/all(method), raise-from(method, a), raise-many(method, nths), error-after(method), disconnect-nth, "
               "slow-20s, slow, hang-nth}, pre-existing complete shares, pre-existing incoming shares, write batch "
               "size, transport profile, schedule seed); happy is drawn around the number of healthy/pushable servers; "
               "distinct = full case description; non-trivial = at least one non-healthy server or pre-existing share")
    ck.assumptions.append("in a fraction of cases the default batch_size argument of the real WriteBucketProxy is "
                          "lowered (64..1000 bytes) so that small files are sent in several write messages")
    ck.assumptions.append("a share counts as complete iff its share data equals the reference share from an honest "
                          "upload of the same (key, plaintext, k, N, segment size)")
    orig_defaults = layout.WriteBucketProxy.__init__.__defaults__
    i = 0
    try:
        while ck.more(min_cases=180 if ck.tier == "quick" else 0):   # not by wall clock alone (load: see DESIGN 8.4b)
            i += 1
            if not ck.mine(i):
                continue
            if os.environ.get("VF_CASE") and i != int(os.environ["VF_CASE"]):
                if i > int(os.environ["VF_CASE"]):
                    break
                continue
            rng = ck.rng("case", i)
            case = gen_case(rng, ck.tier, {0: "timeout", 1: "transfer", 2: "transfer", 3: "duploss", 4: "duploss"}.get((i // ck.nshards) % 8))
            try:
                with ck.watchdog(180, "case %d" % i):
                    one_case(ck, rng, case, layout, orig_defaults)
            finally:
                layout.WriteBucketProxy.__init__.__defaults__ = orig_defaults
            if ck.tier == "quick" and ck.evaluations >= 300:
                break      # fixed number of cases: a quick run is reproducible per VERIF_SEED on any machine
    finally:
        layout.WriteBucketProxy.__init__.__defaults__ = orig_defaults
    ck.require_monitor("happiness-oracle", "reported-share-oracle", "failure-oracle")
    ck.require_reach("upload-succeeded", "upload-failed-unhappy", "failed-after-transfer-started",
                     "failed-during-selection", "succeeded-after-losing-a-shareholder", "abort-delivered",
                     "succeeded-counting-preexisting-shares", "query-timeout-crossed",
                     "unhappy-after-repeated-losses-on-server-keeping-a-duplicate-share")


def one_case(ck, rng, case, layout, orig_defaults):
    from vf.grid import VGrid
    from vf import imm
    from vf.models import happiness_of_sharemap
    from allmydata import uri
    from allmydata.util import fileutil
    from allmydata.interfaces import UploadUnhappinessError, NoServersError

    k, n, happy, nservers = case["k"], case["n"], case["happy"], case["nservers"]
    params = dict(k=k, n=n, segsize=case["segsize"])
    data = imm.gen_data(rng, case["size"])
    key = rng.randbytes(16)
    try:
        refcap, refraw = reference_shares(max(1, min(n, 4)), params, data, key)
    except RuntimeError:
        ck.observe("scratch-upload-failed")
        return
    if len(refraw) < n:
        ck.observe("scratch-upload-incomplete")
        return
    ref = {sh: share_data(raw) for sh, raw in refraw.items()}
    alloc = len(ref[0])
    si = uri.from_string(refcap).get_storage_index()

    specs = case["servers"]
    disk = FakeDisk(fileutil)
    g = None
    try:
        for s, sp in enumerate(specs):
            if sp["kind"] == "full":
                disk.free["s%02d" % s] = 0
            elif sp["kind"] == "space-for-m":
                disk.free["s%02d" % s] = sp["m"] * alloc + (alloc - 1 if rng.random() < .5 else 0)
        g = VGrid(nservers=nservers, seed=rng.getrandbits(32), profile=case["profile"], keep_log=True,
                  readonly={s for s, sp in enumerate(specs) if sp["kind"] == "readonly"})
        # -- pre-existing state
        for (s, sh) in case["preexisting"]:
            d = g.servers[s].sharedir(si)
            os.makedirs(d, exist_ok=True)
            with open(os.path.join(d, "%d" % sh), "wb") as f:
                f.write(refraw[sh])
        other_writers = []
        for (s, sh, frac) in case["incoming"]:
            vs = g.servers[s]
            # another uploader's unfinished share: allocated through the real server API, partly written, never closed
            try:
                _, bws = vs.ss.allocate_buckets(si, b"R" * 32, b"C" * 32, {sh}, alloc)
            except Exception as e:      # e.g. NoSpace from a full server that already holds shares
                ck.observe("incoming-setup-refused:" + type(e).__name__)
                continue
            if sh in bws:
                cut = int(alloc * frac)
                if cut:
                    bws[sh].write(0, ref[sh][:cut])
                other_writers.append(bws[sh])
        # -- fault plan
        for s, sp in enumerate(specs):
            vs = g.servers[s]
            kind = sp["kind"]
            if kind == "full-late":
                disk.free[vs.name] = 0
            elif kind == "space-for-m-late":
                disk.free[vs.name] = sp["m"] * alloc + (alloc - 1 if rng.random() < .5 else 0)
            elif kind == "not-permitted":
                vs.iserver.permitted = False
            elif kind == "dead":
                vs.connected = False
                vs.zombie = sp["zombie"]
            elif kind == "raise-nth":
                vs.add_fault("raise", method=sp["method"], nth=sp["nth"])
            elif kind == "raise-all":
                vs.add_fault("raise", method=sp["method"])
            elif kind == "raise-from":
                vs.add_fault("raise", method=sp["method"], after_nth=sp["after"])
            elif kind == "raise-many":
                for nth in sp["nths"]:
                    vs.add_fault("raise", method=sp["method"], nth=nth)
            elif kind == "error-after":
                vs.add_fault("raise-after", method=sp["method"], nth=sp["nth"])
            elif kind == "disconnect-nth":
                vs.add_fault("disconnect", method=sp["method"], nth=sp["nth"])
            elif kind == "hang-nth":
                vs.add_fault("hang", method=sp["method"], nth=sp["nth"])
            elif kind in ("slow-20s", "slow"):
                vs.add_fault("delay", method=sp["method"], delay=sp["delay"])
        if case["batch"] is not None:
            layout.WriteBucketProxy.__init__.__defaults__ = (case["batch"],)

        before = disk_state(g, si, ref)
        incoming_before = {p for vs in g.servers for p in vs.incoming_files()}
        c = g.make_client(k=k, happy=happy, n=n, max_segment_size=case["segsize"])
        st, res = g.wait(c.upload(imm.FixedKeyData(data, key)), horizon=3 * 3600.0)
        # quiescence: everything runnable, then let late answers / short timers run, then settle again
        g.sched.settle()
        g.sched.run(horizon=45.0)
        g.sched.settle()
        after = disk_state(g, si, ref)
        incoming_left = sum(1 for vs in g.servers for p in vs.incoming_files() if p not in incoming_before)

        calls = g.calls
        n_write = sum(1 for r in calls if r["method"] in ("write", "close"))
        fired = {(vs.index, f.method) for vs in g.servers for f in vs.faults if f.fired}
        desc = dict(case, status=st)
        realmap = {}
        for (s, sh), state in after.items():
            if state == "complete":
                realmap.setdefault(sh, set()).add(s)
        w = dict(desc, disk_after={"s%02d/sh%d" % kk: v for kk, v in sorted(after.items())},
                 disk_before=sorted("s%02d/sh%d" % kk for kk in before),
                 error=_f(res) if st == "err" else None)
        nontrivial = any(sp["kind"] != "ok" for sp in specs) or bool(case["preexisting"]) or bool(case["incoming"])

        if any(r["method"] == "abort" and r["state"] in ("delivered", "answered") for r in calls):
            ck.hit("abort-delivered")
        if any(sp["kind"] == "slow-20s" and sp["delay"] > 15.0 and g.servers[s].calls for s, sp in enumerate(specs)):
            ck.hit("query-timeout-crossed")
        if case["incoming"] and any(r["method"] == "allocate_buckets" and r["state"] != "sent" and
                                    any((int(r["server"][1:]), sh) == (s_, sh_) for (s_, sh_, _) in case["incoming"]
                                        for sh in r["args"][3]) for r in calls):
            ck.hit("allocate-hit-an-incoming-share")

        if st == "ok":
            ck.hit("upload-succeeded")
            ck.mon("happiness-oracle")
            h = happiness_of_sharemap(realmap)
            w["real_sharemap"] = {sh: sorted(v) for sh, v in sorted(realmap.items())}
            w["real_happiness"] = h
            if h < happy:
                ck.violation("success-below-happiness-threshold",
                             "upload reported success with happy=%d but the shares really complete on the servers "
                             "form a layout with servers-of-happiness %d" % (happy, h), w)
            reported = set()
            try:
                for sh, servers in res.get_sharemap().items():
                    for srv in servers:
                        reported.add((srv.vserver.index, sh))
                inverse = set()
                for srv, shs in res.get_servermap().items():
                    for sh in shs:
                        inverse.add((srv.vserver.index, sh))
            except Exception as e:
                ck.violation("upload-results-unreadable", "get_sharemap/get_servermap raised %s" % type(e).__name__, w)
                reported, inverse = set(), set()
            w["reported"] = sorted("s%02d/sh%d" % kk for kk in reported | inverse)
            for (s, sh) in sorted(reported | inverse):
                ck.mon("reported-share-oracle")
                state = after.get((s, sh))
                if state is None:
                    ck.violation("reported-share-absent-on-server",
                                 "UploadResults names share %d on server s%02d but no such share file is visible "
                                 "there after the upload" % (sh, s), w)
                elif state != "complete":
                    ck.violation("reported-share-incomplete-on-server",
                                 "UploadResults names share %d on server s%02d but the share file there differs from "
                                 "the complete share" % (sh, s), w)
            if reported != inverse:
                ck.observe("sharemap-and-servermap-disagree")
            lost = any(m in ("write", "close") for (_, m) in fired)
            if lost and len({sh for (_, sh) in reported}) < n:
                ck.hit("succeeded-after-losing-a-shareholder")
            try:
                if res.get_preexisting_shares() and case["preexisting"]:
                    ck.hit("succeeded-counting-preexisting-shares")
            except Exception:
                pass
            if h == happy:
                ck.hit("succeeded-exactly-at-threshold")
            if len(realmap) < n:
                ck.hit("succeeded-with-fewer-than-N-distinct-shares")
            cls = "success"
        elif st == "err":
            ck.mon("failure-oracle")
            unhappy = res.check(UploadUnhappinessError, NoServersError) is not None
            # could the threshold have been met at all?  upper bound: one share per server the broker offers
            offered = [vs for vs in g.servers if (case["servers"][vs.index]["kind"] != "dead" or
                                                  case["servers"][vs.index].get("zombie"))
                       and case["servers"][vs.index]["kind"] != "not-permitted"]
            impossible = happy > min(n, len(offered))
            if unhappy:
                ck.hit("upload-failed-unhappy")
                # behavioural reach for the stale-happiness class: a server lost two or more buckets during the
                # transfer while it still holds a (pre-existing) share that another server holds too
                for vs in g.servers:
                    losses = sum(f.fired for f in vs.faults if f.method in ("write", "close"))
                    kept = {sh for (s_, sh) in case["preexisting"] if s_ == vs.index}
                    dup = any(sh in kept for (s_, sh) in case["preexisting"] if s_ != vs.index)
                    if losses >= 2 and dup:
                        ck.hit("unhappy-after-repeated-losses-on-server-keeping-a-duplicate-share")
                        break
                ck.hit("err:" + res.type.__name__)
            else:
                ck.observe("failed-with-other-error:" + res.type.__name__)
                if "other_error_sample" not in ck.extra:
                    ck.extra["other_error_sample"] = dict(case=repr(case)[:1500], error=_f(res),
                                                          traceback=res.getTraceback()[-1200:])
                if os.environ.get("VF_CASE"):
                    print(case, res.getTraceback())
                if impossible:
                    ck.violation("unmeetable-threshold-reported-as-other-error",
                                 "happy=%d cannot be met (N=%d, %d servers offered) but the upload failed with %s "
                                 "instead of an unhappiness error" % (happy, n, len(offered), _f(res)), w)
                else:
                    ck.skip("failed-with-other-error-threshold-possibly-reachable")
            new = {kk: v for kk, v in after.items() if kk not in before}
            partial = {kk: v for kk, v in new.items() if v != "complete"}
            if partial:
                ck.violation("failed-upload-leaves-visible-partial-share",
                             "upload failed (%s) but incomplete share(s) %s of this storage index are visible in "
                             "shares/ (readable through get_buckets)" % (
                                 res.type.__name__, sorted("s%02d/sh%d" % kk for kk in partial)), w)
            if new and not partial:
                ck.observe("failed-upload-left-complete-shares-visible")
                ck.skip("failed-upload-left-only-complete-shares")
            if n_write:
                ck.hit("failed-after-transfer-started")
            else:
                ck.hit("failed-during-selection")
            n_clean = sum(1 for sp in specs if sp["kind"] == "ok")
            if happy <= min(n, n_clean) and unhappy:
                ck.skip("failed-although-a-happy-layout-was-reachable(C07)")
            cls = "failure"
        else:
            # neither callback nor errback: a server that never answers a write/close stalls the encoder;
            # the statement is about uploads that finish
            ck.skip("upload-never-finished")
            ck.hit("status-" + st)
            cls = "unfinished"
        changed_pre = [kk for kk in before if after.get(kk) != "complete"]
        if changed_pre:
            ck.observe("preexisting-share-changed-or-removed")
        if incoming_left:
            # not visible to readers (no verdict); they block re-uploads of that share to that server for 30 minutes
            ck.observe("incoming-leftovers-after-%s" % {"ok": "successful-upload", "err": "failed-upload"}.get(
                st, "unfinished-upload"), incoming_left)
        ck.observe("eventual-exceptions", len(env.evq.exceptions))
        ck.case(cls, key=repr(case), nontrivial=nontrivial,
                sample=dict(k=k, n=n, happy=happy, nservers=nservers, servers=specs, status=st,
                            preexisting=case["preexisting"], incoming=case["incoming"]))
    finally:
        layout.WriteBucketProxy.__init__.__defaults__ = orig_defaults
        disk.restore()
        if g is not None:
            g.close()


def disk_state(g, si, ref):
    """{(server index, shnum): 'complete' | 'differs'} for every share file visible in a shares/ directory."""
    out = {}
    for vs in g.servers:
        for shnum, path in vs.shares_of(si).items():
            try:
                with open(path, "rb") as f:
                    raw = f.read()
            except OSError:
                continue
            out[(vs.index, shnum)] = "complete" if (shnum in ref and share_data(raw) == ref[shnum]) else "differs"
    return out


def _f(res):
    try:
        return "%s: %s" % (res.type.__name__, str(res.value)[:300])
    except Exception:
        return repr(res)[:300]


# MUST_CATCH (selftest/breaks_c06.py; all caught on quick, seed 0):
#   c06-remove-shareholder-no-recheck            encode.py _remove_shareholder: happiness not re-checked
#   c06-lost-share-still-counted                 encode.py _remove_shareholder: lost share stays in servermap
#   c06-final-test-lets-happy-minus-one-through  upload.py get_shareholders: final `<` test off by one
#   c06-success-does-not-wait-for-close          encode.py close_all_shareholders: result not awaited
#   c06-close-errors-ignored                     encode.py close errback swallowed
#   c06-client-abort-closes-instead              layout.py WriteBucketProxy.abort sends close
#   c06-server-abort-publishes-share             storage/immutable.py remote_abort -> close
#   c06-results-report-lost-shares               upload.py _encrypted_done reports every allocated share
# NOT catchable under the statement (only incoming/ leftovers, invisible to readers; the observation counter
# "incoming-leftovers-after-failed-upload" rises, no verdict): Tahoe2ServerSelector._failed without tracker.abort();
# Encoder.err without landlord.abort().
# Adjacent finding, not a C06 verdict (threshold was reachable; counted under
# dont_care "failed-with-other-error-threshold-possibly-reachable"): when a server times out / fails in the first
# allocation round, the second round re-places shares that already have a bucket on another server; the same share
# number is then allocated twice and CHKUploader.set_shareholders dies with AssertionError instead of uploading.
#   seeded/C08-6 (Encoder caches the happiness after a lost shareholder and reuses it while the failing server still
#                 holds some share) -> success-below-happiness-threshold; needs the directed "duploss" cases: a share
#                 number pre-existing on a read-only server AND on a writable server that then loses its new buckets
#                 one after the other (fault kinds raise-from / raise-many) while keeping the duplicate.
