"""C16 capabilities attenuate correctly (write -> read -> verify; alleged ro./imm. never amplify)."""
META = {
    "level": 'exploration',
    "technique": 'runtime oracle on the real cap classes, uri.from_string, NodeMaker.create_from_cap, UnknownNode and strip_prefix_for_ro: independent hashlib derivation chain + secret-substring search + complete truth table over kind x alleged prefix x deep_immutable x slot',
    "text": 'For every cap family (CHK, LIT, SSK, MDMF and all DIR2 wrappers) with random secrets the real get_readonly()/get_verify_cap() chain (on caps and on lazily constructed nodes from a grid-less NodeMaker) is compared with an independent SHA256d tagged-hash chain (readkey=H(writekey)[:16], SI=H(readkey)[:16], CHK SI=H(key)[:16]); every derived string/repr/public attribute is searched for the stronger secret; is_readonly()/is_mutable()/get_write_uri() of derived caps and nodes may not claim more authority. The product 18 kinds x 7 prefix spellings x deep_immutable x {rw, ro, both} slots is enumerated completely (secrets sampled): nothing parsed from an alleged read-only / immutable string, or in a deep-immutable context, may be writeable / mutable. Unknown (future) caps are run through UnknownNode and NodeMaker in all slot/prefix/context combinations, through strip_prefix_for_ro re-reading, and through real pack_children/_unpack_contents of writeable, read-only and immutable directory nodes.',
    "note": 'Trusts the hash tags and the 20-line SHA256d chain re-typed in vf/checks/_caps.py (cross-checked against the real derivation on every case) and that authority is visible through to_string()/get_*_uri()/is_readonly()/is_mutable() and the public key attributes. Secret search covers aligned base32 and byte-aligned raw occurrences only.',
}
LEVEL = "exploration"
BUDGET = {"quick": 40, "thorough": 200}
SHARDS = {"quick": 1, "thorough": 4}

import re
from vf import env  # noqa
from vf.checks import _caps as M

PREFIXES = [b"", b"ro.", b"imm.", b"ro.ro.", b"ro.imm.", b"imm.ro.", b"imm.imm."]

# family: (write kind, read kind, verify kind)
MUTABLE_FAMILIES = [("SSK", "SSK-RO", "SSK-Verifier"), ("MDMF", "MDMF-RO", "MDMF-Verifier"),
                    ("DIR2", "DIR2-RO", "DIR2-Verifier"), ("DIR2-MDMF", "DIR2-MDMF-RO", "DIR2-MDMF-Verifier")]
CHK_FAMILIES = [("CHK", "CHK-Verifier"), ("DIR2-CHK", "DIR2-CHK-Verifier")]
LIT_KINDS = ["LIT", "DIR2-LIT"]


def leaks(secret, text):
    """Does `text` (bytes) carry `secret` as aligned base32 or byte-aligned inside any base32 field?"""
    if not secret:
        return False
    enc = M.b32enc(secret)
    if enc[:-1] in text:
        return True
    if secret in text:
        return True
    for f in re.split(rb"[^a-z2-7]+", text):
        if len(f) >= 8:
            d = M.b32dec_lenient(f)
            if d is not None and secret in d:
                return True
    return False


def rsecret(rng, n):
    return bytes(rng.getrandbits(8) for _ in range(n))


def run(ck):
    from allmydata import uri
    from allmydata.nodemaker import NodeMaker
    from allmydata.unknown import UnknownNode, strip_prefix_for_ro
    from allmydata.dirnode import pack_children
    from allmydata.interfaces import CapConstraintError

    ck.rule = ("(A) per family and random secret: real derivation chain on caps and nodes vs independent hash chain; "
               "(B) complete product kind(18) x prefix(7: none, ro., imm., doubled/mixed) x deep_immutable(2) x slot(rw, ro, both), "
               "several random secrets each, on uri.from_string and NodeMaker.create_from_cap (shared and fresh NodeMaker); "
               "(C) unknown caps: product of rw/ro slot contents (absent, empty, plain, ro., imm., test-writeable, test-mutable) "
               "x deep_immutable on UnknownNode and NodeMaker, re-read through strip_prefix_for_ro; (D) children packed with "
               "pack_children and re-read by writeable / read-only / immutable DirectoryNode._unpack_contents. "
               "distinct = distinct (part, cap strings, context); all cases non-trivial")
    ck.assumptions.append("a cap placed in the ro slot WITHOUT an alleged prefix is not 'marked' for known kinds "
                          "(NodeMaker trusts known cap strings); only prefixes and deep_immutable are judged there")
    rng = ck.rng("c16")
    keep = []     # keep nodes alive so that NodeMaker's weak cache really is exercised

    def mk():
        return NodeMaker(None, None, None, None, None, {"k": 3, "n": 10}, None, None)

    shared = mk()

    def show(b):
        return b.decode("latin-1") if isinstance(b, bytes) else b

    class Raised(object):
        """Stands in for the result of a cap operation that raised; never equal to any expected value."""
        def __init__(self, exc):
            self.exc = exc

        def __repr__(self):
            return "<raised %s: %s>" % (type(self.exc).__name__, str(self.exc)[:100])

    def S(x):
        """x.to_string(), or a Raised marker: an exception while serialising a derived cap is judged, not a crash."""
        if x is None:
            return None
        try:
            return x.to_string()
        except Exception as e:   # noqa
            ck.hit("derived-cap-operation-raised")
            return Raised(e)

    def texts_of(*objs):
        """serialisations / reprs usable for the secret search (those that raise are judged elsewhere)."""
        out = []
        for o in objs:
            if o is None:
                continue
            t = S(o)
            if isinstance(t, bytes):
                out.append(t)
            try:
                out.append(repr(o).encode("utf-8", "replace"))
            except Exception:   # noqa
                ck.hit("derived-cap-operation-raised")
        return out

    def chain_key(got):
        return "derived-cap-unusable" if isinstance(got, Raised) else "derivation-chain-mismatch"

    def usable(obj, twin, label, wit):
        """A derived cap must serialise, parse back to an equal cap of its class, and compare/hash equal to the
        same cap derived along the other path (`twin`); an exception in any of these is a violation."""
        ck.mon("derived-cap-usable")
        try:
            t = obj.to_string()
            back = uri.from_string(t)
            ok = type(back) is type(obj) and back == obj and not (back != obj) and hash(back) == hash(obj)
            what = "does not parse back to an equal %s (got %s %r)" % (type(obj).__name__, type(back).__name__,
                                                                        show(back.to_string()))
            if ok and twin is not None:
                ok = (obj == twin) and not (obj != twin) and hash(obj) == hash(twin) and len({obj, twin}) == 1
                what = "differs (==/hash) from the same cap derived along the other path (%r)" % (show(S(twin)),)
        except Exception as e:   # noqa
            ck.hit("derived-cap-operation-raised")
            ck.violation("derived-cap-unusable", "%s (%s): to_string()/from_string()/==/hash raised %s: %s"
                         % (label, type(obj).__name__, type(e).__name__, str(e)[:120]), wit)
            return
        if not ok:
            ck.violation("derived-cap-unusable", "%s %s" % (label, what), wit)

    def guarded(label, wit, fn, *a):
        """Run one block of derivations on the real code; an exception there is a verdict, never a harness crash."""
        try:
            return fn(*a)
        except Exception as e:   # noqa
            import traceback
            ck.hit("derived-cap-operation-raised")
            ck.violation("derivation-raises", "%s: %s: %s" % (label, type(e).__name__, str(e)[:160]),
                         dict(wit, traceback=traceback.format_exc()[-600:]))
            return None

    def write_uri_of(n):
        f = getattr(n, "get_write_uri", None)
        return f() if f else None

    def flag(n, name, default):
        f = getattr(n, name, None)
        if f is None:
            return default
        try:
            return f()
        except AssertionError:      # UnknownNode.is_readonly()/is_mutable() refuse to answer
            return default

    # ------------------------------------------------------------------ (A)
    def verifier_fixpoint(v, v_s):
        """verify-cap-of-a-verify-cap is outside the statement (write->read->verify): observed, never judged."""
        for meth in ("get_verify_cap", "get_readonly"):
            try:
                ok = S(getattr(v, meth)()) == v_s
            except Exception:   # noqa
                ok = False
            if ok:
                ck.skip("verifier-of-verifier-consistent")
            else:
                ck.skip("verifier-of-verifier-inconsistent")
                ck.observe("%s.%s()-is-not-itself" % (type(v).__name__, meth))

    def chain_mutable(fam, wk, fp):
        wkind, rkind, vkind = (M.BY_NAME[x] for x in fam)
        rk = M.ssk_readkey(wk)
        si = M.ssk_si(rk)
        w_s, r_s, v_s = M.fmt(wkind, (wk, fp)), M.fmt(rkind, (rk, fp)), M.fmt(vkind, (si, fp))
        wit = {"family": fam[0], "writecap": show(w_s), "model_readcap": show(r_s), "model_verifycap": show(v_s)}
        def caps_part(route):
            w = M.build(uri, wkind, (wk, fp)) if route == "constructor" else uri.from_string(w_s)
            ck.mon("derivation-chain")
            if type(w).__name__ != wkind.cls or S(w) != w_s:
                ck.violation("derived-cap-wrong-kind", "%s of %r is %s %r" % (route, w_s, type(w).__name__, S(w)), wit)
                return
            r, v = w.get_readonly(), w.get_verify_cap()
            v2, r2 = r.get_verify_cap(), r.get_readonly()
            got = {"get_readonly": S(r), "get_verify_cap": S(v), "ro.get_verify_cap": S(v2), "ro.get_readonly": S(r2)}
            want = {"get_readonly": r_s, "get_verify_cap": v_s, "ro.get_verify_cap": v_s, "ro.get_readonly": r_s}
            verifier_fixpoint(v, v_s)
            for k_ in want:
                if got[k_] != want[k_]:
                    ck.violation(chain_key(got[k_]),
                                 "%s.%s() = %r; hash chain says %r" % (wkind.cls, k_, show(got[k_]), show(want[k_])),
                                 dict(wit, got={a: show(b) for a, b in got.items()}))
            # write->read->verify must be the very verify cap that write->verify gives, and every derived cap usable
            usable(v2, v, "%s.get_readonly().get_verify_cap()" % wkind.cls, wit)
            usable(v, v2, "%s.get_verify_cap()" % wkind.cls, wit)
            usable(r, r2, "%s.get_readonly()" % wkind.cls, wit)
            for obj, kind_ in ((r, rkind), (r2, rkind), (v, vkind), (v2, vkind)):
                if type(obj).__name__ != kind_.cls:
                    ck.violation("derived-cap-wrong-kind", "derived cap of %s is a %s, expected %s"
                                 % (wkind.cls, type(obj).__name__, kind_.cls), wit)
            sis = [x.get_storage_index() for x in (w, r, v, v2)]
            if any(x != si for x in sis):
                ck.violation("derivation-chain-mismatch", "storage index along the chain %r, hash chain says %r"
                             % ([x.hex() if x else x for x in sis], si.hex()), wit)
            # authority flags
            ck.mon("authority-flags")
            if w.is_readonly() or not w.is_mutable():
                ck.observe("writecap-reports-less-authority")
            for obj, nm_ in ((r, "readcap"), (r2, "readcap"), (v, "verifycap"), (v2, "verifycap")):
                if not obj.is_readonly():
                    ck.violation("derived-cap-claims-write-authority",
                                 "%s derived from %s reports is_readonly()=False" % (nm_, wkind.cls), wit)
            # secrets
            ck.mon("secret-search")
            for obj, nm_, secrets in ((r, "readcap", [("writekey", wk)]), (r2, "readcap", [("writekey", wk)]),
                                      (v, "verifycap", [("writekey", wk), ("readkey", rk)]),
                                      (v2, "verifycap", [("writekey", wk), ("readkey", rk)])):
                inner = obj.get_filenode_cap() if hasattr(obj, "get_filenode_cap") else None
                texts = texts_of(obj, inner)
                for sname, sec in secrets:
                    if any(leaks(sec, t) or M.b32enc(sec[:5]) in t for t in texts):
                        ck.violation("derived-cap-leaks-secret", "%s derived from %s carries the %s"
                                     % (nm_, wkind.cls, sname), dict(wit, derived=show(S(obj))))
                    for o2 in (obj, inner):
                        if o2 is None:
                            continue
                        for attr in ("writekey", "readkey", "key"):
                            if getattr(o2, attr, None) == sec:
                                ck.violation("derived-cap-leaks-secret", "%s derived from %s has public attribute .%s = the %s"
                                             % (nm_, wkind.cls, attr, sname), wit)
        for route in ("constructor", "parser"):
            guarded("%s cap chain (%s)" % (fam[0], route), wit, caps_part, route)
            ck.case("chain-" + fam[0], key=("A", route, w_s), sample={"write": show(w_s), "read": show(r_s), "verify": show(v_s)})

        # nodes
        def node_part(nm):
            ck.mon("node-chain")
            n = nm.create_from_cap(w_s)
            keep.append(n)
            exp = "DirectoryNode" if wkind.is_dir else "MutableFileNode"
            if type(n).__name__ != exp:
                ck.violation("derived-cap-wrong-kind", "node for %r is %s" % (w_s, type(n).__name__), wit)
                return
            obs = {"uri": n.get_uri(), "write_uri": n.get_write_uri(), "readonly_uri": n.get_readonly_uri(),
                   "verify": S(n.get_verify_cap()), "readcap": S(n.get_readcap()), "cap": S(n.get_cap()),
                   "si": n.get_storage_index()}
            wantn = {"uri": w_s, "write_uri": w_s, "readonly_uri": r_s, "verify": v_s, "readcap": r_s, "cap": w_s, "si": si}
            for k_ in wantn:
                if obs[k_] != wantn[k_]:
                    ck.violation(chain_key(obs[k_]), "write node .%s = %r; hash chain says %r"
                                 % (k_, show(obs[k_]), show(wantn[k_])), wit)
            nr = nm.create_from_cap(r_s)
            keep.append(nr)
            ros = [("node-from-readcap", nr)]
            if hasattr(n, "get_readonly"):
                ros.append(("node.get_readonly()", n.get_readonly()))
            ros.append(("node-from-get_readonly_uri", nm.create_from_cap(None, n.get_readonly_uri())))
            for label, x in ros:
                ck.mon("authority-flags")
                if type(x).__name__ != exp:
                    ck.violation("derived-cap-wrong-kind", "%s is %s" % (label, type(x).__name__), wit)
                    continue
                if (not x.is_readonly()) or x.get_write_uri() is not None:
                    ck.violation("derived-node-claims-write-authority",
                                 "%s: is_readonly()=%r get_write_uri()=%r" % (label, x.is_readonly(), show(x.get_write_uri())), wit)
                obs = {"uri": x.get_uri(), "readonly_uri": x.get_readonly_uri(), "verify": S(x.get_verify_cap()),
                       "cap": S(x.get_cap()), "si": x.get_storage_index()}
                wantr = {"uri": r_s, "readonly_uri": r_s, "verify": v_s, "cap": r_s, "si": si}
                for k_ in wantr:
                    if obs[k_] != wantr[k_]:
                        ck.violation(chain_key(obs[k_]), "%s .%s = %r; hash chain says %r"
                                     % (label, k_, show(obs[k_]), show(wantr[k_])), wit)
                usable(x.get_verify_cap(), n.get_verify_cap(), "%s .get_verify_cap()" % label, wit)
                texts = [x.get_uri(), x.get_readonly_uri()] + texts_of(x.get_verify_cap())
                try:
                    texts.append(repr(x).encode("utf-8", "replace"))
                except Exception:   # noqa
                    ck.hit("derived-cap-operation-raised")
                ck.mon("secret-search")
                if any(leaks(wk, t) for t in texts if isinstance(t, bytes)):
                    ck.violation("derived-cap-leaks-secret", "%s carries the writekey" % label, wit)
                gw = getattr(x, "get_writekey", None)
                if gw is not None and gw() is not None:
                    ck.violation("derived-cap-leaks-secret", "%s.get_writekey() is not None" % label, wit)
        for nm in (shared, mk()):
            guarded("%s node chain" % fam[0], wit, node_part, nm)
            ck.case("node-chain-" + fam[0], key=("An", w_s, nm is shared))
        return w_s, r_s, v_s

    def chain_chk(fam, key, ueb, k, n_, size):
        ckind, vkind = (M.BY_NAME[x] for x in fam)
        si = M.chk_si(key)
        c_s, v_s = M.fmt(ckind, (key, ueb, k, n_, size)), M.fmt(vkind, (si, ueb, k, n_, size))
        wit = {"family": fam[0], "readcap": show(c_s), "model_verifycap": show(v_s)}
        def caps_part(route):
            c = M.build(uri, ckind, (key, ueb, k, n_, size)) if route == "constructor" else uri.from_string(c_s)
            ck.mon("derivation-chain")
            if type(c).__name__ != ckind.cls or S(c) != c_s:
                ck.violation("derived-cap-wrong-kind", "%s of %r is %s" % (route, c_s, type(c).__name__), wit)
                return
            v, r = c.get_verify_cap(), c.get_readonly()
            verifier_fixpoint(v, v_s)
            if S(r) != c_s or S(v) != v_s:
                ck.violation(chain_key(S(v)) if S(r) == c_s else chain_key(S(r)),
                             "%s: get_readonly()=%r get_verify_cap()=%r; hash chain says %r"
                             % (ckind.cls, show(S(r)), show(S(v)), show(v_s)), wit)
            usable(v, r.get_verify_cap(), "%s.get_verify_cap()" % ckind.cls, wit)
            usable(r, c, "%s.get_readonly()" % ckind.cls, wit)
            if type(v).__name__ != vkind.cls:
                ck.violation("derived-cap-wrong-kind", "verify cap of %s is %s" % (ckind.cls, type(v).__name__), wit)
            if c.get_storage_index() != si or v.get_storage_index() != si:
                ck.violation("derivation-chain-mismatch", "storage index differs along the CHK chain", wit)
            ck.mon("authority-flags")
            for obj in (c, v):
                if not obj.is_readonly() or obj.is_mutable():
                    ck.violation("derived-cap-claims-write-authority", "%s reports readonly=%r mutable=%r"
                                 % (type(obj).__name__, obj.is_readonly(), obj.is_mutable()), wit)
            ck.mon("secret-search")
            inner = v.get_filenode_cap() if hasattr(v, "get_filenode_cap") else None
            texts = texts_of(v, inner)
            if any(leaks(key, t) for t in texts) or any(getattr(o, "key", None) == key for o in (v, inner) if o is not None):
                ck.violation("derived-cap-leaks-secret", "verify cap of %s carries the read key" % ckind.cls,
                             dict(wit, derived=show(S(v))))
        for route in ("constructor", "parser"):
            guarded("%s cap chain (%s)" % (fam[0], route), wit, caps_part, route)
            ck.case("chain-" + fam[0], key=("A", route, c_s))

        def node_part(nm):
            ck.mon("node-chain")
            n = nm.create_from_cap(c_s)
            exp = "DirectoryNode" if ckind.is_dir else "ImmutableFileNode"
            if type(n).__name__ != exp:
                ck.violation("derived-cap-wrong-kind", "node for %r is %s" % (c_s, type(n).__name__), wit)
                return
            if (not n.is_readonly()) or n.is_mutable() or n.get_write_uri() is not None:
                ck.violation("derived-node-claims-write-authority", "immutable node claims authority", wit)
            if (n.get_uri() != c_s or n.get_readonly_uri() != c_s or S(n.get_verify_cap()) != v_s
                    or n.get_storage_index() != si or S(n.get_readcap()) != c_s):
                ck.violation(chain_key(S(n.get_verify_cap())),
                             "immutable node: uri=%r ro=%r verify=%r; hash chain says %r / %r"
                             % (show(n.get_uri()), show(n.get_readonly_uri()), show(S(n.get_verify_cap())), show(c_s), show(v_s)), wit)
            usable(n.get_verify_cap(), n.get_readcap().get_verify_cap(), "immutable node .get_verify_cap()", wit)
            nv = nm.create_from_cap(v_s)
            if write_uri_of(nv) is not None or flag(nv, "is_mutable", False):
                ck.violation("derived-node-claims-write-authority", "node from verify cap claims authority", wit)
            gv = getattr(nv, "get_verify_cap", None)
            if gv is not None and gv() is not None and S(gv()) != v_s:
                ck.violation(chain_key(S(gv())), "verifier node verify cap %r" % (show(S(gv())),), wit)
        for nm in (shared, mk()):
            guarded("%s node chain" % fam[0], wit, node_part, nm)
            ck.case("node-chain-" + fam[0], key=("An", c_s, nm is shared))
        return c_s, v_s

    nA = 40 if ck.tier == "quick" else 400
    instances = {k.name: [] for k in M.KINDS}   # canonical strings per kind, for part B
    chains_m, chains_c = [], []                 # (family, secrets, model strings) for the wrapper / directory parts
    idx = 0
    for i in range(nA):
        idx += 1
        if not ck.mine(idx) and i >= 2:
            continue
        if ck.out_of_time():
            break
        for fam in MUTABLE_FAMILIES:
            wk_, fp_ = rsecret(rng, 16), rsecret(rng, 32)
            w_s, r_s, v_s = chain_mutable(fam, wk_, fp_)
            chains_m.append((fam, wk_, w_s, r_s, v_s, M.ssk_si(M.ssk_readkey(wk_))))
            for name, s in zip(fam, (w_s, r_s, v_s)):
                instances[name].append(s)
        for fam in CHK_FAMILIES:
            key_ = rsecret(rng, 16)
            c_s, v_s = chain_chk(fam, key_, rsecret(rng, 32), M.rand_int(rng), M.rand_int(rng), M.rand_int(rng))
            chains_c.append((fam, key_, c_s, v_s, M.chk_si(key_)))
            instances[fam[0]].append(c_s)
            instances[fam[1]].append(v_s)
        for name in LIT_KINDS:
            kind = M.BY_NAME[name]
            data = M.rand_fields(rng, kind)[0]
            s = M.fmt(kind, (data,))

            def lit_part():
                c = M.build(uri, kind, (data,))
                ck.mon("derivation-chain")
                if S(c) != s or S(c.get_readonly()) != s or c.get_verify_cap() is not None \
                        or not c.is_readonly() or c.is_mutable():
                    ck.violation("derivation-chain-mismatch", "LIT cap %r: readonly=%r verify=%r" %
                                 (show(s), show(S(c.get_readonly())), c.get_verify_cap()), {"cap": show(s)})
                n = shared.create_from_cap(s)
                if flag(n, "is_unknown", False) or type(n).__name__ not in ("LiteralFileNode", "DirectoryNode"):
                    ck.violation("derived-cap-wrong-kind", "node for %r is %s" % (show(s), type(n).__name__), {"cap": show(s)})
                    return
                if (not n.is_readonly()) or n.is_mutable() or n.get_write_uri() is not None or n.get_uri() != s \
                        or n.get_readonly_uri() != s or n.get_verify_cap() is not None:
                    ck.violation("derived-node-claims-write-authority", "LIT node for %r misreports" % (show(s),), {"cap": show(s)})
            guarded("%s chain" % name, {"cap": show(s)}, lit_part)
            instances[name].append(s)
            ck.case("chain-" + name, key=("A", s))

    # ------------------------------------------------------------------ (B)
    def expected_known(kind, prefix, deep):
        """Truth-table cell: must (kind x prefix x context) still be the same kind?  Yes exactly when the
        prefix/context alleges nothing the kind does not already guarantee (None = malformed prefix)."""
        if prefix not in (b"", b"ro.", b"imm."):
            return None
        readonly = kind.level != "w"
        immutable = (not kind.mutable) or kind.level == "v"
        if deep or prefix == b"imm.":
            return readonly and immutable
        if prefix == b"ro.":
            return readonly
        return True

    def judge_cell(kind, s, prefix, deep, cap, wit):
        """(read-only kind x ro.) / (immutable kind x imm./deep) -> same kind, same string, read-only."""
        exp = expected_known(kind, prefix, deep)
        if not exp:
            return
        ck.mon("truth-table-consistent-cell")
        ck.hit("consistent-cell")
        if type(cap).__name__ != kind.cls or cap.to_string() != s:
            ck.violation("consistent-prefix-rejected",
                         "from_string(%r, deep_immutable=%r) -> %s; a %s already satisfies the alleged constraint and "
                         "must stay a %s" % (wit["cap"], deep, type(cap).__name__, kind.name, kind.cls), wit)

    def judge_cell_node(kind, s, prefix, deep, n, slot_args, nm, wit):
        exp = expected_known(kind, prefix, deep)
        if not exp:
            return
        ck.mon("truth-table-consistent-cell")
        # reference: the same slot filled with the unprefixed string in a plain context
        ref = nm.create_from_cap(*[None if a is None else a[len(prefix):] for a in slot_args])
        keep.append(ref)
        if flag(ref, "is_unknown", False):
            ck.skip("kind-has-no-node-class")         # verify caps of mutable files/dirs
            return
        ck.hit("consistent-cell-node")
        same = type(n) is type(ref) and not flag(n, "is_unknown", False)
        if same and hasattr(ref, "get_uri"):
            same = n.get_uri() == ref.get_uri()
        if not same:
            ck.violation("consistent-prefix-rejected",
                         "create_from_cap(%s) -> %s; without the (already satisfied) prefix/context it is a %s"
                         % (wit["call"], type(n).__name__, type(ref).__name__), wit)

    def judge_cap(cap, restricted_ro, restricted_imm, wit):
        ck.mon("truth-table-cap")
        if type(cap).__name__ == "UnknownURI":
            ck.hit("alleged-prefix-makes-unknown" if (restricted_ro or restricted_imm) else "unknown-plain")
            return
        if restricted_imm:
            ck.hit("imm-context-known-cap")
            if cap.is_mutable() or not cap.is_readonly():
                ck.violation("alleged-immutable-parsed-as-mutable",
                             "from_string(%r, deep_immutable=%r) -> %s with is_mutable()=%r is_readonly()=%r"
                             % (wit["cap"], wit["deep_immutable"], type(cap).__name__, cap.is_mutable(), cap.is_readonly()), wit)
        elif restricted_ro:
            ck.hit("ro-context-known-cap")
            if not cap.is_readonly():
                ck.violation("alleged-readonly-parsed-as-writeable",
                             "from_string(%r) -> %s with is_readonly()=False" % (wit["cap"], type(cap).__name__), wit)

    def judge_node(n, restricted_ro, restricted_imm, wit):
        ck.mon("truth-table-node")
        wu = write_uri_of(n)
        unknown = flag(n, "is_unknown", False)
        if unknown:
            ck.hit("node-unknown")
            if wu is not None and (restricted_ro or restricted_imm):
                if wit["deep_immutable"] or wu != wit.get("rw_given"):
                    ck.violation("unknown-node-exposes-write-uri",
                                 "UnknownNode for alleged/deep-immutable %r has get_write_uri()=%r" % (wit["cap"], show(wu)), wit)
                else:
                    # both slots given, rw string kept verbatim WITH its alleged prefix: the marker still
                    # constrains every later parse; the statement does not forbid this -> not judged
                    ck.skip("prefixed-rw-cap-kept-verbatim-in-rw-slot")
                    ck.observe("unknown-node-write-uri-carries-alleged-prefix")
            ru = n.get_readonly_uri()
            if restricted_imm and wit["deep_immutable"] and ru is not None and not ru.startswith(b"imm."):
                ck.violation("unknown-node-not-imm-in-immutable-context", "ro_uri %r in deep-immutable context" % (show(ru),), wit)
            return
        ck.hit("node-known")
        ro = flag(n, "is_readonly", True)
        mut = flag(n, "is_mutable", False)
        if restricted_imm:
            if mut or not ro or wu is not None:
                ck.violation("alleged-immutable-parsed-as-mutable",
                             "create_from_cap(%s) -> %s mutable=%r readonly=%r write_uri=%r"
                             % (wit["call"], type(n).__name__, mut, ro, show(wu)), wit)
            aid = getattr(n, "is_allowed_in_immutable_directory", None)
            if aid is not None and not aid():
                ck.violation("alleged-immutable-parsed-as-mutable", "node not allowed in immutable directory", wit)
        elif restricted_ro:
            if not ro or wu is not None:
                ck.violation("alleged-readonly-parsed-as-writeable",
                             "create_from_cap(%s) -> %s readonly=%r write_uri=%r" % (wit["call"], type(n).__name__, ro, show(wu)), wit)

    def ro_version(kind, s):
        """model read-only sibling string of a canonical write cap string (for the 'both' slot)."""
        if kind.level != "w":
            return s
        fam = [f for f in MUTABLE_FAMILIES if f[0] == kind.name][0]
        body = s[len(kind.prefix):].split(b":")
        wk = M.b32dec_lenient(body[0])
        fp = M.b32dec_lenient(body[1])
        return M.fmt(M.BY_NAME[fam[1]], (M.ssk_readkey(wk), fp))

    per_kind = 6 if ck.tier == "quick" else 40
    table_cells = 0
    for kind in M.KINDS:
        pool = instances[kind.name][:per_kind]
        for j, s in enumerate(pool):
            for prefix in PREFIXES:
                for deep in (False, True):
                    idx += 1
                    if not ck.mine(idx) and j >= 1:
                        continue
                    P = prefix + s
                    restricted_imm = deep or prefix.startswith(b"imm.")
                    restricted_ro = prefix.startswith(b"ro.")
                    wit = {"kind": kind.name, "prefix": show(prefix), "deep_immutable": deep, "cap": show(P)}
                    for inp in (P, P.decode("ascii")):
                        cap = guarded("uri.from_string(%r, deep_immutable=%r)" % (show(P), deep), wit,
                                      lambda: uri.from_string(inp, deep_immutable=deep))
                        if cap is None:
                            continue
                        judge_cap(cap, restricted_ro, restricted_imm, wit)
                        judge_cell(kind, s, prefix, deep, cap, wit)
                    if cap is not None and len(prefix) > 4 and type(cap).__name__ != "UnknownURI":
                        ck.violation("doubled-prefix-parsed-as-known", "from_string(%r) -> %s" % (show(P), type(cap).__name__), wit)
                    ck.case("table-cap", key=("Bc", P, deep))
                    P2 = prefix + ro_version(kind, s)
                    for slot, args in (("rw", (P, None)), ("ro", (None, P)), ("both", (P, P2))):
                        for nm in ((shared, mk()) if j == 0 else (shared,)):
                            w2 = dict(wit, slot=slot, rw_given=args[0],
                                      call="%r, %r, deep_immutable=%r" % (show(args[0]), show(args[1]), deep))
                            try:
                                n = nm.create_from_cap(args[0], args[1], deep_immutable=deep, name="child")
                            except Exception as e:   # noqa
                                ck.observe("create_from_cap-raised-" + type(e).__name__)
                                continue
                            keep.append(n)
                            judge_node(n, restricted_ro, restricted_imm, w2)
                            judge_cell_node(kind, s, prefix, deep, n, args, nm, w2)
                            if restricted_ro or restricted_imm:
                                ck.hit("restricted-context-node")
                            ck.case("table-node", key=("Bn", P, deep, slot, nm is shared),
                                    sample={"call": w2["call"], "node": type(n).__name__,
                                            "write_uri": show(write_uri_of(n))})
                    table_cells += 1
    ck.extra["truth_table_cells_kind_prefix_deep"] = table_cells
    ck.extra["truth_table_product"] = "%d kinds x %d prefixes x 2 contexts x 3 slots" % (len(M.KINDS), len(PREFIXES))

    # ------------------------------------------------------------------ (C) unknown caps
    def unknown_variants(tag):
        base = b"x-tahoe-future:" + M.b32enc(rsecret(rng, 10)) + tag
        return [None, b"", base, b"ro." + base, b"imm." + base,
                b"x-tahoe-future-test-writeable:" + tag, b"ro.x-tahoe-future-test-writeable:" + tag,
                b"imm.x-tahoe-future-test-writeable:" + tag,
                b"x-tahoe-future-test-mutable:" + tag, b"ro.x-tahoe-future-test-mutable:" + tag,
                b"imm.x-tahoe-future-test-mutable:" + tag]

    def alleged(x):
        if not x:
            return ""
        if x.startswith(b"imm."):
            return "imm"
        if x.startswith(b"ro."):
            return "ro"
        return ""

    def judge_unknown(n, rw, ro, deep, wit):
        ck.mon("unknown-node-oracle")
        wu, ru = n.get_write_uri(), n.get_readonly_uri()
        if n.error is not None:
            ck.hit("unknown-node-opaque")
        if wu is not None:
            if deep or wu != rw or not ro:
                # immutable context, or a write uri that is not the given string (prefix stripped / invented),
                # or a single prefixed cap promoted to the write slot
                ck.violation("unknown-node-exposes-write-uri",
                             "UnknownNode(%r, %r, deep_immutable=%r).get_write_uri() = %r" % (show(rw), show(ro), deep, show(wu)), wit)
            elif alleged(rw):
                ck.skip("prefixed-rw-cap-kept-verbatim-in-rw-slot")
                ck.observe("unknown-node-write-uri-carries-alleged-prefix")
        if ru is not None:
            need = "imm" if (deep or alleged(ro) == "imm" or (not ro and alleged(rw) == "imm")) else "ro"
            have = alleged(ru)
            if have == "" or (need == "imm" and have != "imm"):
                ck.violation("unknown-node-weakens-alleged-prefix",
                             "UnknownNode(%r, %r, deep_immutable=%r).get_readonly_uri() = %r (needs %s. prefix)"
                             % (show(rw), show(ro), deep, show(ru), need), wit)
        # an UnknownNode that survived must never be reported as alleged-immutable while exposing a write uri
        if n.is_alleged_immutable() and wu is not None:
            ck.violation("unknown-node-exposes-write-uri", "alleged-immutable node with write uri", wit)
        if deep and n.error is None and (wu is not None or not n.is_allowed_in_immutable_directory()):
            ck.violation("unknown-node-not-imm-in-immutable-context", "deep-immutable UnknownNode not immutable-safe", wit)
        # persistence: what a directory would store and later re-read
        if n.error is None and ru is not None:
            for dir_immutable in (False, True):
                if dir_immutable and not n.is_allowed_in_immutable_directory():
                    continue
                stored = strip_prefix_for_ro(ru, dir_immutable)
                n2 = shared.create_from_cap(None, stored, deep_immutable=dir_immutable, name="child")
                ck.mon("strip-prefix-reread")
                ck.hit("strip_prefix_for_ro")
                w2 = dict(wit, stored_ro_uri=show(stored), dir_immutable=dir_immutable)
                if write_uri_of(n2) is not None:
                    ck.violation("unknown-node-exposes-write-uri", "re-read child has a write uri", w2)
                if flag(n2, "is_unknown", False):
                    if n.is_alleged_immutable() and not n2.is_alleged_immutable():
                        ck.violation("imm-marker-lost-in-storage",
                                     "alleged-immutable unknown child %r stored as %r re-reads as not alleged-immutable (%r)"
                                     % (show(ru), show(stored), show(n2.get_readonly_uri())), w2)
                    if n2.error is None and alleged(n2.get_readonly_uri()) == "":
                        ck.violation("unknown-node-weakens-alleged-prefix", "re-read child ro_uri unprefixed", w2)

    nC = 4 if ck.tier == "quick" else 24
    for rep in range(nC):
        vs_rw = unknown_variants(b"w%d" % rep)
        vs_ro = unknown_variants(b"r%d" % rep)
        for rw in vs_rw:
            for ro in vs_ro:
                for deep in (False, True):
                    idx += 1
                    if not ck.mine(idx) and rep >= 1:
                        continue
                    wit = {"rw_slot": show(rw), "ro_slot": show(ro), "deep_immutable": deep}
                    n = guarded("UnknownNode(%r, %r, deep_immutable=%r)" % (show(rw), show(ro), deep), wit,
                                lambda: UnknownNode(rw, ro, deep_immutable=deep, name="child"))
                    if n is None:
                        continue
                    guarded("UnknownNode accessors", wit, judge_unknown, n, rw, ro, deep, dict(wit, via="UnknownNode"))
                    ck.case("unknown-node", key=("C", rw, ro, deep), sample={"rw": show(rw), "ro": show(ro), "deep": deep,
                                                                           "write_uri": show(n.get_write_uri()),
                                                                           "readonly_uri": show(n.get_readonly_uri())})
                    n = guarded("create_from_cap(%r, %r, deep_immutable=%r)" % (show(rw), show(ro), deep), wit,
                                lambda: shared.create_from_cap(rw, ro, deep_immutable=deep, name="child"))
                    if n is None:
                        continue
                    if flag(n, "is_unknown", False):
                        guarded("UnknownNode accessors", wit, judge_unknown, n, rw, ro, deep, dict(wit, via="NodeMaker"))
                    else:
                        ck.violation("derived-cap-wrong-kind", "NodeMaker made a %s from unknown caps" % type(n).__name__, wit)
                    ck.case("unknown-node-nodemaker", key=("Cn", rw, ro, deep))

    # ------------------------------------------------------------------ (D) directories: pack / unpack
    def dir_part(rep, dfam):
        if True:
            dwk, dfp = rsecret(rng, 16), rsecret(rng, 32)
            dw_s = M.fmt(M.BY_NAME[dfam[0]], (dwk, dfp))
            dr_s = M.fmt(M.BY_NAME[dfam[1]], (M.ssk_readkey(dwk), dfp))
            nm = mk()
            dn_w, dn_r = nm.create_from_cap(dw_s), nm.create_from_cap(dr_s)
            dn_imm = nm.create_from_cap(M.fmt(M.BY_NAME["DIR2-LIT"], (b"",)))
            children, secrets = {}, {}
            for kind in M.KINDS:
                s = rng.choice(instances[kind.name])
                for prefix in (b"", b"ro.", b"imm."):
                    for slot in ("rw", "ro"):
                        a = (prefix + s, None) if slot == "rw" else (None, prefix + s)
                        try:
                            child = nm.create_from_cap(a[0], a[1], name="c")
                        except Exception:   # noqa
                            continue
                        if getattr(child, "error", None) is not None or not hasattr(child, "get_readonly_uri"):
                            continue
                        nme = "%s|%s|%s" % (kind.name, prefix.decode(), slot)
                        children[nme] = (child, {})
                        secrets[nme] = (kind, prefix, s)
            childkeys = {}
            for nme, (kind, prefix, s) in secrets.items():
                if kind.level == "w":
                    childkeys[nme] = M.b32dec_lenient(s[len(kind.prefix):].split(b":")[0])
            # children handed out by a client with an access.blacklist (ProhibitedNode wrappers)
            for (fam, wk_c, w_c, r_c, v_c, si_c) in chains_m[4 * (rep % 3):4 * (rep % 3) + 4]:
                child = nm_black.create_from_cap(w_c)
                if type(child).__name__ == "ProhibitedNode":
                    ck.hit("prohibited-child-packed")
                    children["prohibited|" + fam[0]] = (child, {})
                    childkeys["prohibited|" + fam[0]] = wk_c
            for v_i, rw in enumerate(unknown_variants(b"d%d" % rep)):
                for ro in unknown_variants(b"e%d" % rep)[:5]:
                    child = UnknownNode(rw, ro, name="c")
                    if child.error is None:
                        children["unk|%d|%s" % (v_i, show(ro))] = (child, {})
            data = pack_children(children, dwk)
            ck.hit("pack_children")
            # (1) read-only view: no child may be writeable
            for label, dn, imm in (("readonly-dir", dn_r, False), ("writeable-dir", dn_w, False)):
                kids = dn._unpack_contents(data)
                ck.hit("unpack:" + label)
                for nme, (child, _md) in kids.items():
                    ck.mon("dir-reread")
                    orig = children[nme][0]
                    wu = write_uri_of(child)
                    wit = {"dir": label, "child": nme, "orig_write_uri": show(write_uri_of(orig)),
                           "orig_readonly_uri": show(orig.get_readonly_uri()), "write_uri": show(wu)}
                    if label == "readonly-dir":
                        if wu is not None or (not flag(child, "is_unknown", False) and not flag(child, "is_readonly", True)):
                            ck.violation("readonly-dir-yields-writeable-child", "child %s read through %s has write_uri %r"
                                         % (nme, dfam[1], show(wu)), wit)
                        if leaks(dwk, child.get_readonly_uri() or b""):
                            ck.violation("derived-cap-leaks-secret", "child uri carries the directory writekey", wit)
                        ckey = childkeys.get(nme)
                        if ckey and any(leaks(ckey, t) for t in (child.get_uri(), child.get_readonly_uri()) if t):
                            ck.violation("derived-cap-leaks-secret",
                                         "child %s read through the read-only directory carries the child's writekey (%r)"
                                         % (nme, show(child.get_uri())), wit)
                    else:
                        if wu is not None and wu != write_uri_of(orig):
                            ck.violation("readonly-dir-yields-writeable-child", "writeable re-read invents write uri %r" % (show(wu),), wit)
                    if flag(orig, "is_unknown", False) and orig.is_alleged_immutable() and flag(child, "is_unknown", False) \
                            and not child.is_alleged_immutable():
                        ck.violation("imm-marker-lost-in-storage", "alleged-immutable unknown child %s lost its imm. marker (%r -> %r)"
                                     % (nme, show(orig.get_readonly_uri()), show(child.get_readonly_uri())), wit)
                    ck.case("dir-child", key=("D", label, nme, data[:0], rep, dfam[0]))
            # (2) hostile: the same (mutable) listing without rw caps, read by an immutable directory node
            data_imm = pack_children(children, None)
            try:
                kids = dn_imm._unpack_contents(data_imm)
            except (ValueError, CapConstraintError):
                kids = {}
            ck.hit("unpack:immutable-dir")
            for nme, (child, _md) in kids.items():
                ck.mon("dir-reread")
                wit = {"dir": "immutable-dir", "child": nme, "readonly_uri": show(child.get_readonly_uri())}
                if flag(child, "is_unknown", False):
                    if write_uri_of(child) is not None or not child.is_alleged_immutable():
                        ck.violation("alleged-immutable-parsed-as-mutable", "unknown child %s of immutable dir not alleged-immutable" % nme, wit)
                elif flag(child, "is_mutable", False) or not flag(child, "is_readonly", True) or write_uri_of(child) is not None:
                    ck.violation("alleged-immutable-parsed-as-mutable", "child %s of immutable dir is mutable/writeable (%s)"
                                 % (nme, type(child).__name__), wit)
                ck.case("dir-child", key=("D", "imm", nme, rep, dfam[0]))


    # ------------------------------------------------------------------ (E) node wrappers (access.blacklist)
    def wrapper_mutable(rec):
        fam, wk, w_s, r_s, v_s, si = rec
        rk = M.ssk_readkey(wk)
        wit = {"family": fam[0], "writecap": show(w_s), "model_readcap": show(r_s), "model_verifycap": show(v_s)}
        n = nm_black.create_from_cap(w_s)
        keep.append(n)
        if type(n).__name__ != "ProhibitedNode":
            ck.observe("blacklist-did-not-wrap")
            return
        ck.hit("prohibited-node")
        views = [("ProhibitedNode(write node)", n, False),
                 ("ProhibitedNode(node from read cap)", nm_black.create_from_cap(r_s), True),
                 ("ProhibitedNode(node from ro.+read cap in ro slot)", nm_black.create_from_cap(None, b"ro." + r_s), True)]
        for label, x, is_ro in views:
            ck.mon("wrapper-chain")
            keep.append(x)
            obs = {"get_readonly_uri": x.get_readonly_uri(), "get_readcap": S(x.get_readcap()),
                   "get_verify_cap": S(x.get_verify_cap()), "get_storage_index": x.get_storage_index()}
            want = {"get_readonly_uri": r_s, "get_readcap": r_s, "get_verify_cap": v_s, "get_storage_index": si}
            for k_ in want:
                if obs[k_] != want[k_]:
                    ck.violation(chain_key(obs[k_]), "%s.%s() = %r; hash chain says %r"
                                 % (label, k_, show(obs[k_]), show(want[k_])), wit)
            ck.mon("secret-search")
            for k_ in ("get_readonly_uri", "get_readcap", "get_verify_cap"):
                t = obs[k_]
                if isinstance(t, bytes) and (leaks(wk, t) or (k_ == "get_verify_cap" and leaks(rk, t))):
                    ck.violation("derived-cap-leaks-secret", "%s.%s() carries the %s: %r"
                                 % (label, k_, "writekey" if leaks(wk, t) else "readkey", show(t)), wit)
            if is_ro:
                ck.mon("authority-flags")
                if x.get_write_uri() is not None or not x.is_readonly() or x.get_uri() != r_s or S(x.get_cap()) != r_s:
                    ck.violation("derived-node-claims-write-authority",
                                 "%s: write_uri=%r readonly=%r uri=%r" % (label, show(x.get_write_uri()), x.is_readonly(),
                                                                         show(x.get_uri())), wit)
            usable(x.get_verify_cap(), n.get_verify_cap(), label + ".get_verify_cap()", wit)
            ck.case("wrapper-" + fam[0], key=("E", label, w_s))

    def wrapper_chk(rec):
        fam, key, c_s, v_s, si = rec
        wit = {"family": fam[0], "readcap": show(c_s), "model_verifycap": show(v_s)}
        x = nm_black.create_from_cap(c_s)
        if type(x).__name__ != "ProhibitedNode":
            ck.observe("blacklist-did-not-wrap")
            return
        ck.hit("prohibited-node")
        ck.mon("wrapper-chain")
        obs = {"get_readonly_uri": x.get_readonly_uri(), "get_readcap": S(x.get_readcap()),
               "get_verify_cap": S(x.get_verify_cap()), "get_storage_index": x.get_storage_index()}
        want = {"get_readonly_uri": c_s, "get_readcap": c_s, "get_verify_cap": v_s, "get_storage_index": si}
        for k_ in want:
            if obs[k_] != want[k_]:
                ck.violation(chain_key(obs[k_]), "ProhibitedNode(%s).%s() = %r; hash chain says %r"
                             % (fam[0], k_, show(obs[k_]), show(want[k_])), wit)
        if isinstance(obs["get_verify_cap"], bytes) and leaks(key, obs["get_verify_cap"]):
            ck.violation("derived-cap-leaks-secret", "ProhibitedNode(%s).get_verify_cap() carries the read key" % fam[0], wit)
        if x.get_write_uri() is not None or not x.is_readonly() or x.is_mutable():
            ck.violation("derived-node-claims-write-authority", "ProhibitedNode(%s) claims authority" % fam[0], wit)
        ck.case("wrapper-" + fam[0], key=("E", c_s))

    # ------------------------------------------------------------------ (F) no-write links: histories of edits
    from twisted.internet import defer
    from twisted.python.failure import Failure

    def fired(d):
        out = []
        d.addBoth(out.append)
        if not out:
            raise RuntimeError("directory operation did not complete synchronously on the in-memory backing file")
        return out[0]

    def memdir(cap_s, state):
        """A real DirectoryNode (from a fresh NodeMaker = another client) whose backing mutable file keeps its
        bytes in `state` instead of on a grid: only MutableFileNode.modify/download_best_version are replaced."""
        dn = mk().create_from_cap(cap_s)
        be = dn._node

        def modify(modifier, backoffer=None):
            def run():
                new = modifier(state["data"], None, True)
                if new is not None:
                    state["data"] = new
            return defer.execute(run)
        be.modify = modify
        be.download_best_version = lambda: defer.succeed(state["data"])
        return dn

    W_KINDS = ("SSK", "MDMF", "DIR2", "DIR2-MDMF")

    def child_pool():
        pool = {}
        for kname in W_KINDS:
            recs = [r_ for r_ in chains_m if r_[0][0] == kname]
            pool[kname] = [(r_[2], r_[3], r_[1]) for r_ in recs]       # (write cap, read cap, writekey)
        return pool

    MD_VARIANTS = [None, {}, {"no-write": True}, {"no-write": False}, {"x": 1}, {"no-write": True, "x": 2}]

    def apply_op(dn, op):
        kind_ = op[0]
        if kind_ == "set_node":
            _k, name, (w, r, _wk), md, ov, as_ro = op
            child = dn._nodemaker.create_from_cap(None, r) if as_ro else dn._nodemaker.create_from_cap(w)
            return fired(dn.set_node(name, child, md, overwrite=ov))
        if kind_ == "set_nodes":
            _k, name, (w, r, _wk), md, ov, as_ro = op
            child = dn._nodemaker.create_from_cap(None, r) if as_ro else dn._nodemaker.create_from_cap(w)
            return fired(dn.set_nodes({name: (child, md)}, overwrite=ov))
        if kind_ == "set_uri":
            _k, name, (w, r, _wk), md, ov, as_ro = op
            return fired(dn.set_uri(name, None if as_ro else w, r, metadata=md, overwrite=ov))
        if kind_ == "set_children":
            _k, name, (w, r, _wk), md, ov, as_ro = op
            entry = (None if as_ro else w, r) if md is None else (None if as_ro else w, r, md)
            return fired(dn.set_children({name: entry}, overwrite=ov))
        if kind_ == "set_metadata_for":
            _k, name, md = op
            return fired(dn.set_metadata_for(name, md))
        if kind_ == "delete":
            return fired(dn.delete(op[1]))
        raise AssertionError(op)

    def describe(op):
        if op[0] in ("set_node", "set_nodes", "set_uri", "set_children"):
            return "%s(%s, %s, metadata=%r, overwrite=%r)" % (op[0], op[1], "read cap" if op[5] else show(op[2][0].split(b":")[1]) + " write cap",
                                                              op[3], op[4] if isinstance(op[4], bool) else "ONLY_FILES")
        return "%s(%s)" % (op[0], ", ".join(repr(x) for x in op[1:]))

    def history(parent_fam, ops, tag):
        dwk, dfp = rsecret(rng, 16), rsecret(rng, 32)
        dw_s = M.fmt(M.BY_NAME[parent_fam[0]], (dwk, dfp))
        dr_s = M.fmt(M.BY_NAME[parent_fam[1]], (M.ssk_readkey(dwk), dfp))
        state = {"data": b""}
        editor = memdir(dw_s, state)
        done = []
        targets = {}      # name -> writekey of the last child put there (for the leak search)
        for op in ops:
            res = apply_op(editor, op)
            done.append(describe(op) + (" -> refused: " + res.type.__name__ if isinstance(res, Failure) else ""))
            if isinstance(res, Failure):
                ck.hit("dir-op-refused")
                if not res.check(Exception) or res.type.__name__ not in (
                        "ExistingChildError", "NoSuchChildError", "MustBeDeepImmutableError", "MustBeReadonlyError",
                        "MustNotBeUnknownRWError", "ChildOfWrongTypeError", "KeyError"):
                    ck.violation("derivation-raises", "%s raised %s: %s" % (describe(op), res.type.__name__, res.getErrorMessage()[:120]),
                                 {"history": done})
            elif op[0] in ("set_node", "set_nodes", "set_uri", "set_children"):
                targets[op[1]] = op[2][2]
            elif op[0] == "delete":
                targets.pop(op[1], None)
            # --- the invariant, seen by two other clients after EVERY step
            listing_w = fired(memdir(dw_s, state).list())
            listing_r = fired(memdir(dr_s, state).list())
            wit = {"parent": parent_fam[0], "history": list(done)}
            if isinstance(listing_w, Failure) or isinstance(listing_r, Failure):
                f = listing_w if isinstance(listing_w, Failure) else listing_r
                ck.violation("derivation-raises", "listing failed: %s" % f.getErrorMessage()[:160], wit)
                return
            for name, (child, md) in listing_w.items():
                ck.mon("no-write-link-invariant")
                if md.get("no-write", False):
                    ck.hit("no-write-link")
                    wu = write_uri_of(child)
                    ro = flag(child, "is_unknown", False) or flag(child, "is_readonly", True)
                    if wu is not None or not ro:
                        ck.violation("no-write-link-holds-write-cap",
                                     "link %r has metadata no-write=true yet yields %s with get_write_uri()=%r is_readonly()=%r after: %s"
                                     % (name, type(child).__name__, show(wu), flag(child, "is_readonly", None), "; ".join(done)),
                                     dict(wit, link=name, write_uri=show(wu)))
                    ckey = targets.get(name)
                    if ckey and any(leaks(ckey, t) for t in (child.get_uri(), child.get_readonly_uri()) if t):
                        ck.violation("no-write-link-holds-write-cap", "no-write link %r carries the child's writekey" % name,
                                     dict(wit, link=name))
            for name, (child, md) in listing_r.items():
                ck.mon("dir-reread")
                if write_uri_of(child) is not None or not (flag(child, "is_unknown", False) or flag(child, "is_readonly", True)):
                    ck.violation("readonly-dir-yields-writeable-child", "after %s the read-only view of link %r is writeable"
                                 % ("; ".join(done), name), dict(wit, link=name))
                ckey = targets.get(name)
                if ckey and any(leaks(ckey, t) for t in (child.get_uri(), child.get_readonly_uri()) if t):
                    ck.violation("derived-cap-leaks-secret", "read-only view of link %r carries the child's writekey" % name,
                                 dict(wit, link=name))
        ck.case("no-write-history-" + tag, key=("F", parent_fam[0], tuple(done)),
                sample={"parent": parent_fam[0], "history": done})

    def run_histories():
        from allmydata.dirnode import ONLY_FILES
        pool = child_pool()
        parents = (MUTABLE_FAMILIES[2], MUTABLE_FAMILIES[3])
        n = 0
        # directed: a no-write link is created, then its target is replaced
        for parent_fam in parents:
            for ckind in W_KINDS:
                first, second = pool[ckind][0], pool[ckind][1]
                for md1 in ({"no-write": True}, {"no-write": True, "x": 1}):
                    for op2 in ("set_node", "set_uri", "set_children", "set_nodes"):
                        for md2 in MD_VARIANTS:
                            for ov in (True, False, ONLY_FILES):
                                n += 1
                                if not ck.mine(n) and n > 40 and md2 is not None:
                                    continue
                                if ck.tier == "quick" and n > 40 and md2 is not None and (n * 2654435761 + ck.seed) % 3:
                                    continue
                                if md2 is None and ov is True:
                                    ck.hit("no-write-link-retargeted-without-metadata")
                                ops = [("set_node", "link", first, md1, True, False), (op2, "link", second, md2, ov, False)]
                                guarded("no-write history", {"parent": parent_fam[0]}, history, parent_fam, ops, "directed")
                # no-write added afterwards, then retargeted
                first, second = pool[ckind][2], pool[ckind][3]
                for op2 in ("set_node", "set_uri", "set_children"):
                    ops = [("set_uri", "link", first, None, True, False), ("set_metadata_for", "link", {"no-write": True}),
                           (op2, "link", second, None, True, False), ("set_metadata_for", "link", {"y": 1}),
                           (op2, "link", first, {"no-write": True}, True, False), (op2, "link", second, None, True, False)]
                    guarded("no-write history", {"parent": parent_fam[0]}, history, parent_fam, ops, "directed")
        # random histories over two names
        nrand = 60 if ck.tier == "quick" else 600
        for i in range(nrand):
            if ck.out_of_time():
                break
            ops = []
            for _ in range(rng.randint(3, 8)):
                name = rng.choice(["a", "b"])
                r = rng.random()
                if r < .15:
                    ops.append(("set_metadata_for", name, rng.choice([m for m in MD_VARIANTS if m is not None])))
                elif r < .22:
                    ops.append(("delete", name))
                else:
                    ops.append((rng.choice(["set_node", "set_uri", "set_children", "set_nodes"]), name,
                                rng.choice(pool[rng.choice(W_KINDS)]), rng.choice(MD_VARIANTS),
                                rng.choice([True, True, False, ONLY_FILES]), rng.random() < .2))
            guarded("no-write history", {}, history, rng.choice(parents), ops, "random")


    # ------------------------------------------------------------------ (G) read-only views of write nodes WITH keys
    # A write node that created the file, or has written since it was opened, holds the RSA signing key (the write
    # key is H(signing key)).  Nothing derived from it for read-only use may carry the write key or the signing key:
    # judged through the accessors and through a bounded reflective scan of the derived object graph (the scan is
    # the oracle for "carries"; the attribute path is the witness).
    SCAN_MODULES = ("allmydata.mutable.filenode", "allmydata.dirnode", "allmydata.uri", "allmydata.immutable.",
                    "allmydata.unknown", "allmydata.blacklist")

    def scan(root, secrets, is_privkey, limit=6000, maxdepth=6):
        """-> [(secret name, attribute path)] for every place of the object graph below `root` that holds a secret.
        Only cap/node objects and plain containers are traversed (never the shared NodeMaker / broker / history)."""
        found, seen, stack = [], set(), [(root, "<derived>", 0)]
        while stack and len(seen) < limit:
            o, path, depth = stack.pop()
            if id(o) in seen or o is None or isinstance(o, (bool, int, float, str)):
                continue
            seen.add(id(o))
            for name, sec in secrets:
                if sec is None:
                    continue
                if o is sec:
                    found.append((name, path))
                elif isinstance(sec, bytes) and isinstance(o, (bytes, bytearray)) and sec in bytes(o):
                    found.append((name, path))
                elif not isinstance(sec, bytes) and is_privkey(o) and is_privkey(o) == is_privkey(sec):
                    found.append((name, path))
            if depth >= maxdepth:
                continue
            if isinstance(o, dict):
                for k_, v_ in list(o.items())[:200]:
                    stack.append((k_, path + ".<key>", depth + 1))
                    stack.append((v_, "%s[%r]" % (path, k_ if isinstance(k_, (str, int)) else "..."), depth + 1))
            elif isinstance(o, (list, tuple, set, frozenset)):
                for i_, v_ in enumerate(list(o)[:200]):
                    stack.append((v_, "%s[%d]" % (path, i_), depth + 1))
            elif hasattr(o, "__dict__") and type(o).__module__.startswith(SCAN_MODULES):
                for k_, v_ in vars(o).items():
                    stack.append((v_, path + "." + k_, depth + 1))
        return found

    def keyed_part(fmt):
        from vf.grid import VGrid, KEYPOOL
        from allmydata.interfaces import SDMF_VERSION, MDMF_VERSION
        from allmydata.mutable.publish import MutableData
        from allmydata.crypto import rsa
        version = {"SDMF": SDMF_VERSION, "MDMF": MDMF_VERSION}[fmt]

        def der(o):
            if isinstance(o, rsa.PrivateKey):
                try:
                    return rsa.der_string_from_signing_key(o)
                except Exception:   # noqa
                    return None
            return None

        KEYPOOL.rewind()
        g = VGrid(nservers=3, seed=rng.getrandbits(32), keep_log=False)
        try:
            c0, c1 = g.make_client(k=1, happy=1, n=2), g.make_client(k=1, happy=1, n=2)

            def ok(d, what):
                st, res = g.wait(d)
                if st != "ok":
                    raise RuntimeError("%s did not succeed on the honest grid: %s %r" % (what, st, res))
                return res

            def judge_views(w, client, scenario, expect_privkey):
                """w: a write-capable node; check everything derived from it for read-only use."""
                backing = w._node if type(w).__name__ == "DirectoryNode" else w
                priv, wk, enc = backing.get_privkey(), backing.get_writekey(), backing.get_encprivkey()
                if priv is not None:
                    ck.hit("write-node-has-signing-key")
                elif expect_privkey:
                    ck.observe("write-node-without-signing-key:" + scenario)
                secrets = [("write key", wk), ("signing key", priv), ("signing key (DER)", der(priv)),
                           ("encrypted signing key", enc)]
                views = [("get_readonly()", backing.get_readonly()),
                         ("get_readonly().get_readonly()", backing.get_readonly().get_readonly()),
                         ("create_from_cap(get_readonly_uri())", client.nodemaker.create_from_cap(w.get_readonly_uri())),
                         ("create_from_cap(None, 'ro.'+get_readonly_uri())",
                          client.nodemaker.create_from_cap(None, b"ro." + w.get_readonly_uri())),
                         ("get_readcap()", w.get_readcap()), ("get_verify_cap()", w.get_verify_cap())]
                if type(w).__name__ == "DirectoryNode":
                    views.append(("DirectoryNode(over get_readonly() of the backing file)",
                                  type(w)(backing.get_readonly(), client.nodemaker, None)))
                for label, x in views:
                    ck.mon("keyed-readonly-view")
                    wit = {"format": fmt, "scenario": scenario, "derived_by": label, "derived_class": type(x).__name__}
                    inner = getattr(x, "_node", x) if type(x).__name__ == "DirectoryNode" else x
                    if hasattr(x, "is_readonly") and (not x.is_readonly() or write_uri_of(x) is not None):
                        ck.violation("derived-node-claims-write-authority", "%s of a keyed write node (%s) is writeable"
                                     % (label, scenario), wit)
                    for acc, sname, key in (("get_privkey", "signing key", "derived-node-carries-signing-key"),
                                            ("get_writekey", "write key", "derived-cap-leaks-secret")):
                        f = getattr(inner, acc, None)
                        if f is not None and f() is not None:
                            ck.violation(key, "%s of a write node that holds its keys (%s, %s): %s() returns the %s"
                                         % (label, fmt, scenario, acc, sname), dict(wit, accessor=acc))
                    f = getattr(inner, "get_encprivkey", None)
                    if f is not None and f() is not None:
                        # ciphertext under the write key, readable from the shares by any reader: not a stronger secret
                        ck.skip("derived-node-holds-encrypted-signing-key")
                        ck.observe("derived-node-holds-encrypted-signing-key")
                    for sname, path in scan(x, secrets, der):
                        if sname == "encrypted signing key":
                            ck.skip("derived-node-holds-encrypted-signing-key")
                            ck.observe("derived-node-holds-encrypted-signing-key")
                            continue
                        ck.violation("derived-node-carries-signing-key" if sname.startswith("signing") else "derived-cap-leaks-secret",
                                     "%s of a write node that holds its keys (%s, %s) carries the %s at %s"
                                     % (label, fmt, scenario, sname, path), dict(wit, attribute_path=path, secret=sname))
                    ck.case("keyed-view", key=("G", fmt, scenario, label))

            data0, data1 = b"contents 0" * 50, b"contents 1" * 50
            # (a) the node that created the file
            rw = ok(c0.nodemaker.create_mutable_file(MutableData(data0), version=version), "create_mutable_file")
            judge_views(rw, c0, "creator node", True)
            # (b) opened from the write cap string by another client: fresh, after a read, after a write
            rw2 = c1.nodemaker.create_from_cap(rw.get_uri())
            judge_views(rw2, c1, "fresh node from the write cap", False)
            if ok(rw2.download_best_version(), "download_best_version") != data0:
                ck.observe("keyed-part-read-mismatch")
            judge_views(rw2, c1, "after a read", False)
            ok(rw2.overwrite(MutableData(data1)), "overwrite")
            judge_views(rw2, c1, "after a write", True)
            ro = rw2.get_readonly()
            if ok(ro.download_best_version(), "download through the read-only view") != data1:
                ck.observe("keyed-part-read-mismatch")
            ck.mon("keyed-readonly-view")
            for sname, path in scan(ro, [("write key", rw2.get_writekey()), ("signing key", rw2.get_privkey()),
                                         ("signing key (DER)", der(rw2.get_privkey()))], der):
                ck.violation("derived-node-carries-signing-key" if sname.startswith("signing") else "derived-cap-leaks-secret",
                             "read-only view (%s) carries the %s at %s after its own read" % (fmt, sname, path),
                             {"format": fmt, "scenario": "read-only view after its own read", "attribute_path": path})
            ok(rw2.modify(lambda old, servermap, first_time: old + b"!"), "modify")
            judge_views(rw2, c1, "after modify()", True)
            # (c) a directory created by this client: its backing file holds the keys
            dn = ok(c0.nodemaker.create_new_mutable_directory({}, version=version), "create_new_mutable_directory")
            judge_views(dn, c0, "creator of a directory", True)
            ok(dn.set_uri("child", rw.get_uri(), rw.get_readonly_uri()), "set_uri")
            dn2 = c1.nodemaker.create_from_cap(dn.get_uri())
            ok(dn2.set_uri("child2", None, rw.get_readonly_uri()), "set_uri")
            judge_views(dn2, c1, "directory opened from its write cap, after an edit", True)
        finally:
            g.close()

    # ---- run (E), (D), (F), (G)
    import atexit
    import os
    import shutil
    import tempfile
    from allmydata.blacklist import Blacklist
    tmpd = tempfile.mkdtemp(prefix="vf-")
    atexit.register(shutil.rmtree, tmpd, True)
    with open(os.path.join(tmpd, "access.blacklist"), "wb") as f:
        for rec in chains_m:
            f.write(M.b32enc(rec[5]) + b" off-limits\n")
        for rec in chains_c:
            f.write(M.b32enc(rec[4]) + b" off-limits\n")
    nm_black = NodeMaker(None, None, None, None, None, {"k": 3, "n": 10}, None, None,
                         blacklist=Blacklist(os.path.join(tmpd, "access.blacklist")))
    for rec in chains_m:
        guarded("ProhibitedNode chain (%s)" % rec[0][0], {"family": rec[0][0]}, wrapper_mutable, rec)
    for rec in chains_c:
        guarded("ProhibitedNode chain (%s)" % rec[0][0], {"family": rec[0][0]}, wrapper_chk, rec)
    guarded("no-write histories", {}, run_histories)
    for fmt in ("SDMF", "MDMF"):
        with ck.watchdog(240, "keyed read-only views " + fmt):
            guarded("read-only views of keyed write nodes (%s)" % fmt, {"format": fmt}, keyed_part, fmt)

    nD = 8 if ck.tier == "quick" else 60
    for rep in range(nD):
        idx += 1
        if not ck.mine(idx) and rep >= 1:
            continue
        if ck.out_of_time():
            break
        for dfam in (MUTABLE_FAMILIES[2], MUTABLE_FAMILIES[3]):
            guarded("directory pack/unpack (%s)" % dfam[0], {"family": dfam[0]}, dir_part, rep, dfam)

    shutil.rmtree(tmpd, ignore_errors=True)
    ck.exhaustive = False
    ck.require_monitor("wrapper-chain", "no-write-link-invariant", "keyed-readonly-view")
    ck.require_reach("write-node-has-signing-key")
    ck.require_reach("prohibited-node", "prohibited-child-packed", "no-write-link", "no-write-link-retargeted-without-metadata")
    ck.require_monitor("derivation-chain", "node-chain", "derived-cap-usable", "secret-search", "authority-flags", "truth-table-cap",
                       "truth-table-node", "truth-table-consistent-cell", "unknown-node-oracle", "strip-prefix-reread",
                       "dir-reread")
    ck.require_reach("consistent-cell", "consistent-cell-node")
    ck.require_reach("alleged-prefix-makes-unknown", "imm-context-known-cap", "ro-context-known-cap", "node-unknown",
                     "node-known", "restricted-context-node", "unknown-node-opaque", "strip_prefix_for_ro",
                     "unpack:readonly-dir", "unpack:immutable-dir")


# MUST_CATCH -- planted in scratch copies (VF_REPO); unchanged tree exits 0, every break below exits 1:
#   1. WriteableSSKFileURI.get_readonly() returns self              -> derivation-chain-mismatch, derived-cap-leaks-secret,
#                                                                      derived-cap-claims-write-authority, derived-node-claims-write-authority
#   2. MDMFDirectoryURI.get_readonly() returns self                 -> same keys + readonly-dir-yields-writeable-child
#   3. from_string: ALLEGED_READONLY_PREFIX branch keeps can_be_writeable -> alleged-readonly-parsed-as-writeable
#   4. strip_prefix_for_ro drops 'imm.' in mutable directories      -> imm-marker-lost-in-storage
#   5. ReadonlySSKFileURI.get_verify_cap() puts the readkey in the SI slot -> derivation-chain-mismatch, derived-cap-leaks-secret
#   6. from_string: deep_immutable no longer clears can_be_mutable  -> alleged-immutable-parsed-as-mutable
#   7. from_string: 'imm.' only clears can_be_writeable             -> alleged-immutable-parsed-as-mutable
#   8. UnknownNode strips 'ro.' and keeps the cap in rw_uri         -> unknown-node-exposes-write-uri
#   9. UnknownNode does not add 'ro.' to an unprefixed ro slot      -> unknown-node-weakens-alleged-prefix
#  10. UnknownNode (deep-immutable) does not upgrade 'ro.' to 'imm.' -> unknown-node-not-imm-in-immutable-context
#  11. UnknownNode (deep-immutable) both-slots error removed + rw kept -> unknown-node-exposes-write-uri
#  12. MutableFileNode.get_write_uri() ignores is_readonly()        -> derived-node-claims-write-authority
#  13. ssk_storage_index_hash uses the datakey tag                  -> derivation-chain-mismatch
#  14. DirectoryNode._unpack_contents decrypts rw caps for RO dirs  -> readonly-dir-yields-writeable-child
#  15. CHKFileURI.get_verify_cap() passes the key as storage index  -> derivation-chain-mismatch, derived-cap-leaks-secret
#  16. NodeMaker memokey ignores deep_immutable                     -> alleged-immutable-parsed-as-mutable
#  17. seeded C15-1: 'URI:DIR2-MDMF-RO:' branch guarded by can_be_writeable (ro.+readcap -> UnknownURI/UnknownNode)
#                                                                    -> consistent-prefix-rejected
#  18. seeded C16-4: ReadonlyMDMFDirectoryURI.get_verify_cap() override removed (read->verify gives an SDMF
#      DirectoryURIVerifier around an MDMFVerifierURI whose to_string()/==/hash raise AssertionError)
#                                                                    -> derived-cap-unusable, derived-cap-wrong-kind
#      (an exception inside any derivation block is the verdict "derivation-raises", never a harness crash)
#  19. seeded C16-5: ProhibitedNode.get_readonly_uri() returns the wrapped node's get_uri() (write cap)
#                                                                    -> derivation-chain-mismatch, derived-cap-leaks-secret,
#                                                                       readonly-dir-yields-writeable-child (packed as child)
#  20. seeded C16-6: Adder.modify decides diminishing from the caller's new_metadata only (a kept no-write link
#      retargeted with metadata=None holds the write cap)            -> no-write-link-holds-write-cap
#  21. seeded C16-7: MutableFileNode.get_readonly() pre-populates the read-only node from a keyed write node and also
#      copies _privkey/_encprivkey                                  -> derived-node-carries-signing-key
#                                                                       (get_privkey() and scan path <derived>._privkey)
#  inert (equivalent mutant, exit 0): "deep-immutable branch assigns rw_uri = given_rw_uri" alone -- given_rw_uri is
#  always None there because the earlier branches already returned or moved it.
