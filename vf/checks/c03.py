"""C03 immutable availability with k good shares."""
META = {
    "level": "exploration",
    "technique": "runtime monitoring of real downloads on an in-process grid under generated fault plans (missing/destroyed/corrupted/truncated shares, erroring, disconnecting, dead, slow and hung servers) with ground truth computed from the plan",
    "text": "Share sets are produced by a real upload and installed in arbitrary placements (several shares per server, duplicates, all good shares on one server); each server gets a fault rule. Ground truth from the plan: >=k untouched distinct shares on fault-free servers => the full read must succeed with the exact bytes; fewer than k shares that could possibly be used (others deleted, every block overwritten, server dead or always erroring) => the read must fail with NotEnoughSharesError/NoSharesError and never succeed. Everything else is recorded as open and only judged for 'never succeeds with wrong data'.",
    "note": "Good = share file untouched on a server that answers every request (possibly late). Late answers of *other* servers (virtual delays crossing the 10 s overdue timer) and servers that never answer are part of the fault plans. Sampled exploration.",
}
BUDGET = {"quick": 45, "thorough": 480}

from vf import env  # noqa


def run(ck):
    from vf.checks import _immfault as F
    from vf import imm
    ck.rule = ("case = (k<=N<=6, size, segsize, 1..N+3 servers, placement layout, per-share state, per-server fault "
               "rule, transport profile, schedule seed); distinct = full case description; non-trivial = at least one "
               "bad share or faulty server")
    i = 0
    while ck.more(min_cases=150):
        i += 1
        if not ck.mine(i):
            continue
        rng = ck.rng("case", i)
        if i % 7 == 3:
            with ck.watchdog(180, "late-share case %d" % i):
                late_share_case(ck, rng, i)
            continue
        if i % 7 == 5:
            with ck.watchdog(180, "burst case %d" % i):
                burst_case(ck, rng, i)
            continue
        case = F.build(rng, allow_hang=True)
        truth, info = F.classify(case)
        profile = rng.choice(["fifo", "per-server-fifo", "free"])
        try:
            g, c, cap, data = F.materialize(case, rng, rng.getrandbits(32), profile)
        except RuntimeError:
            ck.observe("scratch-upload-failed")
            continue
        try:
          with ck.watchdog(180, "case %d" % i):
              node = c.create_node_from_uri(cap)
              cons = imm.RecordingConsumer()
              st, res = g.wait(node.read(cons, 0, None), horizon=4 * 3600.0)
              ck.mon("availability-oracle")
              w = dict(case=case, truth=truth, info=info, profile=profile, status=st,
                       error=(res.type.__name__ + ": " + str(res.value)[:200]) if st == "err" else None)
              ck.hit(truth)
              if st == "ok" and cons.value() != data:
                  ck.violation("success-with-wrong-data", "read succeeded with bytes that differ from the upload", w)
              if truth == "must-succeed":
                  if st == "err":
                      ck.violation("read-failed-with-k-good-shares",
                                   "k=%d untouched shares %s sit on fault-free servers, yet the read failed: %s"
                                   % (case["k"], info["good"], w["error"]), w)
                  elif st != "ok" and any(m == "read" for vs in g.servers for (_, m) in vs.hung):
                      # a share-holding server accepted a block read and never answered it
                      ck.violation("stalled-by-never-answered-block-read",
                                   "k=%d untouched shares %s sit on answering servers, but another server never answered "
                                   "a block read and the download waits for it forever (%s)" % (case["k"], info["good"], st), w)
                  elif st != "ok":
                      ck.violation("read-did-not-complete-with-k-good-shares",
                                   "k=%d untouched shares %s sit on fault-free servers, yet the read never completed (%s)"
                                   % (case["k"], info["good"], st), w)
              elif truth == "must-fail":
                  if st == "ok":
                      ck.violation("read-succeeded-with-fewer-than-k-shares",
                                   "only shares %s could possibly be used (k=%d) yet the read succeeded" % (
                                       info["maybe"], case["k"]), w)
                  elif st == "err":
                      if res.type.__name__ not in ("NotEnoughSharesError", "NoSharesError"):
                          ck.violation("wrong-error-with-fewer-than-k-shares",
                                       "expected a not-enough-shares error, got %s" % w["error"], w)
                  else:
                      if F.has_infinite_hang(case):
                          ck.skip("must-fail-but-a-server-never-answers")
                      else:
                          ck.violation("read-did-not-complete-with-fewer-than-k-shares",
                                       "every server answered or failed, fewer than k shares exist, read status %s" % st, w)
              else:
                  ck.skip("open-case")
              ck.hit("status-" + st)
              nontrivial = any(p[2] != "good" for p in case["placements"]) or any(
                  f["kind"] != "none" for f in case["faults"].values())
              ck.case(truth, key=repr(case), nontrivial=nontrivial,
                      sample=dict(k=case["k"], n=case["n"], nservers=case["nservers"], layout=case["layout"],
                                  placements=case["placements"], faults=case["faults"], truth=truth, status=st))
        finally:
            g.close()
        if ck.tier == "quick" and ck.evaluations >= 1500:
            break
    ck.require_monitor("availability-oracle")
    ck.require_reach("must-succeed", "must-fail", "status-ok", "status-err", "late-answers-arrive-in-one-burst")


def late_share_case(ck, rng, i):
    """Directed history: k+1 shares, one per server; the server of the spare share answers the share query late,
    while the reader is paused between segments (or between two reads on the same node); then one of the shares
    used so far is deleted and the read continues.  k intact shares on answering servers remain throughout,
    so the read(s) must succeed with the exact bytes."""
    import os
    from vf.grid import VGrid
    from vf import imm
    from allmydata import uri
    k = rng.randint(1, 3)
    n = k + 1
    segsize = rng.choice([32, 64, 128])
    size = segsize * rng.randint(3, 5) + rng.randint(0, 7)
    p = dict(k=k, n=n, segsize=segsize)
    data = imm.gen_data(rng, size)
    key = rng.randbytes(16)
    try:
        cap, shares = imm.honest_shares(n, p, data, key)
    except RuntimeError:
        ck.observe("scratch-upload-failed")
        return
    profile = rng.choice(["fifo", "per-server-fifo", "free"])
    g = VGrid(nservers=n, seed=rng.getrandbits(32), profile=profile, keep_log=False)
    try:
        si = uri.from_string(cap).get_storage_index()
        imm.install_shares(g, si, shares, {s: s for s in shares})
        late = rng.randrange(n)
        delay = rng.choice([0.5, 3.0, 12.0])
        g.servers[late].add_fault("delay", method="get_buckets", delay=delay)
        c = g.make_client(k=k, happy=1, n=n, max_segment_size=segsize)
        node = c.create_node_from_uri(cap)
        variant = rng.choice(["pause-between-segments", "two-reads"])
        state = {"paused": False}

        def on_write(cons, chunk):
            if variant == "pause-between-segments" and not state["paused"] and cons.producer is not None:
                state["paused"] = True
                cons.producer.pauseProducing()
        cons = imm.RecordingConsumer(on_write)
        box = []
        if variant == "two-reads":
            st, res = g.wait(node.read(cons, 0, segsize))      # first segment only
            ok1 = (st == "ok" and cons.value() == data[:segsize])
        else:
            d = node.read(cons, 0, None)
            d.addBoth(box.append)
            g.sched.run(until=lambda: state["paused"] or bool(box), max_steps=100000, horizon=600.0)
            ok1 = True
        # let the late answer arrive while nothing is being fetched
        g.sched.run(until=lambda: False, max_steps=100000, horizon=delay + 5.0)
        # one of the other shares disappears
        victim = rng.choice([s for s in range(n) if s != late])
        for (vs, sh, path) in g.find_shares(si):
            if sh == victim:
                os.unlink(path)
        ck.hit("late-answer-while-idle")
        if variant == "two-reads":
            cons2 = imm.RecordingConsumer()
            st, res = g.wait(node.read(cons2, 0, None), horizon=4 * 3600.0)
            got, want = cons2.value(), data
        else:
            if cons.producer is not None:
                cons.producer.resumeProducing()
            g.sched.run(until=lambda: bool(box), max_steps=200000, horizon=4 * 3600.0)
            if box:
                r = box[0]
                isf = hasattr(r, "type") and hasattr(r, "value")
                st, res = ("err", r) if isf else ("ok", r)
            else:
                st, res = "hang", None
            got, want = cons.value(), data
        ck.mon("availability-oracle")
        ck.hit("must-succeed")
        w = dict(k=k, n=n, size=size, segsize=segsize, late_server=late, delay=delay, deleted_share=victim,
                 variant=variant, profile=profile, status=st,
                 error=(res.type.__name__ + ": " + str(res.value)[:200]) if st == "err" else None)
        if st == "ok" and got != want:
            ck.violation("success-with-wrong-data", "read succeeded with bytes that differ from the upload", w)
        elif st == "err" or not ok1:
            ck.violation("read-failed-with-k-good-shares",
                         "k=%d intact shares stay on answering servers throughout (one answered the share query late while "
                         "the reader was idle, another share was then deleted), yet the read failed: %s" % (k, w["error"]), w)
        elif st != "ok":
            ck.violation("read-did-not-complete-with-k-good-shares",
                         "k=%d intact shares stay on answering servers, the read never completed (%s)" % (k, st), w)
        ck.hit("status-" + st)
        ck.case("late-share", key=repr(w), nontrivial=True, sample=w)
    finally:
        g.close()


def burst_case(ck, rng, i):
    """Directed history: k+1..k+2 intact shares, one per server, every server answers every request; the block
    reads of a random subset of servers are kept back (0.5 .. 25 virtual seconds) and the late answers then arrive in
    one burst, in any order, before or after the reader's next eventual-send turn.  k intact shares
    on answering servers exist throughout, so the read must succeed with the exact bytes."""
    from vf.grid import VGrid
    from vf import imm
    from allmydata import uri
    k = rng.randint(1, 3)
    n = k + rng.randint(1, 2)
    segsize = rng.choice([32, 64, 128])
    size = max(56, segsize * rng.randint(1, 3) + rng.randint(0, 7))
    p = dict(k=k, n=n, segsize=segsize)
    data = imm.gen_data(rng, size)
    key = rng.randbytes(16)
    try:
        cap, shares = imm.honest_shares(n, p, data, key)
    except RuntimeError:
        ck.observe("scratch-upload-failed")
        return
    profile = rng.choice(["fifo", "per-server-fifo", "free"])
    g = VGrid(nservers=n, seed=rng.getrandbits(32), profile=profile, keep_log=False)
    try:
        si = uri.from_string(cap).get_storage_index()
        imm.install_shares(g, si, shares, {s: s for s in shares})
        (_, _, path0) = g.find_shares(si)[0]
        d0, d1 = imm.ShareFile(path0).region("data")
        which = rng.choice(["first-block-read", "first-block-read", "every-block-read"])
        held_servers = rng.sample(range(n), rng.randint(max(1, k), n))
        for s in held_servers:
            g.servers[s].add_fault("hold", method="read", nth=1 if which == "first-block-read" else None,
                                   when=lambda a, d0=d0, d1=d1: len(a) >= 1 and d0 <= a[0] < d1)
        c = g.make_client(k=k, happy=1, n=n, max_segment_size=segsize)
        node = c.create_node_from_uri(cap)
        cons = imm.RecordingConsumer()
        box = []
        node.read(cons, 0, None).addBoth(box.append)
        released = 0
        bursts = 0
        for rnd in range(12):
            # let every timer within the chosen span fire, then release everything kept back at once
            g.sched.run(until=lambda: bool(box), max_steps=100000, horizon=rng.choice([0.5, 11.0, 11.0, 25.0]))
            if box:
                break
            nheld = sum(len(vs.held) for vs in g.servers)
            if nheld >= 2:
                bursts += 1
            for vs in rng.sample(g.servers, len(g.servers)):
                order = list(range(len(vs.held)))
                rng.shuffle(order)
                released += vs.release_held(order)
        if not box:
            for vs in g.servers:
                del vs.faults[:]
                released += vs.release_held()
            g.sched.run(until=lambda: bool(box), max_steps=200000, horizon=4 * 3600.0)
        if box:
            r = box[0]
            isf = hasattr(r, "type") and hasattr(r, "value")
            st, res = ("err", r) if isf else ("ok", r)
        else:
            st, res = "hang", None
        ck.mon("availability-oracle")
        ck.hit("must-succeed")
        if bursts:
            ck.hit("late-answers-arrive-in-one-burst")
        w = dict(k=k, n=n, size=size, segsize=segsize, held_servers=sorted(held_servers), which=which, profile=profile,
                 released=released, bursts=bursts, status=st,
                 error=(res.type.__name__ + ": " + str(res.value)[:200]) if st == "err" else None)
        if st == "ok" and cons.value() != data:
            ck.violation("success-with-wrong-data", "read succeeded with bytes that differ from the upload", w)
        elif st == "err":
            ck.violation("read-failed-with-k-good-shares",
                         "all %d shares are intact and every server answers every request (the first block reads late, "
                         "in one burst), yet the read failed: %s" % (n, w["error"]), w)
        elif st != "ok":
            ck.violation("read-did-not-complete-with-k-good-shares",
                         "all %d shares are intact and every server answered, the read never completed (%s)" % (n, st), w)
        ck.hit("status-" + st)
        ck.case("burst", key=repr(w), nontrivial=True, sample=w)
    finally:
        g.close()
